"""Per-property metadata and stage plans used by ../check."""

# level category per property (see MANIFEST.json / DESIGN.md)
PROPERTIES = {
    "C01": {"category": "exploration",
            "technique": "online DiffHook trace monitor (protocol/coverage/equality/carried-index assertions) + metamorphic sub-range shift check + red-zone Index carriers, over bounded-exhaustive and seeded random inputs; checked-arithmetic build turns overflow/OOB into observable panics",
            "level_text": "Runtime monitoring of real executions: every callback of every run is checked online by a trace monitor sitting where a user hook sits; complete for all pairs over a 3-letter alphabet up to length 5 (thorough 6; binary up to 8) and all sub-ranges of all pairs up to length 4, sampled beyond. Right level because the property is a forall over inputs/ranges/Index implementations that only an oracle-carrying monitor run over many executions can probe; no proof is claimed.",
            "level_note": "Trusts the trace monitor, the StrictLookup red-zone carrier and rustc/std. Says nothing about inputs outside the enumerated bound except the sampled ones.",
            "anchor_files": ["src/algorithms/myers.rs", "src/algorithms/patience.rs", "src/algorithms/lcs.rs", "src/algorithms/utils.rs", "src/algorithms/mod.rs"],
            "assumptions": ["inputs beyond the enumerated bound are only sampled", "the trace monitor and its red-zone lookups are themselves correct (validated by seeded mutants, see DESIGN.md)"]},
}

DEFAULT_ASSUMPTIONS = [
    "verdict covers only the executions that were generated (bounded-exhaustive parts are complete within the stated bound; everything else is seeded sampling)",
    "the reference model / oracle written for this property is correct (cross-checked by seeded mutants, see DESIGN.md)",
    "rustc, std and the harness' own code are trusted",
]

for _p in PROPERTIES.values():
    _p.setdefault("assumptions", [])
    _p["assumptions"] = _p["assumptions"] + DEFAULT_ASSUMPTIONS

# properties whose thorough tier has a Miri stage / which byte paths it reaches
MIRI = set()
COVERAGE = set(PROPERTIES)


def stages_for(prop, tier):
    if tier == "quick":
        return [{"name": "checked", "kind": "native", "profile": "checked", "tier": "quick", "budget_s": 240, "watchdog_s": 900}]
    st = [
        {"name": "checked", "kind": "native", "profile": "checked", "tier": "thorough", "budget_s": 1500, "watchdog_s": 3600},
        # release profile: debug_assert!/overflow checks off — observable behaviour can differ
        {"name": "release", "kind": "native", "profile": "release", "tier": "quick", "budget_s": 300, "watchdog_s": 900},
    ]
    if prop in MIRI:
        st.append({"name": "miri", "kind": "miri", "budget_s": 600, "watchdog_s": 1500})
    if prop in COVERAGE:
        st.append({"name": "coverage", "kind": "coverage", "scale": 25, "budget_s": 300, "watchdog_s": 900})
    return st
