"""Per-property metadata and stage plans used by ../check."""

# level category per property (see MANIFEST.json / DESIGN.md)
PROPERTIES = {
    "C01": {"category": "exploration",
            "technique": "online DiffHook trace monitor (protocol/coverage/equality/carried-index assertions) + metamorphic sub-range shift check + red-zone Index carriers, over bounded-exhaustive and seeded random inputs; checked-arithmetic build turns overflow/OOB into observable panics",
            "level_text": "Runtime monitoring of real executions: every callback of every run is checked online by a trace monitor sitting where a user hook sits; complete for all pairs over a 3-letter alphabet up to length 5 (thorough 6; binary up to 8) and all sub-ranges of all pairs up to length 4, sampled beyond (random pairs up to 400 items, near-identical inputs up to 70 000 items, edit distances of thousands, LCS on 4200x4100 unrelated items, deadline expiring at check 0/1, a cross-type tolerance comparison that is not transitive). Right level because the property is a forall over inputs/ranges/Index implementations that only an oracle-carrying monitor run over many executions can probe; no proof is claimed. Also: two different lookup types viewing one object at one address, non-reflexive items (f64 NaN) in a buffer that is old and new at once, ranges given with start > end (empty at start). Session 3: stack depth - thousands of nested Patience anchors, unrelated inputs and thousands of hunks in an UNOPTIMISED build on 2 MiB worker stacks (small-stack stage).",
            "level_note": "Trusts the trace monitor, the StrictLookup red-zone carrier and rustc/std. Says nothing about inputs outside the enumerated bound except the sampled ones.",
            "anchor_files": ["src/algorithms/myers.rs", "src/algorithms/patience.rs", "src/algorithms/lcs.rs", "src/algorithms/utils.rs", "src/algorithms/mod.rs"],
            "assumptions": ["inputs beyond the enumerated bound are only sampled", "the trace monitor and its red-zone lookups are themselves correct (validated by seeded mutants, see DESIGN.md)"]},
}

CAPT_FILES = ["src/common.rs", "src/algorithms/compact.rs", "src/algorithms/replace.rs", "src/algorithms/capture.rs", "src/types.rs"]
PROPERTIES.update({
    "C02": {"category": "fault_enumeration",
            "anchor_files": CAPT_FILES,
            "technique": "offline op-list checker (left-to-right walk + independent apply/inverse-apply) over captured diffs; virtual-clock fault injection enumerating every deadline-check index",
            "level_text": "Every captured op list is walked by an independent checker and additionally applied forwards and backwards on real vectors. Inputs: all pairs over 3 letters up to length 5 x 3 algorithms x 3 capture entry points, all sub-ranges of all short pairs, sampled longer pairs, long inputs (near-identical up to 70 000 items, edit distances of thousands, runs of thousands of identical items, distinct-item counts crossing 256/1024/4096/65 536 through the integer mapping of TextDiff, borrowed-hook and IdentifyDistinct pipelines, non-transitive cross-type equality); for each, the deadline is made to expire at EVERY deadline check (hook H2 virtual clock) - a fault sequence no test can produce with real time. Also: item values with sorted structure around 1024/2048 items, reversed-empty ranges, a user-defined text type (OddStr) as entry point, the capture hook without the compaction stage under every expiry point, and the ratio on real sequences of 2^24+4 / 2^25+6 items and on hand-built op lists up to 2^62 items. Session 3: lopsided boxes needing more than 4096 search rounds, LCS on 1100..2600 unrelated items per side, more than 10 000 raw edit calls, moved blocks, a frequent token between one-sided runs, re-used hook stacks, empty and long caller-supplied tokens.",
            "level_note": "Trusts the op-list checker, the virtual clock hook (H2, 10 lines in deadline_support.rs/verif_hooks.rs) and rustc/std. Expiry points are exhaustive only where the number of checks is <= 64, sampled (12 per input) otherwise."},
    "C03": {"category": "exploration",
            "anchor_files": ["src/algorithms/myers.rs", "src/algorithms/lcs.rs", "src/algorithms/compact.rs", "src/common.rs"],
            "technique": "differential check of the observed edit cost (raw callback stream and captured ops) and ratio against an O(NM) LCS dynamic program",
            "level_text": "Cost of the raw stream and of the captured ops, total Equal length and the f32 ratio are compared with an independent DP on every execution: complete for all pairs over 3 letters up to length 5 (thorough 6) and all sub-ranges of short pairs, sampled up to 150 items, plus long inputs (near-identical and far-apart pairs up to 3000 items against the DP; optimum known by construction at 65 536 distinct items). Minimality is a forall-inputs claim with a cheap exact oracle, so differential monitoring is the natural level. Also: sorted-value windows with the optimum known by construction, and the deadline-free text entry points under a virtual clock on which any deadline would have expired. Session 3: moved blocks of unique items across shorter ordered runs, a frequent token between one-sided runs above 100 tokens, more than 10 000 raw edits, lopsided deep boxes with the optimum known by construction.",
            "level_note": "Trusts the 10-line DP reference (lcs_len) and the op-list walk. Patience is excluded by the property itself."},
    "C09": {"category": "fault_enumeration",
            "anchor_files": ["src/algorithms/replace.rs", "src/algorithms/compact.rs", "src/common.rs", "src/algorithms/lcs.rs"],
            "technique": "offline normal-form checker (alternation, non-empty ops, insert-at-latest-position) over captured diffs incl. every deadline expiry point and arbitrary valid scripts pushed through Compact+Replace",
            "level_text": "Normal form is asserted on every captured op list of the C02 workload (all algorithms, sub-ranges, every expiry point of the virtual clock) and on enumerated/random valid edit scripts driven through Compact<Replace<Capture>>.",
            "level_note": "Trusts the normal-form checker; validity failures are counted but attributed to C02."},
    "C11": {"category": "fault_enumeration",
            "anchor_files": ["src/algorithms/compact.rs", "src/types.rs", "src/algorithms/replace.rs"],
            "technique": "offline carried-index checker over captured diffs (every expiry point), with hook-based attribution of failures to the listed known finding KF1 (swap-repair switch H3)",
            "level_text": "Both indices of every captured op are compared with the running item counts. The pinned tree violates this on ~13% of inputs through one site (KF1, see known_findings.json): a failing case is attributed to KF1 only if a swap was observed in that run and the identical run with the H3 repair switch passes; anything else is a VIOLATION. Session 3: a stale carried index is matched to the known finding only if a frozen copy of the PINNED clean-up reproduces exactly the observed ops from the raw calls of the same run.",
            "level_note": "Verdicts are always taken with the repair switch off. Trusts the checker, hooks H2/H3 and the attribution rule; a defect that manifests only together with a swap AND disappears when the swapped pair's indices are recomputed would be absorbed by KF1."},
})

PROPERTIES.update({
    "C08": {"category": "fault_enumeration",
            "anchor_files": ["src/algorithms/hook.rs", "src/algorithms/replace.rs", "src/algorithms/compact.rs", "src/algorithms/myers.rs", "src/algorithms/patience.rs", "src/algorithms/lcs.rs"],
            "technique": "recording DiffHook with injected failure at call k; enumeration of EVERY k for every input x 12 adapter stacks (owned and &mut, NoFinishHook nested) x hook with/without replace override; differential comparison of call histories between stacks",
            "level_text": "For each input and adapter stack a clean run records the call history; then the run is repeated once for every call index k with that call returning Err(k). The monitor asserts: result is exactly Err(k), no call after the failing one, identical prefix, finish exactly once and last (never through NoFinishHook), forwarding wrappers transparent, default replace = delete+insert. Complete for all pairs over 3 letters up to length 4 (thorough 5); a second fault dimension (deadline expiring at check 0/1/2 AND a failing hook) is enumerated for pairs up to length 3 (4); huge inputs (LCS 4200x4100) get a clean run plus 5 failing indices; adapters are also driven by hand with scripts containing replace calls. Session 3: Replace adapters that completed another diff before (muted warm-up) must forward what a fresh one forwards; anchors behind gaps of up to 160 non-matching items.",
            "level_note": "Trusts the recording hook. The fault model is 'a hook call returns an error'; panicking hooks are not modelled."},
    "C10": {"category": "exploration",
            "anchor_files": ["src/algorithms/compact.rs", "src/algorithms/replace.rs", "src/types.rs"],
            "technique": "exhaustive enumeration of ALL valid edit scripts of all short pairs (plus random walks in the edit graph at non-zero offsets behind red-zone lookups) driven through Compact / Replace / Compact+Replace, checked by the offline op-list checker (validity, cost conservation, carried indices, normal form)",
            "level_text": "The adapters are fed histories that no algorithm of the crate produces: every valid script (split equal runs, interleaved delete/insert runs) of every binary pair up to length 4 (thorough: 5, ternary up to 4 = 24 M scripts), every script under a non-transitive tolerance equality for pairs over 4 letters up to length 3 (4), random scripts of longer pairs, scripts next to runs of thousands of identical items and scripts with more than 65 536 calls. Output must be a valid script of the same pair with the same deleted/inserted totals; Replace alone keeps carried indices exact; both adapters give the C09 normal form. Session 3: replace CALLS fed to the compaction stage for some adjacent delete/insert pairs, also next to other changes.",
            "level_note": "Trusts the script enumerator (its count is reported in the evidence) and the op-list checker."},
})

PROPERTIES.update({
    "C07": {"category": "fault_enumeration",
            "anchor_files": ["src/deadline_support.rs", "src/algorithms/myers.rs", "src/algorithms/lcs.rs", "src/algorithms/patience.rs", "src/text/mod.rs", "src/common.rs"],
            "technique": "fault injection through a virtual clock hooked into deadline_exceeded (fuel mode: expiry at every check index k; time mode: expiry when a comparison-driven virtual time passes T), online trace monitor + op-list checker on every expired run, comparison-counting items for promptness, differential plumbing check of every deadline-taking entry point incl. the Instant that reaches the check",
            "level_text": "For each input the number P of deadline checks is learnt from a never-expiring run, then the diff is re-run with the deadline expiring at EVERY check k in 0..=P (all pairs over 3 letters with N+M<=10, all sub-ranges of short pairs; sampled k for inputs up to 400 items): every run must pass the C01 trace monitor (finish exactly once) and the C02 walk. Promptness is decided on counted comparisons (never wall-clock): after the first expired check (fuel mode) and after virtual time T (time mode) at most 6(N+M)+16 comparisons. Plumbing: capture_diff(_slices)_deadline and TextDiffConfig::deadline/timeout (<=100 and >100 tokens) must equal the reference pipeline under the same clock and pass on the configured Instant; setter order (last wins) and real-clock sequences (expired diff followed by far-deadline diffs) are checked too.",
            "level_note": "Trusts hook H2 (virtual clock; ~40 lines) and that one tick per element comparison is a fair model of time for the promptness claim (work inside hashing or allocation is not counted). Observed maxima (about 2.0 comparisons per item after expiry) are reported in the evidence; the bound 6 leaves 3x head-room."},
})

PROPERTIES.update({
    "C04": {"category": "exploration",
            "anchor_files": ["src/text/mod.rs", "src/text/abstraction.rs", "src/iter.rs", "src/types.rs"],
            "technique": "offline checker over the change stream of real text diffs (byte-exact reconstruction of both inputs, index discipline) for 5 tokenizers x 3 algorithms x {str,[u8]} on generated hostile texts incl. invalid UTF-8 and token counts on both sides of the >100 switch",
            "level_text": "Every change stream (iter_all_changes and per-op iter_changes), without deadline and with a deadline expiring at check 0/1/k, is replayed into two byte buffers that must equal the inputs exactly, with per-side indices counting from zero; texts up to 67 000 lines and distinct-token counts crossing 256..65 536. Inputs are generated from an atom pool covering every Unicode whitespace, CR/LF/CRLF mixes, missing final newline, multi-byte and emoji clusters and, for bytes, spliced invalid UTF-8; plus texts of 0..400 tokens. Session 3: iterator-protocol battery (fold / nth / skip / last / count / find / take ... after a prefix of next() calls) on iter_all_changes and iter_changes; value-shaped line contents; small-stack stage.",
            "level_note": "Sampling only (no exhaustive part); trusts the generator's coverage of the atom pool, reported through samples and counters."},
    "C06": {"category": "exploration",
            "anchor_files": ["src/text/abstraction.rs"],
            "technique": "differential check of all tokenizers against independent byte-level reference splitters (own Unicode White_Space table, std utf8_chunks for validity) + direct shape assertions; exhaustive over strings of a 12-atom hostile alphabet, sampled over generated texts incl. invalid UTF-8; str vs [u8] equality on valid UTF-8",
            "level_text": "Each of the 6 tokenizers on str and [u8] is checked for: non-empty tokens that are consecutive slices of the input (lossless), equality with a reference splitter written over raw bytes (lines, lines-and-newlines, words, chars), direct shape assertions, and str/[u8] agreement on valid UTF-8. Complete for every string of up to 4 (thorough 6) atoms from {a, SP, LF, CR, e-acute, NBSP, U+2028, VT, 0xFF, truncated E2 82, NEL, TAB}; sampled on generated texts with every Unicode blank and on 8-300 KB inputs with rare characters placed late. A further stage runs the str half against similar built WITHOUT its `bytes` feature; a family places CR LF / multi-byte / invalid sequences across every power-of-two offset from 4096 to 131072. Session 3: one token of exactly 2^8 / 2^15 / 2^16 / 2^17 +- 2 and k*(2^16-1) bytes; 100 000..400 000 lines through every tokenizer in an unoptimised build on 2 MiB stacks (small-stack stage).",
            "level_note": "For invalid UTF-8 the reference assumes the 'maximal subpart' chunking of std::str::Utf8Chunks (what bstr documents too). Unicode word / grapheme tokenizers are only required to be lossless and non-empty, as the property states."},
    "C12": {"category": "exploration",
            "anchor_files": ["src/common.rs", "src/algorithms/capture.rs", "src/text/mod.rs"],
            "technique": "differential check of group_diff_ops / Capture::into_grouped_ops / TextDiff::grouped_ops against an independent reference grouping (clusters separated by equal runs > 2n) plus direct assertions (contiguity, context <= n, changes preserved once and in order), for every n in a list that includes 0 and values around usize::MAX/2",
            "level_text": "Random valid alternating op lists with independent non-zero offsets and all small exhaustive op lists are grouped for 14 radii (0..7, 13, 100, MAX/2, MAX/2+1, MAX-1, MAX) in both checked and release arithmetic, TextDiff::grouped_ops / UnifiedDiff::iter_hunks on real diffs (also after a radius change on one formatter, also at 2^23 tokens); the result must equal an independently formulated reference after dropping zero-length Equal placeholders, and satisfy the property's clauses directly. Session 3: non-alternating lists (a change directly behind a change), every radius 0..6 against every pair of texts of <= 4 tokens, options set after the radius, iterator battery on iter_hunks, 100 000..300 000 ops on 2 MiB stacks (small-stack stage).",
            "level_note": "Zero-length Equal placeholders (n = 0) are tolerated as the statement allows '0 items of context'."},
    "C13": {"category": "exploration",
            "anchor_files": ["src/iter.rs", "src/types.rs", "src/text/mod.rs", "src/udiff.rs"],
            "technique": "differential check of iter_changes / iter_slices / apply_to_hook round trip (owned and &mut capture) against a reference expansion, exhaustive over op kind x offsets x lengths on distinguishable sequences and sampled; whole-diff and hunk iteration compared with per-op expansion on real diffs",
            "level_text": "Every op kind with every in-bounds offset/length combination up to 4 over sequences whose old and new values differ at every index (so a side mix-up is visible), plus 150k random ops, each also through the standard iterator adaptors (nth after next, step_by, skip, count, last, size_hint); TextDiff::iter_all_changes, TextDiff::iter_changes and UnifiedDiffHunk::iter_changes are compared with the reference expansion of the ops on real diffs. Session 3: ops based at usize::MAX-8, 2^63, 2^32 ... through user-defined Index types; captures that completed a diff before; 100 000..300 000 consecutive empty ops in a caller-built hunk on 2 MiB stacks in an unoptimised build (small-stack stage).",
            "level_note": "Trusts the 20-line reference expansion."},
    "C15": {"category": "exploration",
            "anchor_files": ["src/algorithms/patience.rs", "src/algorithms/utils.rs"],
            "technique": "differential check of Patience's Equal pairs against an independent anchor model (items unique on both sides; LIS of their orders), raw and captured, exhaustive over short sequences and sampled over inputs built to have repeated backgrounds with crossing unique items",
            "level_text": "Complete for all pairs over 3 letters up to length 6 (thorough 7) and over 4 letters up to length 5 (6); 120k (2.5M) random inputs with letters repeated 1..5 times (odd and even counts) plus scattered unique items, incl. sub-ranges, heterogeneous old/new item types with different Hash implementations, >100-token text diffs, and mostly unrelated sequences of 3500..6000 (thorough 12 000) items sharing a few landmarks. The number of both-unique items reported Equal must reach the LIS bound. Session 3: a block of 20..70 unique common items moved across 4..40 shorter runs of ordered unique common items separated by one-sided noise.",
            "level_note": "Trusts the anchor model (hash-map counting + LCS DP)."},
    "C19": {"category": "exploration",
            "anchor_files": ["src/algorithms/myers.rs", "src/algorithms/patience.rs", "src/algorithms/utils.rs"],
            "technique": "counting monitor: items whose PartialEq counts calls; comparisons of each run are checked against 8*(N+M+1)*(D+1) with D taken from the script reported by the same run; structured large-input families (near-identical, block move, periodic, doubled, truncated, small alphabet)",
            "level_text": "A complexity claim cannot be proved by running; it can be refuted on the families and sizes that are run (structured families up to 4000 items quick / 20 000 thorough, near-identical inputs of 100 000 .. 1 000 000 items with two edits far apart, nested-uniqueness inputs). Decided on counted comparisons only. Observed maxima (0.8 Myers, 1.5 Patience) are reported; the factor 8 leaves 5x head-room while any quadratic regression on near-identical inputs of >= 1000 items exceeds it by an order of magnitude. Session 3: item types of one byte; items with a legal three-bucket Hash through the generic entry points (Myers needs no hashing).",
            "level_note": "Work that is not an element comparison (hashing, allocation) is not counted."},
    "C20": {"category": "exploration",
            "anchor_files": ["src/algorithms/utils.rs", "src/algorithms/patience.rs", "src/text/mod.rs", "src/text/abstraction.rs"],
            "technique": "differential / metamorphic checks: repeated calls (fresh hash seeds), other threads, separate processes (result digests compared by the driver), order-preserving injective relabellings (Strings, u64), constant-hash items, str vs [u8] text diffs; hook H4 reports how often the hash iteration order seen by unique() actually varied",
            "level_text": "Schedules here mean threads and hasher seeds: the same inputs are diffed 4x in one thread, on 3 other threads, and again in a second process (thorough: more), and all results/digests must agree; relabelled and hash-colliding inputs must give identical ops; sequences of up to 70 000 mostly unique items with swapped blocks are included. The evidence states for how many Patience inputs the pre-sort hash order differed between calls, i.e. the sort really mattered in what was observed. Also: the crate's own integer mapping (IdentifyDistinct) as an order-preserving relabelling, and relabelling to line tokens of text diffs (str and a user-defined case-insensitive type). Session 3: only the new side relabelled to another item type with another Hash; 2..4 threads diffing at the same moment (LCS tables of millions of cells) must each get what the call returns alone.",
            "level_note": "Equality for all hasher seeds is sampled over the seeds the runs happened to draw."},
})

PROPERTIES.update({
    "C05": {"category": "exploration",
            "anchor_files": ["src/udiff.rs", "src/common.rs", "src/text/mod.rs", "src/types.rs"],
            "technique": "strict unified-diff parser/applier (R-PATCH) over the bytes written by to_writer, differential checks writer vs Display vs a short-writing sink vs udiff::unified_diff, exhaustive small line texts + generated hostile texts; failures attributed to known finding KF1 only via the H3 swap-repair switch",
            "level_text": "Every rendering (radius 0..5, > usize::MAX/2 and MAX; header on/off; hint on/off; str and [u8]) is parsed from bytes and applied strictly: header counts == body counts, stated starts == true positions, ordered non-overlapping hunks, every context/'-' line byte-equal to the old text, marker exactly on unterminated lines, >= 1 change and <= radius edge context per hunk, deletions before insertions, result == new text; equal inputs render as nothing. Complete for all pairs of texts of up to 3 (thorough 4) lines over {a LF, b LF, a CRLF, a CR} with optional missing final newline; sampled over generated texts incl. invalid UTF-8, long texts with many hunks at multi-digit line numbers, renderings above 64 KiB, hunk-level API and re-used formatter objects. Header failures caused by the listed known finding are matched only if a swap was observed and the identical rendering with the repair switch passes and differs in '@@' lines only. Session 3: setter sequences on one formatter (radius / hint / header in any order, repeated, with renderings in between) against a fresh formatter; caller-supplied line items with interior unterminated items applied strictly; diff-syntax look-alike lines; small-stack stage.",
            "level_note": "Trusts the 250-line parser/applier and hook H3. With the hint disabled only applicability modulo the final newline is checked."},
    "C14": {"category": "exploration",
            "anchor_files": ["src/text/mod.rs", "src/algorithms/utils.rs", "src/common.rs"],
            "technique": "differential check: ops of TextDiff for 6 tokenizer entry points vs capture_diff_slices over independently obtained tokens, at token counts on both sides of the >100 switch; algorithm()/newline_terminated() under all overrides; IdentifyDistinct ids vs item equality (all pairs, within and across sides) and diff-through-lookups vs direct diff at non-zero offsets for 5 integer types",
            "level_text": "Texts of 0,1,50,99,100,101,102,150,400 tokens (vocabulary 3/20/1000, new-only repeated items included) through lines/words/chars/unicode words/graphemes/diff_slices x 3 algorithms x str/[u8] x override none/true/false; IdentifyDistinct checked pairwise on 20k (400k) random inputs with non-zero sub-range offsets; long texts up to 67 000 lines, distinct-token counts crossing 256..65 536 with both sides below the boundary, and Lcs text diffs far above 4096 x 4096 tokens (edits confined to a window). Every text case also runs as a user-defined DiffableStr (OddStr: case-insensitive Eq, U+2028 line ends, character-indexed) and through the one-call constructors with String / Cow / Vec<u8> inputs. Session 3: more than 10 000 raw edit calls (6000..7500 hunks; LCS block of 10 100..13 000 lines); grapheme clusters sharing their first four bytes.",
            "level_note": "Tokens are taken from the public tokenizers (validated separately by C06)."},
    "C16": {"category": "fault_enumeration",
            "anchor_files": ["src/text/inline.rs", "src/text/utils.rs", "src/text/mod.rs"],
            "technique": "offline checker over InlineChange streams (tags/indices vs plain expansion, segments rebuild the line, emphasis only in Replace-derived Delete/Insert and never over CR/LF, missing_newline flag), with the second-level diff's deadline absent, default, really expired and virtually expiring at check 0..3; second build without the `unicode` feature in the thorough tier",
            "level_text": "Line pairs biased to word-level edits (so the ratio gates are passed and emphasis is produced: ~150k emphasised segments per quick run), mixed terminators, lines split in two, invalid UTF-8 in the [u8] variant; every op of every diff is expanded under 4 deadline regimes; lines with exactly 255..4097 word tokens and lines with 70 000 distinct words are included. Every valid-UTF-8 case also runs as a user-defined DiffableStr (OddStr) whose len/slice count characters and which knows a further line terminator. Session 3: characters whose UTF-8 encodings share a byte prefix / suffix, any scalar value; iterator battery on the inline iterator.",
            "level_note": "The default 500 ms deadline of iter_inline_changes is real time: whether it expires is load dependent, the asserted properties are not."},
    "C17": {"category": "exploration",
            "anchor_files": ["src/utils.rs", "src/text/abstraction.rs", "src/types.rs"],
            "technique": "offline checker over TextDiffRemapper output (tags vs slice-wise expansion, slice == concatenation of tokens, pointer-range check that the slice is the substring of the original at the cumulative offset, reconstruction of both texts) and over the one-call helpers utils::diff_*, incl. empty texts and invalid UTF-8",
            "level_text": "6k (120k) generated text pairs x 5 tokenizers x 3 algorithms x str/[u8], both remapper constructors, slice_old/slice_new; the remapper is also given equal COPIES of the texts (other allocations); helpers diff_lines/words/chars/unicode_words/graphemes/slices must reconstruct, never return an empty slice, never panic (('', '') included in 1/23 of the cases). Session 3: caller-supplied tokenizations with EMPTY tokens and as many tokens as bytes; iterator battery on iter_slices.",
            "level_note": "Sampling only."},
    "C18": {"category": "exploration",
            "anchor_files": ["src/text/mod.rs", "src/text/utils.rs", "src/common.rs"],
            "technique": "differential check of get_close_matches against brute-force ranking (LCS dynamic program on chars, same f32 ratio expression) over generated word/candidate sets with duplicates, empty strings, multi-byte chars, cutoffs hit exactly (and their f32 neighbours), every n, ties at the truncation boundary in every rotation",
            "level_text": "2.1 M calls per quick run; cutoffs include every ratio that some candidate attains exactly, plus one ulp above/below, so that pre-filter rounding and >= vs > slips are visible; a dedicated family builds candidate groups with equal ratio to test the lexicographic tie-break at the cut; n up to usize::MAX; words of up to 70 000 distinct characters (exact reference via LIS).",
            "level_note": "Cases where two distinct ratios are closer than the u32 quantisation of the heap key would be skipped and counted (none are generated at these lengths)."},
})

DEFAULT_ASSUMPTIONS = [
    "verdict covers only the executions that were generated (bounded-exhaustive parts are complete within the stated bound; everything else is seeded sampling)",
    "the reference model / oracle written for this property is correct (cross-checked by seeded mutants, see DESIGN.md)",
    "rustc, std and the harness' own code are trusted",
]

for _p in PROPERTIES.values():
    _p.setdefault("assumptions", [])
    _p["assumptions"] = _p["assumptions"] + DEFAULT_ASSUMPTIONS

# properties whose thorough tier has a Miri stage / which byte paths it reaches
# Miri: second execution engine + UB detector for the byte paths (bstr/memchr) and, for C20,
# a result digest that must equal the native one
MIRI = {"C04", "C06", "C20"}


# scale factors (percent) applied to the sizes of the SAMPLED families, tuned so that a quick
# check takes roughly 10-25 s of wall clock on 16 cores and a thorough one a few minutes
QUICK_SCALE = {"C01": 150, "C02": 500, "C03": 2000, "C04": 150, "C05": 1000, "C06": 2500, "C07": 200, "C08": 100, "C09": 400,
               "C10": 1500, "C11": 800, "C12": 4000, "C13": 4000, "C14": 100, "C15": 400, "C16": 600, "C17": 1200, "C18": 400,
               "C19": 1500, "C20": 100}
THOROUGH_SCALE = {"C01": 400, "C02": 300, "C03": 500, "C04": 150, "C05": 800, "C06": 800, "C07": 150, "C08": 100, "C09": 300,
                  "C10": 300, "C11": 300, "C12": 1500, "C13": 1500, "C14": 150, "C15": 300, "C16": 1500, "C17": 800, "C18": 400,
                  "C19": 300, "C20": 100}


COVERAGE = set(PROPERTIES)

# properties with deep_* families: a stage in an UNOPTIMISED build ("plain" profile: no inlining, no tail-call
# elimination) whose worker threads have the stack of an ordinary spawned thread (2 MiB) instead of the
# harness' 256 MiB: recursion that grows with the input (per token, per op, per anchor) exhausts it, the
# process dies and the driver attributes the death to the case that was in flight
SMALLSTACK = {"C01", "C04", "C05", "C06", "C12", "C13"}


def stages_for(prop, tier):
    st = _stages_for(prop, tier)
    for s in st:
        if s.get("kind", "native") == "native" and "scale" not in s:
            s["scale"] = (THOROUGH_SCALE if s.get("tier") == "thorough" else QUICK_SCALE).get(prop, 100)
    return st


def _stages_for(prop, tier):
    import os
    harness = os.path.join(os.path.dirname(os.path.dirname(os.path.abspath(__file__))), "harness")
    nounicode = {"name": "no-unicode", "kind": "native", "profile": "checked", "features": "bytes", "target_dir": os.path.join(harness, "target-nounicode"),
                 "budget_s": 240, "watchdog_s": 900}
    # similar built WITHOUT its `bytes` feature: the str tokenizers have fallback code paths of their own there
    nobytes = {"name": "no-bytes", "kind": "native", "profile": "checked", "features": "unicode", "target_dir": os.path.join(harness, "target-nobytes"),
               "budget_s": 240, "watchdog_s": 900}
    if tier == "quick":
        st = [{"name": "checked", "kind": "native", "profile": "checked", "tier": "quick", "budget_s": 240, "watchdog_s": 900},
              # release profile: no debug_assert!, wrapping arithmetic — observable behaviour can differ
              {"name": "release", "kind": "native", "profile": "release", "tier": "quick", "budget_s": 240, "watchdog_s": 900,
               "scale": max(50, QUICK_SCALE.get(prop, 100) // 2)}]
        if prop == "C20":
            # a second process: fresh hash seeds, result digests must agree
            st.append({"name": "process2", "kind": "native", "profile": "checked", "tier": "quick", "budget_s": 240, "watchdog_s": 900, "same_digest_as": "checked"})
        if prop == "C16":
            # the inline second-level diff tokenizes differently without the `unicode` feature
            st.append(dict(nounicode, tier="quick"))
        if prop == "C06":
            st.append(dict(nobytes, tier="quick"))
        if prop in SMALLSTACK:
            st.append({"name": "smallstack", "kind": "native", "profile": "plain", "tier": "quick", "budget_s": 240, "watchdog_s": 900, "scale": 100,
                       "extra_args": ["--stack-mib", "2", "--only-prefix", "deep_"]})
        return st
    st = [
        {"name": "checked", "kind": "native", "profile": "checked", "tier": "thorough", "budget_s": 1500, "watchdog_s": 3600},
        {"name": "release", "kind": "native", "profile": "release", "tier": "thorough", "budget_s": 1500, "watchdog_s": 3600,
         "scale": max(50, THOROUGH_SCALE.get(prop, 100) // 3)},
    ]
    if prop == "C20":
        for i in range(2, 6):
            st.append({"name": "process%d" % i, "kind": "native", "profile": "checked", "tier": "thorough", "budget_s": 1500, "watchdog_s": 3600, "same_digest_as": "checked"})
    if prop == "C16":
        st.append(dict(nounicode, tier="thorough"))
    if prop == "C06":
        st.append(dict(nobytes, tier="thorough"))
    if prop in SMALLSTACK:
        st.append({"name": "smallstack", "kind": "native", "profile": "plain", "tier": "thorough", "budget_s": 900, "watchdog_s": 3600, "scale": 100,
                   "extra_args": ["--stack-mib", "2", "--only-prefix", "deep_"]})
    if prop in MIRI:
        st.append({"name": "miri", "kind": "miri", "budget_s": 900, "watchdog_s": 1800})
    if prop in COVERAGE:
        st.append({"name": "coverage", "kind": "coverage", "scale": 25, "budget_s": 300, "watchdog_s": 900})
    return st
