"""Per-property metadata and stage plans used by ../check."""

# level category per property (see MANIFEST.json / DESIGN.md)
PROPERTIES = {
    "C01": {"category": "exploration",
            "technique": "online DiffHook trace monitor (protocol/coverage/equality/carried-index assertions) + metamorphic sub-range shift check + red-zone Index carriers, over bounded-exhaustive and seeded random inputs; checked-arithmetic build turns overflow/OOB into observable panics",
            "level_text": "Runtime monitoring of real executions: every callback of every run is checked online by a trace monitor sitting where a user hook sits; complete for all pairs over a 3-letter alphabet up to length 5 (thorough 6; binary up to 8) and all sub-ranges of all pairs up to length 4, sampled beyond. Right level because the property is a forall over inputs/ranges/Index implementations that only an oracle-carrying monitor run over many executions can probe; no proof is claimed.",
            "level_note": "Trusts the trace monitor, the StrictLookup red-zone carrier and rustc/std. Says nothing about inputs outside the enumerated bound except the sampled ones.",
            "anchor_files": ["src/algorithms/myers.rs", "src/algorithms/patience.rs", "src/algorithms/lcs.rs", "src/algorithms/utils.rs", "src/algorithms/mod.rs"],
            "assumptions": ["inputs beyond the enumerated bound are only sampled", "the trace monitor and its red-zone lookups are themselves correct (validated by seeded mutants, see DESIGN.md)"]},
}

CAPT_FILES = ["src/common.rs", "src/algorithms/compact.rs", "src/algorithms/replace.rs", "src/algorithms/capture.rs", "src/types.rs"]
PROPERTIES.update({
    "C02": {"category": "fault_enumeration",
            "anchor_files": CAPT_FILES,
            "technique": "offline op-list checker (left-to-right walk + independent apply/inverse-apply) over captured diffs; virtual-clock fault injection enumerating every deadline-check index",
            "level_text": "Every captured op list is walked by an independent checker and additionally applied forwards and backwards on real vectors. Inputs: all pairs over 3 letters up to length 5 x 3 algorithms x 3 capture entry points, all sub-ranges of all short pairs, sampled longer pairs; for each, the deadline is made to expire at EVERY deadline check (hook H2 virtual clock) - a fault sequence no test can produce with real time.",
            "level_note": "Trusts the op-list checker, the virtual clock hook (H2, 10 lines in deadline_support.rs/verif_hooks.rs) and rustc/std. Expiry points are exhaustive only where the number of checks is <= 64, sampled (12 per input) otherwise."},
    "C03": {"category": "exploration",
            "anchor_files": ["src/algorithms/myers.rs", "src/algorithms/lcs.rs", "src/algorithms/compact.rs", "src/common.rs"],
            "technique": "differential check of the observed edit cost (raw callback stream and captured ops) and ratio against an O(NM) LCS dynamic program",
            "level_text": "Cost of the raw stream and of the captured ops, total Equal length and the f32 ratio are compared with an independent DP on every execution: complete for all pairs over 3 letters up to length 5 (thorough 6) and all sub-ranges of short pairs, sampled up to 150 items. Minimality is a forall-inputs claim with a cheap exact oracle, so differential monitoring is the natural level.",
            "level_note": "Trusts the 10-line DP reference (lcs_len) and the op-list walk. Patience is excluded by the property itself."},
    "C09": {"category": "fault_enumeration",
            "anchor_files": ["src/algorithms/replace.rs", "src/algorithms/compact.rs", "src/common.rs", "src/algorithms/lcs.rs"],
            "technique": "offline normal-form checker (alternation, non-empty ops, insert-at-latest-position) over captured diffs incl. every deadline expiry point and arbitrary valid scripts pushed through Compact+Replace",
            "level_text": "Normal form is asserted on every captured op list of the C02 workload (all algorithms, sub-ranges, every expiry point of the virtual clock) and on enumerated/random valid edit scripts driven through Compact<Replace<Capture>>.",
            "level_note": "Trusts the normal-form checker; validity failures are counted but attributed to C02."},
    "C11": {"category": "fault_enumeration",
            "anchor_files": ["src/algorithms/compact.rs", "src/types.rs", "src/algorithms/replace.rs"],
            "technique": "offline carried-index checker over captured diffs (every expiry point), with hook-based attribution of failures to the listed known finding KF1 (swap-repair switch H3)",
            "level_text": "Both indices of every captured op are compared with the running item counts. The pinned tree violates this on ~13% of inputs through one site (KF1, see known_findings.json): a failing case is attributed to KF1 only if a swap was observed in that run and the identical run with the H3 repair switch passes; anything else is a VIOLATION.",
            "level_note": "Verdicts are always taken with the repair switch off. Trusts the checker, hooks H2/H3 and the attribution rule; a defect that manifests only together with a swap AND disappears when the swapped pair's indices are recomputed would be absorbed by KF1."},
})

PROPERTIES.update({
    "C08": {"category": "fault_enumeration",
            "anchor_files": ["src/algorithms/hook.rs", "src/algorithms/replace.rs", "src/algorithms/compact.rs", "src/algorithms/myers.rs", "src/algorithms/patience.rs", "src/algorithms/lcs.rs"],
            "technique": "recording DiffHook with injected failure at call k; enumeration of EVERY k for every input x 12 adapter stacks (owned and &mut, NoFinishHook nested) x hook with/without replace override; differential comparison of call histories between stacks",
            "level_text": "For each input and adapter stack a clean run records the call history; then the run is repeated once for every call index k with that call returning Err(k). The monitor asserts: result is exactly Err(k), no call after the failing one, identical prefix, finish exactly once and last (never through NoFinishHook), forwarding wrappers transparent, default replace = delete+insert. Complete for all pairs over 3 letters up to length 4 (thorough 5); adapters are also driven by hand with scripts containing replace calls.",
            "level_note": "Trusts the recording hook. The fault model is 'a hook call returns an error'; panicking hooks are not modelled."},
    "C10": {"category": "exploration",
            "anchor_files": ["src/algorithms/compact.rs", "src/algorithms/replace.rs", "src/types.rs"],
            "technique": "exhaustive enumeration of ALL valid edit scripts of all short pairs (plus random walks in the edit graph at non-zero offsets behind red-zone lookups) driven through Compact / Replace / Compact+Replace, checked by the offline op-list checker (validity, cost conservation, carried indices, normal form)",
            "level_text": "The adapters are fed histories that no algorithm of the crate produces: every valid script (split equal runs, interleaved delete/insert runs) of every binary pair up to length 4 (thorough: 5, ternary up to 4 = 24 M scripts) and random scripts of longer pairs. Output must be a valid script of the same pair with the same deleted/inserted totals; Replace alone keeps carried indices exact; both adapters give the C09 normal form.",
            "level_note": "Trusts the script enumerator (its count is reported in the evidence) and the op-list checker."},
})

DEFAULT_ASSUMPTIONS = [
    "verdict covers only the executions that were generated (bounded-exhaustive parts are complete within the stated bound; everything else is seeded sampling)",
    "the reference model / oracle written for this property is correct (cross-checked by seeded mutants, see DESIGN.md)",
    "rustc, std and the harness' own code are trusted",
]

for _p in PROPERTIES.values():
    _p.setdefault("assumptions", [])
    _p["assumptions"] = _p["assumptions"] + DEFAULT_ASSUMPTIONS

# properties whose thorough tier has a Miri stage / which byte paths it reaches
MIRI = set()
COVERAGE = set(PROPERTIES)


def stages_for(prop, tier):
    if tier == "quick":
        return [{"name": "checked", "kind": "native", "profile": "checked", "tier": "quick", "budget_s": 240, "watchdog_s": 900}]
    st = [
        {"name": "checked", "kind": "native", "profile": "checked", "tier": "thorough", "budget_s": 1500, "watchdog_s": 3600},
        # release profile: debug_assert!/overflow checks off — observable behaviour can differ
        {"name": "release", "kind": "native", "profile": "release", "tier": "quick", "budget_s": 300, "watchdog_s": 900},
    ]
    if prop in MIRI:
        st.append({"name": "miri", "kind": "miri", "budget_s": 600, "watchdog_s": 1500})
    if prop in COVERAGE:
        st.append({"name": "coverage", "kind": "coverage", "scale": 25, "budget_s": 300, "watchdog_s": 900})
    return st
