#!/bin/bash
# imports round-2 sub-agent output /tmp/seed3/<P>/out/{A,B} as seeded/<P>-C and seeded/<P>-D, confirms them
# independently and runs vcheck against them in a copy (mutant farm)
for P in "$@"; do
  for v in A B; do
    t=$([ $v = A ] && echo E || echo F)
    src=/tmp/seed3/$P/out/$v
    [ -f $src/patch.diff ] || { echo "$P-$t: missing"; continue; }
    mkdir -p /verif/seeded/$P-$t
    cp $src/patch.diff $src/demo.rs /verif/seeded/$P-$t/; cp $src/README.md /verif/seeded/$P-$t/ 2>/dev/null
    /verif/tools/confirm_seed.sh $P-$t
  done
  python3 /verif/tools/mutant_farm.py --own $P-E $P-F
done
