#!/bin/bash
# imports round-4 sub-agent output /tmp/seed4/<P>/out/{A,B} as seeded/<P>-G and seeded/<P>-H, confirms them
# independently and runs vcheck against them in a copy (mutant farm)
for P in "$@"; do
  for v in A B; do
    t=$([ $v = A ] && echo G || echo H)
    src=/tmp/seed4/$P/out/$v
    [ -f $src/patch.diff ] || { echo "$P-$t: missing"; continue; }
    mkdir -p /verif/seeded/$P-$t
    cp $src/patch.diff $src/demo.rs /verif/seeded/$P-$t/; cp $src/README.md /verif/seeded/$P-$t/ 2>/dev/null
    /verif/tools/confirm_seed.sh $P-$t
  done
  python3 /verif/tools/mutant_farm.py --own $P-G $P-H
done
