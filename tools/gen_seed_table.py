#!/usr/bin/env python3
"""Fills the table between the SEEDED-TABLE markers of DESIGN.md from seeded/*/meta.json."""
import json, os, re
ROOT = os.path.dirname(os.path.dirname(os.path.abspath(__file__)))
rows = []
for sid in sorted(os.listdir(os.path.join(ROOT, "seeded"))):
    mp = os.path.join(ROOT, "seeded", sid, "meta.json")
    if not os.path.exists(mp):
        continue
    m = json.load(open(mp))
    off = m.get("official_protocol", {})
    res = off.get("results", {})
    caught = ", ".join("%s (exit %d)" % (p, r["exit"]) for p, r in sorted(res.items())) or "—"
    diag = off.get("first_diagnosis") or ""
    mcode = re.match(r"\[([^\]]+)\]", diag)
    farm = m.get("dev_farm")
    if not res and farm:
        caught = "%s (dev farm, exit %d)" % (farm["property"], farm["exit"])
        mcode = re.match(r"(.*)", farm["monitors"][0]) if farm.get("monitors") else None
    esc = lambda t: t.replace("|", "\\|").replace("\n", " ")
    rows.append("| %s | %s | %s | %s | %s | %s |" % (sid, m["breaks_property"], esc(m["change"]), esc(m["needs_to_manifest"]), caught, ("`%s`" % mcode.group(1)) if mcode else ""))
table = "| id | breaks | change | needs to manifest | official protocol: `./check <P> quick` | first monitor that fired |\n|---|---|---|---|---|---|\n" + "\n".join(rows) + "\n"
p = os.path.join(ROOT, "DESIGN.md")
s = open(p).read()
a = s.index("<!-- SEEDED-TABLE-BEGIN -->") + len("<!-- SEEDED-TABLE-BEGIN -->")
b = s.index("<!-- SEEDED-TABLE-END -->")
s = s[:a] + "\n" + table + s[b:]
open(p, "w").write(s)
print("%d rows" % len(rows))
