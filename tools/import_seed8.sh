#!/bin/bash
# round 8: /tmp/seed8/<P>/out/{A,B} -> seeded/<P>-O, seeded/<P>-P (copy, confirm independently, farm)
for P in "$@"; do
  for v in A B; do
    t=$([ $v = A ] && echo O || echo P)
    src=/tmp/seed8/$P/out/$v
    [ -f $src/patch.diff ] || { echo "$P-$t: missing"; continue; }
    mkdir -p /verif/seeded/$P-$t
    cp $src/patch.diff $src/demo.rs /verif/seeded/$P-$t/; cp $src/README.md /verif/seeded/$P-$t/ 2>/dev/null
    /verif/tools/confirm_seed.sh $P-$t
  done
done
