#!/bin/bash
# usage: tools/try_patch.sh <patch.diff> <tier> <PROP> [<PROP>...]
# Applies a seeded change to /repo's working tree, runs the given checks and
# ALWAYS restores /repo afterwards.  Prints one line per property: rc + VIOLATION lines.
patch="$(realpath "$1")"; tier="$2"; shift 2
if ! git -C /repo diff --quiet; then echo "refusing: /repo working tree is dirty"; exit 3; fi
restore() { git -C /repo checkout -- . ; }
trap restore EXIT
if ! git -C /repo apply "$patch"; then echo "patch does not apply: $patch"; exit 3; fi
for p in "$@"; do
  out=$(/verif/check "$p" "$tier" 2>/tmp/try_patch.err); rc=$?
  nv=$(echo "$out" | grep -c '^VIOLATION')
  echo "$p rc=$rc violations=$nv $(echo "$out" | grep -v '^VIOLATION' | head -3 | tr '\n' ' ')"
  if [ "$rc" = "1" ]; then grep -E '^\s+\[' /tmp/try_patch.err | head -${SHOW:-2} | cut -c1-${WIDTH:-400}; fi
  if [ "$rc" = "2" ]; then tail -5 /tmp/try_patch.err; fi
done
