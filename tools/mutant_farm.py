#!/usr/bin/env python3
"""Development helper (NOT used by any registered check): runs vcheck against seeded
changes in throw-away copies of /repo + harness under /tmp/mut, so that /repo itself
stays untouched while checks are being developed.  The official protocol (apply to
/repo, run ./check, restore) is tools/try_patch.sh.

usage: mutant_farm.py [--tier quick] [--props C01,C02 | --own] <seed-id>...
"""
import json, os, shutil, subprocess, sys
ROOT = "/verif"
FARM = os.environ.get("FARM", "/tmp/mut")

def sh(cmd, **kw):
    return subprocess.run(cmd, stdout=subprocess.PIPE, stderr=subprocess.STDOUT, text=True, **kw)

def main():
    args = sys.argv[1:]
    tier, props, own = "quick", None, False
    ids = []
    i = 0
    while i < len(args):
        if args[i] == "--tier": tier = args[i+1]; i += 2
        elif args[i] == "--props": props = args[i+1].split(","); i += 2
        elif args[i] == "--own": own = True; i += 1
        else: ids.append(args[i]); i += 1
    os.makedirs(FARM, exist_ok=True)
    known = [e["id"] for e in json.load(open(os.path.join(ROOT, "known_findings.json")))["known_findings"] if e.get("status") == "open"]
    for sid in ids:
        d = os.path.join(FARM, sid)
        shutil.rmtree(d, ignore_errors=True)
        os.makedirs(d)
        os.makedirs(d + "/repo"); subprocess.run("git -C /repo archive HEAD | tar -x -C %s/repo" % d, shell=True, check=True)  # HEAD, not the working tree: the official protocol may be patching /repo right now
        r = sh(["patch", "-p1", "-s", "-i", os.path.join(ROOT, "seeded", sid, "patch.diff")], cwd=d + "/repo")
        if r.returncode != 0:
            print("%s: patch failed: %s" % (sid, r.stdout[-300:])); continue
        sh(["rsync", "-a", "--exclude", "target*", os.environ.get("HARNESS_SRC", ROOT + "/harness") + "/", d + "/harness/"])
        ct = open(d + "/harness/Cargo.toml").read().replace('path = "/repo"', 'path = "%s/repo"' % d)
        open(d + "/harness/Cargo.toml", "w").write(ct)
        env = dict(os.environ, RUSTFLAGS="--cfg similar_verif", CARGO_NET_OFFLINE="true", CARGO_TARGET_DIR=FARM + "/target")
        b = sh(["cargo", "build", "--offline", "--profile", "checked"], cwd=d + "/harness", env=env)
        if b.returncode != 0:
            print("%s: BUILD FAILED\n%s" % (sid, b.stdout[-1500:])); continue
        plist = props
        if own or not plist:
            plist = [sid.split("-")[0]] if sid[0] == "C" else (props or [])
        for p in plist:
            out = d + "/report-%s.json" % p
            cmd = [FARM + "/target/checked/vcheck", p, "--tier", tier, "--profile", "checked", "--out", out]
            for k in known: cmd += ["--known", k]
            r = sh(cmd)
            try:
                rep = json.load(open(out))
                kinds = rep.get("violation_kinds", {})
                first = rep["violations"][0]["detail"][:260] if rep.get("violations") else ""
                print("%-10s %s rc=%d violations=%d kinds=%s %s" % (sid, p, r.returncode, rep["violation_count"], json.dumps(kinds)[:200], ("| " + first) if first else ""), flush=True)
            except Exception as e:
                print("%-10s %s rc=%d NO REPORT (%s) %s" % (sid, p, r.returncode, e, r.stdout[-300:]), flush=True)
        shutil.rmtree(d, ignore_errors=True)

main()
