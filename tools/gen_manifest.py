#!/usr/bin/env python3
"""Regenerates /verif/MANIFEST.json from lib/stages.py (single source of truth)."""
import json, os, subprocess, sys
ROOT = os.path.dirname(os.path.dirname(os.path.abspath(__file__)))
sys.path.insert(0, os.path.join(ROOT, "lib"))
from stages import PROPERTIES  # noqa

all_ids = [json.loads(l)["id"] for l in open(os.path.join(ROOT, "properties.jsonl"))]
hook_commits = subprocess.run(["git", "-C", "/repo", "log", "--format=%h %s", "--grep=^verif hooks"], stdout=subprocess.PIPE, text=True).stdout.strip().splitlines()
checks = []
for pid in all_ids:
    if pid not in PROPERTIES:
        continue
    m = PROPERTIES[pid]
    checks.append({
        "property_id": pid,
        "quick_cmd": "./check %s quick" % pid,
        "thorough_cmd": "./check %s thorough" % pid,
        "evidence_file": "/verif/evidence/%s.json" % pid,
        "replay_cmd_template": "./check %s --replay {path}" % pid,
        "engine": "vcheck",
        "level_claimed": {"category": m["category"], "text": m["level_text"], "design_ref": m.get("design_ref", "DESIGN.md §6 " + pid)},
        "level_note": m["level_note"],
        "technique": m["technique"],
    })
manifest = {
    "version": 1,
    "setup_cmd": "./check setup",
    "hooks": {
        "guard": "rustc cfg `similar_verif` (--cfg similar_verif)",
        "enable": "the driver ./check builds /verif/harness (path dependency on /repo) with RUSTFLAGS='--cfg similar_verif' (also set in harness/.cargo/config.toml); /repo built on its own never sees the cfg",
        "baseline_off_cmd": "cd /repo && cargo test --workspace --no-fail-fast --offline",
        "source_commits": [c.split()[0] for c in reversed(hook_commits)],
        "add_only": True,
    },
    "engines": [{
        "name": "vcheck",
        "path": "/verif/harness",
        "serves_properties": [c["property_id"] for c in checks],
        "kind_free_text": "Rust harness linked against /repo's working tree: workload generators (bounded-exhaustive + seeded random + fault enumeration), online DiffHook trace monitor, offline op-list / text / patch checkers, small reference models; driven by the python script ./check which builds, runs stages (checked profile, release profile, Miri, coverage), merges reports into evidence and applies the known-findings file",
    }],
    "checks": checks,
    "notes": "All verdicts are three-valued: exit 0 held on everything explored, exit 1 + VIOLATION line, exit 2 INCONCLUSIVE (build failure / watchdog / nothing observed). VERIF_SEED seeds every sampled family; bounded-exhaustive families are seed independent. Known findings: /verif/known_findings.json (never written at run time).",
    "not_applicable": [{"property_id": pid, "reason": "check not built yet in this revision (work in progress; planned in DESIGN.md §6)"} for pid in all_ids if pid not in PROPERTIES],
}
with open(os.path.join(ROOT, "MANIFEST.json"), "w") as fh:
    json.dump(manifest, fh, indent=1, ensure_ascii=False)
    fh.write("\n")
print("MANIFEST.json: %d checks, %d not_applicable" % (len(checks), len(manifest["not_applicable"])))
