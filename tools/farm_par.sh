#!/bin/bash
# development helper: tools/farm_par.sh <lanes> <seed-id>...   runs mutant_farm.py --own in parallel lanes from a
# SNAPSHOT of the harness (so the harness can be edited meanwhile); prints one line per seed
lanes=$1; shift
snap=/tmp/harness-snap-$$; rm -rf $snap; rsync -a --exclude 'target*' /verif/harness/ $snap/
i=0; for id in "$@"; do echo $id >> /tmp/farm_par_$$.$((i % lanes)); i=$((i+1)); done
for l in $(seq 0 $((lanes-1))); do
  [ -f /tmp/farm_par_$$.$l ] || continue
  (HARNESS_SRC=$snap FARM=/tmp/mut$l python3 /verif/tools/mutant_farm.py --own $(cat /tmp/farm_par_$$.$l | tr '\n' ' ') 2>&1 | grep -E "^(C[0-9]|revert)" | cut -c1-${FARM_WIDTH:-330}) &
done
wait
rm -rf $snap /tmp/farm_par_$$.*
