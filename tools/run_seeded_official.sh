#!/bin/bash
# Runs every seeded change through the official protocol: git -C /repo apply <patch>; ./check <own property> quick;
# git -C /repo checkout -- .   Output: seeded/<id>/official.txt and a summary on stdout.
cd /verif
declare -A OWN=( [revert-D9]=C14 [revert-D10]=C02 [revert-D11]=C16 [revert-D1]=C01 [revert-D2]=C03 [revert-D3]=C09 [revert-D4]=C07 [revert-D6]=C05 [revert-D7]=C06 [revert-D8]=C12 )
for d in seeded/*/; do
  id=$(basename $d)
  [ -f $d/patch.diff ] || continue
  if [ -n "$1" ] && [[ ! " $* " =~ " $id " ]]; then continue; fi
  p=${OWN[$id]:-${id%%-*}}
  extra=""
  [ -f $d/also.txt ] && extra=$(cat $d/also.txt)
  res=$(SHOW=1 WIDTH=600 tools/try_patch.sh $d/patch.diff quick $p $extra 2>&1)
  echo "$res" > $d/official.txt
  echo "== $id: $(echo "$res" | grep -E '^C[0-9]+ rc=' | tr '\n' ';' | cut -c1-200)"
done
git -C /repo status --short
