#!/bin/bash
# dev aid: merged line coverage of /repo/src over the quick workloads of ALL properties (scale 25);
# prints the uncovered non-test lines.  Output: /tmp/cov_all/uncovered.txt
set -u
SYS=$(rustc +nightly --print sysroot); BIN=$SYS/lib/rustlib/x86_64-unknown-linux-gnu/bin
OUT=/tmp/cov_all; rm -rf $OUT; mkdir -p $OUT
cd /verif/harness
RUSTFLAGS="--cfg similar_verif -Cinstrument-coverage" CARGO_NET_OFFLINE=true cargo +nightly build --offline --profile checked --target-dir target-cov 2>&1 | tail -2
B=/verif/harness/target-cov/checked/vcheck
for p in C01 C02 C03 C04 C05 C06 C07 C08 C09 C10 C11 C12 C13 C14 C15 C16 C17 C18 C19 C20; do
  LLVM_PROFILE_FILE=$OUT/$p-%p.profraw $B $p --tier quick --seed 1 --threads ${THREADS:-8} --profile coverage --scale ${SCALE:-25} --out $OUT/$p.json >/dev/null 2>&1
  echo "$p rc=$?"
done
$BIN/llvm-profdata merge -sparse $OUT/*.profraw -o $OUT/all.profdata
$BIN/llvm-cov show -instr-profile $OUT/all.profdata $B --sources /repo/src --show-line-counts-or-regions=false 2>/dev/null > $OUT/show.txt
$BIN/llvm-cov report -instr-profile $OUT/all.profdata $B --sources /repo/src 2>/dev/null | cut -c1-30,100-200 > $OUT/report.txt
rm -f $OUT/*.profraw
