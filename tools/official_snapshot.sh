#!/bin/bash
# usage: tools/official_snapshot.sh <seed-id>...
# The official protocol (git -C /repo apply <patch>; ./check <P> quick; git -C /repo checkout -- .) run from a
# git worktree of /verif's HEAD under /tmp/verif-snap, i.e. with the checks AS COMMITTED, so that the harness
# sources in /verif can be edited meanwhile.  Writes seeded/<id>/official.txt in /verif.
SNAP=/tmp/verif-snap
if [ "$(git -C $SNAP rev-parse HEAD 2>/dev/null)" != "$(git -C /verif rev-parse HEAD)" ]; then
  git -C /verif worktree remove --force $SNAP 2>/dev/null; rm -rf $SNAP; git -C /verif worktree prune
  git -C /verif worktree add -q --detach $SNAP HEAD || exit 3
fi
declare -A OWN=( [revert-D9]=C14 [revert-D10]=C02 [revert-D11]=C16 [revert-D1]=C01 [revert-D2]=C03 [revert-D3]=C09 [revert-D4]=C07 [revert-D6]=C05 [revert-D7]=C06 [revert-D8]=C12 )
for id in "$@"; do
  d=/verif/seeded/$id
  p=${OWN[$id]:-${id%%-*}}
  extra=""; [ -f $d/also.txt ] && extra=$(cat $d/also.txt)
  if ! git -C /repo diff --quiet; then echo "refusing: /repo working tree is dirty"; exit 3; fi
  git -C /repo apply $d/patch.diff || { echo "$id: patch does not apply"; continue; }
  res=""
  for q in $p $extra; do
    out=$($SNAP/check "$q" quick 2>/tmp/official_snapshot.err); rc=$?
    nv=$(echo "$out" | grep -c '^VIOLATION')
    res="$res$q rc=$rc violations=$nv $(echo "$out" | grep -v '^VIOLATION' | head -3 | tr '\n' ' ')"$'\n'
    if [ "$rc" = "1" ]; then res="$res$(grep -E '^\s+\[' /tmp/official_snapshot.err | head -1 | cut -c1-600)"$'\n'; fi
    if [ "$rc" = "2" ]; then res="$res$(tail -5 /tmp/official_snapshot.err)"$'\n'; fi
  done
  git -C /repo checkout -- .
  echo "$res" > $d/official.txt
  echo "== $id: $(echo "$res" | grep -E '^C[0-9]+ rc=' | tr '\n' ';' | cut -c1-200)"
done
git -C /repo status --short
