#!/usr/bin/env python3
"""Development helper (NOT used by any registered check): a small MECHANICAL mutation campaign.

Takes a frozen copy of /repo (REPO_SRC) and of the harness (HARNESS_SRC), applies one syntactic
mutation per trial to a non-test line of src/, keeps the mutants that still compile AND pass the
crate's own test suite, and runs against each survivor the vcheck workloads of the properties that
are anchored in the mutated file.  Prints one line per trial and a summary; survivors of the checks
are the interesting ones (equivalent mutant, or a gap).

usage: auto_mutants.py --lane N --lanes K --count M [--seed S] [--files a.rs,b.rs]
"""
import os, re, random, shutil, subprocess, sys, json, time

REPO_SRC = os.environ.get("REPO_SRC", "/tmp/dev/repo")
HARNESS_SRC = os.environ.get("HARNESS_SRC", "/tmp/dev/harness")
WORK = os.environ.get("AM_WORK", "/tmp/am")
sys.path.insert(0, "/verif/lib")
import stages

OPS = [
    (r"(?<![<>=!-])<(?![<=])", "<="), (r"<=", "<"), (r"(?<![<>=!-])>(?![>=])", ">="), (r">=", ">"),
    (r"==", "!="), (r"!=", "=="), (r"&&", "||"), (r"\|\|", "&&"),
    (r" \+ 1\b", ""), (r" - 1\b", ""), (r" \+ 1\b", " + 2"), (r" - 1\b", " + 1"),
    (r" \+ ", " - "), (r" - ", " + "),
    (r"\.min\(", ".max("), (r"\.max\(", ".min("),
    (r"\btrue\b", "false"), (r"\bfalse\b", "true"),
    (r"\bold_index\b", "new_index"), (r"\bnew_index\b", "old_index"),
    (r"\bold_range\b", "new_range"), (r"\bnew_range\b", "old_range"),
    (r"\bold_len\b", "new_len"), (r"\bnew_len\b", "old_len"),
    (r"\.start\b", ".end"), (r"\.end\b", ".start"),
    (r"\bsaturating_", "wrapping_"), (r"\.is_empty\(\)", ".is_empty() == false"),
    (r"\b0\b", "1"), (r"\b1\b", "0"), (r"\b2\b", "3"),
    ("STATEMENT", None),   # delete a whole simple statement line
]

class R:
    def __init__(self, rc, out):
        self.returncode, self.stdout = rc, out

def sh(cmd, timeout=None, **kw):
    """runs in its own process group; on timeout the whole group is killed (orphaned test binaries would keep spinning)"""
    import signal
    p = subprocess.Popen(cmd, stdout=subprocess.PIPE, stderr=subprocess.STDOUT, text=True, start_new_session=True, **kw)
    try:
        out, _ = p.communicate(timeout=timeout)
        return R(p.returncode, out)
    except subprocess.TimeoutExpired:
        try:
            os.killpg(p.pid, signal.SIGKILL)
        except ProcessLookupError:
            pass
        p.communicate()
        return R(-9, "TIMEOUT")

def candidate_lines(path):
    """(line number, text) of non-test, non-comment code lines"""
    out = []
    in_test = False
    depth_at_test = None
    lines = open(path).read().split("\n")
    skip_rest = False
    for i, l in enumerate(lines):
        s = l.strip()
        if s.startswith("#[test]") or s.startswith("#[cfg(test)]") or re.match(r"mod tests?\b", s):
            skip_rest = True     # tests live at the end of the files of this crate
        if skip_rest:
            continue
        if not s or s.startswith("//") or s.startswith("#[") or s.startswith("///") or s.startswith("use ") or "similar_verif" in l or "verif_hooks" in l:
            continue
        if s.startswith("pub fn") or s.startswith("fn ") or s.startswith("impl") or s.startswith("pub struct") or s.startswith("struct "):
            continue
        out.append((i, l))
    return out, lines

def props_for(relpath):
    ps = [p for p, m in stages.PROPERTIES.items() if ("src/" + relpath) in m.get("anchor_files", [])]
    return sorted(set(ps)) or ["C01", "C02"]

def main():
    a = sys.argv[1:]
    lane = int(a[a.index("--lane") + 1]); lanes = int(a[a.index("--lanes") + 1]); count = int(a[a.index("--count") + 1])
    seed = int(a[a.index("--seed") + 1]) if "--seed" in a else 1
    only = a[a.index("--files") + 1].split(",") if "--files" in a else None
    rng = random.Random(seed)
    files = []
    for root, _, fs in os.walk(os.path.join(REPO_SRC, "src")):
        for f in fs:
            rel = os.path.relpath(os.path.join(root, f), os.path.join(REPO_SRC, "src"))
            if f.endswith(".rs") and f != "verif_hooks.rs" and "snapshots" not in root and (only is None or rel in only):
                files.append(rel)
    files.sort()
    sites = []
    for rel in files:
        cands, _ = candidate_lines(os.path.join(REPO_SRC, "src", rel))
        for (ln, text) in cands:
            for k, (pat, rep) in enumerate(OPS):
                if pat == "STATEMENT":
                    if text.strip().endswith(";") and not text.strip().startswith("let ") and "return" not in text and text.count("(") == text.count(")"):
                        sites.append((rel, ln, k, 0))
                    continue
                for j, _ in enumerate(re.finditer(pat, text)):
                    sites.append((rel, ln, k, j))
    rng.shuffle(sites)
    mine = sites[lane::lanes][:count]
    d = os.path.join(WORK, "lane%d" % lane)
    os.makedirs(d, exist_ok=True)
    env = dict(os.environ, CARGO_NET_OFFLINE="true")
    results = []
    for n, (rel, ln, k, j) in enumerate(mine):
        shutil.rmtree(d + "/repo", ignore_errors=True)
        sh(["rsync", "-a", "--exclude", "target", REPO_SRC + "/", d + "/repo/"])
        path = os.path.join(d, "repo", "src", rel)
        lines = open(path).read().split("\n")
        pat, rep = OPS[k]
        old = lines[ln]
        if pat == "STATEMENT":
            new = ""
        else:
            ms = list(re.finditer(pat, old))
            if j >= len(ms):
                continue
            m = ms[j]
            new = old[:m.start()] + rep + old[m.end():]
        if new == old:
            continue
        lines[ln] = new
        open(path, "w").write("\n".join(lines))
        tag = "%s:%d %r -> %r" % (rel, ln + 1, old.strip()[:70], new.strip()[:70])
        t = sh(["cargo", "test", "--workspace", "--no-fail-fast", "--offline", "-q"], cwd=d + "/repo", env=dict(env, CARGO_TARGET_DIR=d + "/target-test"), timeout=300)
        if t.returncode != 0:
            kind = "suite-hang" if t.stdout == "TIMEOUT" else ("suite-compile" if "error[" in t.stdout or ("error:" in t.stdout and "test result" not in t.stdout) else "suite-fail")
            print("[%d] %-13s %s" % (n, kind, tag), flush=True)
            results.append((kind, tag)); continue
        shutil.rmtree(d + "/harness", ignore_errors=True)
        sh(["rsync", "-a", "--exclude", "target*", HARNESS_SRC + "/", d + "/harness/"])
        ct = open(d + "/harness/Cargo.toml").read()
        ct = re.sub(r'similar = \{ path = "[^"]+"', 'similar = { path = "%s/repo"' % d, ct)
        open(d + "/harness/Cargo.toml", "w").write(ct)
        b = sh(["cargo", "build", "--offline", "--profile", "checked"], cwd=d + "/harness", env=dict(env, RUSTFLAGS="--cfg similar_verif", CARGO_TARGET_DIR=d + "/target-h"), timeout=1200)
        if b.returncode != 0:
            print("[%d] %-13s %s" % (n, "harness-build", tag), flush=True)
            results.append(("harness-build", tag)); continue
        killed_by = None
        for p in props_for(rel):
            out = d + "/rep.json"
            try:
                if os.path.exists(out):
                    os.remove(out)
                r = sh([d + "/target-h/checked/vcheck", p, "--tier", "quick", "--profile", "checked", "--out", out, "--known", "KF1", "--hang-seconds", "120", "--budget", "200"], timeout=900)
                if r.stdout == "TIMEOUT" or not os.path.exists(out):
                    killed_by = (p, ["process died / timed out (rc %s)" % r.returncode])
                    break
                rep = json.load(open(out))
                if rep.get("violation_count", 0) > 0:
                    killed_by = (p, list(rep.get("violation_kinds", {}).keys())[:2])
                    break
            except Exception as e:
                killed_by = (p, ["crash/timeout %s" % type(e).__name__])
                break
        if killed_by:
            print("[%d] %-13s %s  by %s %s" % (n, "killed", tag, killed_by[0], killed_by[1]), flush=True)
            results.append(("killed", tag))
        else:
            print("[%d] %-13s %s  (checked: %s)" % (n, "SURVIVED", tag, ",".join(props_for(rel))), flush=True)
            results.append(("SURVIVED", tag))
    from collections import Counter
    print("summary lane %d: %s" % (lane, dict(Counter(k for k, _ in results))), flush=True)

main()
