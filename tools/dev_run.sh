#!/bin/bash
# dev aid: tools/dev_run.sh <PROP> [vcheck args...]  builds the CURRENT harness sources against an export of /repo's HEAD
# (not its working tree, which the official seeded protocol may be patching right now) under /tmp/devrun and runs vcheck
P=$1; shift
D=/tmp/devrun; mkdir -p $D/repo
if [ "$(cat $D/.head 2>/dev/null)" != "$(git -C /repo rev-parse HEAD)" ]; then rm -rf $D/repo; mkdir -p $D/repo; git -C /repo archive HEAD | tar -x -C $D/repo; git -C /repo rev-parse HEAD > $D/.head; fi
rsync -a --delete --exclude 'target*' /verif/harness/ $D/harness/
sed -i "s|path = \"/repo\"|path = \"$D/repo\"|" $D/harness/Cargo.toml
(cd $D/harness && RUSTFLAGS="--cfg similar_verif" CARGO_NET_OFFLINE=true CARGO_TARGET_DIR=$D/target cargo build --offline --profile checked 2>&1 | grep -E "^(error|warning: unused)" -A12 | head -60)
known=$(python3 -c "import json;print(' '.join('--known '+e['id'] for e in json.load(open('/verif/known_findings.json'))['known_findings'] if e.get('status')=='open'))")
$D/target/checked/vcheck $P --tier quick --profile checked --out $D/report-$P.json $known "$@" > $D/out-$P.txt 2>&1; rc=$?
python3 - <<PY
import json
r=json.load(open("$D/report-$P.json"))
print("$P rc=$rc evals=%d violations=%d kinds=%s" % (r["evaluations"], r["violation_count"], json.dumps(r.get("violation_kinds",{}))[:300]))
for f in r["families"]: print("   %-28s cases=%-8d wall=%.1fs" % (f["family"], f["cases_done"], f["wall_s"]))
for v in r.get("violations",[])[:3]: print("   !!", v["monitor"], v["detail"][:500])
PY
