#!/bin/bash
# usage: tools/confirm_seed.sh <seed-id>     (e.g. C07-A)
# Confirms independently, in a scratch worktree of /repo HEAD outside /repo and /verif, that the seeded
# change (a) applies, (b) keeps the unedited test suite green, (c) makes its demonstration fail,
# while (d) the demonstration passes without the change.  Writes seeded/<id>/confirm.txt.
id="$1"; dir=/verif/seeded/$id; wt=/tmp/confirm-$id
rm -rf $wt; git -C /repo worktree prune; git -C /repo worktree add -q --detach $wt HEAD || exit 3
res="$dir/confirm.txt"; : > $res
cd $wt
feat="${FEAT:-text,inline,unicode,bytes}"; nd="${NODEFAULT:+--no-default-features}"   # FEAT=text NODEFAULT=1 for demos that need a reduced feature set
mkdir -p tests; cp $dir/demo.rs tests/demo.rs
if cargo test --offline $nd --features $feat --test demo >/tmp/confirm-$id.log 2>&1; then echo "demo_without_patch=pass" >> $res; else echo "demo_without_patch=FAIL" >> $res; fi
rm -rf tests/demo.rs
if git apply $dir/patch.diff; then echo "applies=yes" >> $res; else echo "applies=NO" >> $res; fi
if cargo test --workspace --no-fail-fast --offline >/tmp/confirm-$id.log 2>&1; then echo "suite_with_patch=pass ($(grep -c '\.\.\. ok' /tmp/confirm-$id.log) ok)" >> $res; else echo "suite_with_patch=FAIL" >> $res; fi
cp $dir/demo.rs tests/demo.rs
if cargo test --offline $nd --features $feat --test demo >/tmp/confirm-$id.log 2>&1; then echo "demo_with_patch=PASS(unexpected)" >> $res; else echo "demo_with_patch=fail (as required): $(grep -E 'test result|panicked' /tmp/confirm-$id.log | head -2 | tr '\n' ' ' | cut -c1-300)" >> $res; fi
cd /; git -C /repo worktree remove --force $wt; rm -f /tmp/confirm-$id.log
echo "$id: $(tr '\n' ';' < $res | cut -c1-400)"
