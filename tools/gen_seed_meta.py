#!/usr/bin/env python3
"""Writes seeded/<id>/meta.json from the table below + confirm.txt + official.txt + matrix.tsv."""
import json, os, re
ROOT = os.path.dirname(os.path.dirname(os.path.abspath(__file__)))

NEEDS = {
 "C01-A": ("C01", "myers.rs conquer(): early exit once the deadline has passed emits delete+insert for the whole box without the empty-range guards -> zero-length callbacks", "a deadline that expires part-way (or before the start) AND a later recursive box (or a Patience gap/tail diff) with an empty side"),
 "C01-B": ("C01", "lcs.rs: trailing common-suffix equal uses range lengths instead of start+len+prefix", "Algorithm::Lcs, a non-zero range start (sub-range or IdentifyDistinct offset lookups), a non-empty common suffix, non-identical ranges"),
 "C02-A": ("C02", "compact.rs shift_diff_ops_up (Insert arm): the Equal re-created behind an up-shifted Insert takes old_index from this_op (stale after the index-less swap) instead of prev_op", "two cooperating sites: emission order Equal, Delete, Insert where the inserted items end like the preceding Equal (e.g. [1,0,0,1,0] -> [0,0,1,1]); < 1% of random few-edit inputs"),
 "C02-B": ("C02", "lcs.rs: tail flushes become `if old left {delete} else if new left {insert}`", "Algorithm::Lcs + a deadline that expires during table construction + a middle part non-empty on both sides"),
 "C03-A": ("C03", "myers.rs find_middle_snake: forward-snake guard compares y with n instead of m", "a (sub-)box whose new side is about twice as long as its old side with the match deep in the new side ([2] vs [1,2,3,4,5])"),
 "C03-B": ("C03", "lcs.rs: new-side window of make_table starts at old_range.start + prefix", "Algorithm::Lcs on sub-ranges with old_range.start != new_range.start"),
 "C04-A": ("C04", "abstraction.rs: [u8] unicode-word / grapheme tokenizers go back to words_with_breaks()/graphemes() (re-introduces D7)", "[u8] input containing invalid UTF-8 with the unicode-words or grapheme tokenizer"),
 "C04-B": ("C04", "myers.rs conquer(): deadline fallback inserts old_range.len() new items", "a deadline expiring during the Myers search (Myers or Patience) and an unresolved middle region with unequal old/new token counts"),
 "C05-A": ("C05", "udiff.rs UnifiedDiffHunk::to_writer: w.write(..) instead of w.write_all(..)", "a sink that legally short-writes (Vec/File/Display never show it)"),
 "C05-B": ("C05", "abstraction.rs [u8]::ends_with_newline forgets a lone CR", "[u8] input with CR-only line endings"),
 "C06-A": ("C06", "abstraction.rs str::tokenize_words: ASCII fast path uses is_ascii_whitespace", "a vertical tab U+000B in str input"),
 "C06-B": ("C06", "abstraction.rs [u8]::tokenize_chars: end = start + c.len_utf8()", "[u8] input with invalid UTF-8 (U+FFFD has len_utf8 3, the invalid span 1-2 bytes)"),
 "C07-A": ("C07", "patience.rs Patience::equal: gap diffs call myers::diff (no deadline)", "Patience + expiring deadline + a large dissimilar gap in front of a unique common item; only the promptness clause breaks"),
 "C07-B": ("C07", "text/mod.rs: timeout(d) converted to an Instant when the builder is configured, not when the diff starts", "sequence: configure, time passes, then diff; invisible to a virtual clock (needs the Instant that reaches the check)"),
 "C08-A": ("C08", "hook.rs default DiffHook::replace: self.delete(..).and(self.insert(..)) evaluates insert eagerly", "a replace-emitting stack + a hook that does not override replace + the failure injected on the delete half of a replace"),
 "C08-B": ("C08", "hook.rs: NoFinishHook no longer forwards replace", "replace called on the wrapper with an inner hook that overrides replace: stack Replace<NoFinishHook<H>> or hand-driven"),
 "C09-A": ("C09", "compact.rs shift_diff_ops_down (Insert/Equal arm): extra `if prefix_len < insert len { break }`", "an insert of >= 2 items that exhausts a shorter Equal fragment (13 hits in 900k random diffs below length 40)"),
 "C09-B": ("C09", "compact.rs shift_diff_ops_down: no Equal is created when the insert is op #0", "everything before the insertion is a repetition of the inserted block (a a -> a a a)"),
 "C10-A": ("C10", "compact.rs shift_diff_ops_up: re-created Equal takes new_index from prev_op", "Insert last or followed by a Delete, slides over the whole preceding Equal run and merges into an earlier Insert"),
 "C10-B": ("C10", "compact.rs shift_diff_ops_up: `let this_op = ops[pointer]` hoisted out of the loop (stale copy)", "two effective steps in one call (slide over an Equal, hop a Delete, slide over a second Equal); 0.17% of tiny-alphabet runs"),
 "C11-A": ("C11", "compact.rs shift_diff_ops_down: fresh Equal takes new_index from this_op.new_range().end - prefix_len", "an insert block of >= 2 items at the very top of the range whose first down-step is shorter than the block (306 of 132 496 small pairs)"),
 "C11-B": ("C11", "lcs.rs: 'old fully covered by the common prefix' shortcut emits Insert with old_index = old_range.len()", "Algorithm::Lcs + old sub-range starting above 0 + pure-append shape"),
 "C12-A": ("C12", "common.rs group_diff_ops: first/last trims merged into `if let [first, .., last]` (never matches a single-op list)", "identical inputs with more than 2n items (a lone Equal op)"),
 "C12-B": ("C12", "common.rs leading-context trim assigns the old-based start to both indices", "op list starting with an Equal run longer than n whose old_index and new_index differ (sub-range diffs with different starts)"),
 "C13-A": ("C13", "hook.rs: impl DiffHook for &mut D no longer forwards replace", "a Replace op re-applied to a capture held by &mut"),
 "C13-B": ("C13", "types.rs DiffOp::iter_slices: Equal arm yields the new slice", "equal items that are distinguishable (hand-built ops over arbitrary sequences)"),
 "C14-A": ("C14", "text/mod.rs: newline_terminated stored as plain bool, combined with ||", "tokenizer = lines with override Some(false)"),
 "C14-B": ("C14", "utils.rs IdentifyDistinct::new: new-side pass uses map.get instead of entry/insert", "a repeated item that exists only on the new side; at text level only > 100 tokens with Patience"),
 "C15-A": ("C15", "patience.rs: common prefix reported as Equal, unique() only on the remainder", "non-empty common prefix with repeats split across its boundary plus a crossing unique item (r s A r s -> r s r s A)"),
 "C15-B": ("C15", "utils.rs unique(): repeated items removed from the map instead of tombstoned", "items repeated an odd number >= 3 of times on both sides plus a crossing unique item"),
 "C16-A": ("C16", "inline.rs push_values: splits only when the slice ends in a newline and cuts exactly one byte", "CRLF lines where the terminator takes part in the word-level change"),
 "C16-B": ("C16", "abstraction.rs [u8]::tokenize_lines_and_newlines: run end accumulated with len_utf8", "[u8] input with invalid UTF-8 inside an emphasised slice of a Replace op with word ratio >= 0.5"),
 "C17-A": ("C17", "text/mod.rs: identical-input fast path returns one Equal{0,0,len} (zero-length for two empty texts)", "both texts empty and a consumer that goes through the remapper"),
 "C17-B": ("C17", "abstraction.rs [u8]::tokenize_chars: end = start + c.len_utf8()", "bytes feature + invalid UTF-8 + char tokenizer"),
 "C18-A": ("C18", "text/utils.rs + mod.rs: pre-filter ratios computed in f64 and compared with f64::from(cutoff)", "cutoff hit exactly by a ratio whose f32 value rounds up, shorter string a subsequence of the longer"),
 "C18-B": ("C18", "text/mod.rs get_close_matches: bounded min-heap replaces the worst entry only if score > worst", "more than n qualifying candidates, a tie at the n-th place, the lexicographically smaller one later in the list"),
 "C19-A": ("C19", "utils.rs common_suffix_len: 'suffix starts behind the last differing pair' via (0..len).filter(..).last() scans the whole aligned tail on every call (same result, ~N*D^2/6 work)", "a few dozen edits or more, or unrelated inputs; only comparison counting shows it (diffs are unchanged)"),
 "C19-B": ("C19", "patience.rs: the diff of the two unique-item lists calls lcs::diff_deadline instead of myers::diff_deadline (quadratic table over the unique items)", "many unique items between the first and last changed unique line"),
 "C20-A": ("C20", "abstraction.rs [u8]::tokenize_words uses is_ascii_whitespace", "word diffs on byte input with non-ASCII or VT whitespace next to an edit"),
 "C20-B": ("C20", "utils.rs unique(): occurrence map keyed by the item's 64-bit hash", "Patience + an item type whose legal Hash implementation collides"),
 "C01-C": ("C01", "patience.rs Patience::equal: the new-side bound of the pre-anchor equal-run scan is dropped ('anchor uniqueness makes it redundant')", "Patience + DIFFERENT old/new item types whose cross comparison is coarser than each side's own Eq (case-insensitive / tolerance) + a repeated old item just before a unique anchor"),
 "C01-D": ("C01", "myers.rs find_middle_snake: xdiff-style cost cap — with a deadline present and d >= 256 the furthest forward point is returned as split without clamping it to the box", "a deadline is SET (need not expire) + one box needs more than ~512 edits + a long lopsided fully rewritten stretch (100 old vs 1000 new distinct items)"),
 "C02-C": ("C02", "text/mod.rs: the >100-token path uses IdentifyDistinct::<u16> when neither side exceeds u16::MAX tokens", "TextDiff with more than 65 536 DISTINCT tokens on both sides together while each side has <= 65 535 tokens (release: Equal ops pair unequal lines; debug: overflow panic)"),
 "C02-D": ("C02", "patience.rs Patience::equal: new-side bound of the scan loop dropped", "heterogeneous old/new item types with a coarser cross comparison + repeated old item before a unique anchor"),
 "C03-C": ("C03", "myers.rs find_middle_snake: snakes followed in 1024-item steps; the forward window mixes a box-relative with an absolute index", "a box of the old side that starts at an absolute index >= 1024 (common prefix of >= 1024 items or such a sub-range)"),
 "C03-D": ("C03", "text/mod.rs: inputs over 100 tokens always interned with IdentifyDistinct::<u16>", "TextDiff + more than 65 536 distinct tokens (release: under-reported edits, ratio 1.0; debug: overflow panic)"),
 "C04-C": ("C04", "myers.rs find_middle_snake: cost cap after 1024 rounds splits both ranges in half but uses n/2 for the new side too", "a sub-problem needing >= 1024 rounds (over ~2050 differing tokens) whose old side is more than twice its new side (2600-line block replaced by 100 lines)"),
 "C04-D": ("C04", "text/mod.rs: IdentifyDistinct::<u16> whenever each side has at most 65535 tokens", "> 65 536 distinct tokens overall with both sides <= 65 535 tokens"),
 "C05-C": ("C05", "text/mod.rs: lines interned with u16 ids when max(old.len, new.len) <= u16::MAX", "both texts together have >= 65 536 distinct lines while each has <= 65 535"),
 "C05-D": ("C05", "udiff.rs UnifiedDiff::to_writer: output batched in a Vec and flushed at 64 KiB without clearing the buffer", ">= 64 KiB of rendered output through to_writer (any sink)"),
 "C06-C": ("C06", "abstraction.rs str::tokenize_lines: fast path split_inclusive('\\n') when the first 8000 bytes contain no CR", "str input over 8000 bytes with no CR in the first 8000 and a lone CR later"),
 "C06-D": ("C06", "abstraction.rs [u8]::tokenize_words: lead-byte pre-filter in front of is_whitespace omits 0xE1", "U+1680 OGHAM SPACE MARK in byte input"),
 "C07-C": ("C07", "deadline_support.rs: thread-local cache of 'latest deadline known to have passed' with an inverted comparison", "REAL clock sequence on one thread: a diff that truly expires, then a diff with a later deadline (code sits behind the cfg(similar_verif) probe, never runs under a virtual clock)"),
 "C07-D": ("C07", "text/mod.rs: Deadline enum replaced by two fields; timeout() forgets to clear a previously set deadline", "deadline(x) then timeout(t) on the same builder"),
 "C08-C": ("C08", "myers.rs deadline-fallback branch: `if d.delete(..).is_ok() { d.insert(..)?; }` swallows a failing delete", "TWO fault dimensions: an expired deadline AND the injected hook failure landing exactly on the fallback delete"),
 "C08-D": ("C08", "lcs.rs: memory guard for old_len * new_len > 1<<24 returns Ok(()) without d.finish()", "LCS on more than about 4096 x 4096 differing items"),
 "C09-C": ("C09", "compact.rs: MAX_SLIDE = 1024 budget per shift call", "a run of more than 1024 identical items next to a pure insertion"),
 "C09-D": ("C09", "text/mod.rs: common prefix/suffix trimmed before the capture pipeline in the >100-token path (Compact sees only the middle)", "TextDiff + more than 100 tokens + a last change that is a slidable pure insertion"),
 "C10-C": ("C10", "compact.rs shift_diff_ops_down: one-step slide over the whole equal run comparing equal-run item k with inserted item k % ins_len (assumes transitivity)", "a NON-TRANSITIVE cross-type PartialEq (|a-b| <= tolerance) and an insert that can slide further than its own length"),
 "C10-D": ("C10", "compact.rs cleanup_diff_ops: `if ops.len() > 1 << 16 { return; }`", "scripts with more than 65 536 ops"),
 "C11-C": ("C11", "hook.rs: impl DiffHook for &mut D no longer forwards replace (default delete+insert carries the pre-delete old index)", "a capture stack built on a BORROWED hook: Compact::new(Replace::new(&mut capture), ..)"),
 "C11-D": ("C11", "utils.rs IdentifyDistinct::new: (old_start, new_start) = (old_range.start, old_range.start)", "IdentifyDistinct + sub-ranges with different start offsets on the two sides"),
 "C12-C": ("C12", "text/mod.rs TextDiff::grouped_ops: returns no groups when self.ratio() == 1.0", "about 2^23 tokens and a single insertion (the f32 ratio rounds to exactly 1.0)"),
 "C12-D": ("C12", "udiff.rs: lazily filled 'group once' cache in UnifiedDiff is not cleared by context_radius()", "two-call sequence on ONE formatter object: iterate/render, change the radius, iterate again"),
 "C13-C": ("C13", "iter.rs ChangesIter::nth fast path computes the Replace insert-skip from the total deletes", "a Replace op + an iterator already advanced by next() + nth/step_by crossing from deletes into inserts"),
 "C13-D": ("C13", "iter.rs AllChangesIter::nth counts a Replace op's changes as max(old_len, new_len)", "iter_all_changes()/hunk.iter_changes() with skip/nth/step_by over a Replace"),
 "C14-C": ("C14", "text/mod.rs: u16 ids when max(old.len, new.len) <= u16::MAX", "each side <= 65 535 tokens but more than 65 536 distinct tokens together"),
 "C14-D": ("C14", "text/mod.rs: Lcs silently replaced by Myers when old.len() * new.len() > 1 << 24", "algorithm Lcs + more than 4096 x 4096 tokens + an edit region Myers and LCS resolve differently (two adjacent lines swapped)"),
 "C15-C": ("C15", "utils.rs: UniqueItem caches a hash fingerprint and eq() compares it first", "different old/new item types whose Hash implementations differ for equal values"),
 "C15-D": ("C15", "myers.rs find_middle_snake stops after 4096 rounds and uses the deadline fallback", "a box with more than about 8192 one-sided unique items (no deadline set)"),
 "C16-C": ("C16", "inline.rs: the inline word diff runs on IdentifyDistinct::<u16> ids", "a Replace block with >= 65 536 distinct word tokens (debug/checked builds only: overflow panic)"),
 "C16-D": ("C16", "inline.rs MultiLookup::new: MAX_WORDS_PER_LINE = 1000 keeps the rest of a long line as one token without checking that anything is left", "both sides have a line with EXACTLY 1000 word tokens whose last real tokens differ"),
 "C17-C": ("C17", "text/mod.rs: u16 ids unless one side has more than 65535 tokens", "both sides <= 65 535 tokens and more than 65 536 distinct tokens in total"),
 "C17-D": ("C17", "utils.rs SliceRemapper::new: token offsets computed as token.as_ptr() - source.as_ptr()", "the remapper is given an equal COPY of the texts (or separately owned tokens)"),
 "C18-C": ("C18", "text/mod.rs get_close_matches: characters interned with IdentifyDistinct::<u16>", "word and candidate together have >= 65 536 distinct characters"),
 "C18-D": ("C18", "text/mod.rs get_close_matches: Vec::with_capacity(n)", "n = usize::MAX or 1 << 62 (capacity overflow panic)"),
 "C19-C": ("C19", "myers.rs find_middle_snake: forward snake extended in 1024-item steps but each step restarts at the snake start (L^2/2048 comparisons for a snake of length L; output unchanged)", "equal runs far beyond 1024 items between two edits: visible only at hundreds of thousands of items"),
 "C19-D": ("C19", "patience.rs: gaps between matched unique items are diffed recursively with Patience instead of Myers", "deeply nested uniqueness (u2 u3 u2 u4 u3 ...) behind a differing core"),
 "C20-C": ("C20", "abstraction.rs [u8]::tokenize_chars: a char decoded as U+FFFD is split into one token per byte (meant for invalid UTF-8)", "a literal, validly encoded U+FFFD in the text"),
 "C20-D": ("C20", "utils.rs unique(): MAX_UNIQUE_ITEMS = 2048 applied with .take() on the HashMap iterator BEFORE the sort", "Patience + more than 2048 once-occurring items on one side + moved blocks"),
 "C01-E": ("C01", "myers.rs find_middle_snake: the guard `x < old_range.len() && y < new_range.len()` before the snake extension removed as redundant (range.start + x overflows for out-of-box points)", "an Index implementation whose in-bounds range ends at or next to usize::MAX + a lopsided box"),
 "C01-F": ("C01", "replace.rs Replace::flush_eq: the pending equal run is cleared only after the inner hook accepted it", "three steps: the hook errs exactly on an equal, the caller keeps the same Replace object, then runs another diff (adapter re-use after a hook error)"),
 "C02-E": ("C02", "deadline_support.rs duration_to_deadline: Some(Instant::now() + add) instead of checked_add", "TextDiff::configure().timeout(Duration::MAX) (an overflowing timeout): every diff_* call panics where the unchanged code means 'no deadline'"),
 "C02-F": ("C02", "myers.rs conquer: when deadline_exceeded at entry the common prefix/suffix trimming is skipped and the Delete+Insert fallback runs", "IDENTICAL inputs with an already-expired deadline (Myers/Patience): a Replace instead of only Equal ops, ratio 0.0"),
 "C03-E": ("C03", "lcs.rs make_table: memory guard MAX_TABLE_CELLS = 1 << 28 returns None (the deadline fallback) without any deadline", "Algorithm::Lcs + a trimmed middle above 16384 x 16384 cells that still shares an item (only sparse inputs are feasible)"),
 "C03-F": ("C03", "hook.rs: the finish forwarder of `impl DiffHook for &mut D` removed (no-op default swallows the call)", "a buffering Replace/Compact passed BY REFERENCE as an inner stage: Compact::new(&mut replace, ..)"),
 "C04-E": ("C04", "text/mod.rs: 'buffer diffed against itself' fast path compares token start addresses only", "old and new are ALIASING views of one allocation whose last token differs in length (&buf[..len-1] vs &buf[..])"),
 "C04-F": ("C04", "text/mod.rs diff_lines: under newline_terminated(false) line tokens are trimmed of their terminator", "explicit newline_terminated(false) together with the lines tokenizer"),
 "C05-E": ("C05", "udiff.rs Display for UnifiedDiffHunk prints Change's own Display (terminator added by content, not by the diff's flag)", "a line diff built from pre-split line tokens (from_slices / diff_slices) whose items end in CR or LF, seen through Display only"),
 "C05-F": ("C05", "udiff.rs: MissingNewlineHint replaced by a constant with the flag moved into the `if` (drops the record terminator when the hint is off)", "missing_newline_hint(false) + old text lacking its final newline + that last line replaced"),
 "C06-E": ("C06", "abstraction.rs: word tokenizers use a hand-written White_Space table with a stale U+180E entry", "the single character U+180E MONGOLIAN VOWEL SEPARATOR"),
 "C06-F": ("C04", "text/mod.rs TextDiffConfig::diff_lines strips a leading UTF-8 BOM before tokenizing (the author filed it under C06; the tokenizers themselves are untouched: it breaks C04 / C14)", "input starting with U+FEFF through the TextDiff line constructor"),
 "C07-E": ("C07", "myers.rs find_middle_snake: cost cap d_max.min(1 << 12) when deadline.is_some()", "a deadline that is SET but never expires + edit distance above 8192 in a single box + comparison with the no-deadline result"),
 "C07-F": ("C07", "text/mod.rs: in the > 100-token branch the deadline is re-derived after hashing; the else arm for Deadline::Absolute yields None", "text builder + .deadline(instant) (not timeout) + more than 100 tokens"),
 "C08-E": ("C08", "algorithms/mod.rs: diff_slices delegates to diff_slices_deadline which calls an extra d.finish() for Lcs when a side is empty", "entry through the slice shortcuts + Lcs + an empty side"),
 "C08-F": ("C08", "compact.rs: Compact gets a replace override that flushes by calling self.finish()", "replace delivered INTO Compact: reversed stack Replace<Compact<H>> or a hand-driven Compact"),
 "C09-E": ("C09", "hook.rs: impl DiffHook for &mut D no longer forwards replace", "Compact::new(Replace::new(&mut capture), ..): the collecting hook held by &mut"),
 "C09-F": ("C09", "compact.rs + common.rs: Compact gets an optional deadline and skips cleanup_diff_ops when Instant::now() > deadline (reads the clock directly, bypassing deadline_exceeded)", "the real deadline expires after the algorithm's last check but before the clean-up (or: a virtual-clock run that hands over an already-past dummy Instant)"),
 "C10-E": ("C10", "hook.rs: impl DiffHook for &mut D no longer forwards replace", "the collecting hook (or the Replace) held by &mut and a delete next to an insert"),
 "C10-F": ("C10", "replace.rs finish: the pending equal run is emitted without take()", "ONE Replace object used for two scripts in a row, the first ending in an Equal"),
 "C11-E": ("C11", "replace.rs Replace::replace: pass-through replace() calls flush_del_ins() instead of flush_eq()", "replace() events arriving at a Replace hook: Replace(Replace(Capture)) or captured ops replayed via apply_to_hook into Replace(Capture)"),
 "C11-F": ("C11", "types.rs DiffOp::apply_to_hook refactored over as_tag_tuple(): the Replace arm passes old.len() as new_len", "a Replace op with different side lengths replayed through apply_to_hook"),
 "C12-E": ("C12", "text/mod.rs TextDiff::grouped_ops: 'same buffer means no changes' shortcut compares old.as_ptr() == new.as_ptr()", "from_slices / diff_slices over two sub-slices of ONE token buffer with a common start and different lengths"),
 "C12-F": ("C12", "udiff.rs free function unified_diff: context_radius(n) only applied inside `if let Some(header)`", "udiff::unified_diff with header None and n != 3"),
 "C13-E": ("C17", "utils.rs SliceRemapper::new: token byte ranges from pointer offsets (author filed it under C13; it is the remapper of C17)", "the remapper is given equal-content COPIES of the strings the diff tokenized"),
 "C13-F": ("C13", "iter.rs AllChangesIter::next re-uses the per-op iterator via a reset() that keeps the reported old_index/new_index counters", "public UnifiedDiffHunk::new with NON-CONTIGUOUS caller-chosen ops, then hunk.iter_changes()"),
 "C14-E": ("C14", "text/mod.rs: the > 100-token branch diffs 64-bit DefaultHasher hashes of the tokens instead of the tokens", "more than 100 tokens + a hash collision: a user-defined DiffableStr type with a legal but weak Hash (or a real SipHash collision)"),
 "C14-F": ("C14", "text/mod.rs: 'input only grew at one end' shortcut writes the ops down without running an algorithm (prepend case wrong when the first inserted token equals the first old token)", "more than 100 tokens + old an exact suffix (not prefix) of new + coinciding first tokens"),
 "C15-E": ("C15", "utils.rs UniqueItem::eq: identity shortcut — same lookup object => compare indexes", "old and new are the SAME object with different ranges (one shared buffer) + a unique item crossing a block of repeats"),
 "C15-F": ("C15", "utils.rs unique(): map value narrowed to u32 with u32::MAX as duplicate marker", "offset/window lookups whose index space reaches 2^32 - 1 (a unique item exactly at index 4294967295) or beyond"),
 "C16-E": ("C16", "inline.rs push_values: line breaks are un-emphasised only when diff.newline_terminated() is true", "TextDiff::configure().newline_terminated(false).diff_lines(..) + a word-level change that reaches a line end"),
 "C16-F": ("C16", "inline.rs MultiLookup::get_original_slices rewritten over first/last token + whole middle lines with a wrong middle index", "a single word-level op spanning three or more lines and starting after the first line of a Replace block of four or more lines (reflowed paragraphs)"),
 "C17-E": ("C17", "utils.rs diff_chars: 'same buffer' fast path returns a single Equal when both texts have the same data pointer", "old and new are aliasing views of one allocation with different lengths (s vs &s[..k])"),
 "C17-F": ("C17", "utils.rs SliceRemapper: offset table narrowed to Range<u32>", "texts of 4 GiB or more"),
 "C18-E": ("C18", "text/mod.rs get_close_matches: heap score ratio * (1 << 24) instead of ratio * u32::MAX", "combined lengths around 9000 characters + two different ratios below 0.5 less than 2^-24 apart + the less similar candidate sorting first alphabetically"),
 "C18-F": ("C18", "text/mod.rs get_close_matches: Algorithm::Patience when word and candidate are longer than 1000 characters", "both sides over 1000 characters + a doubly-unique character that moved (rotation / moved marker)"),
 "C19-E": ("C19", "utils.rs unique(): default SipHash replaced by a cheap multiplicative hasher whose low bits depend only on the low key bits", "integer items with >= 16 constant low bits (multiples of 2^16): N^2/256 comparisons regardless of D"),
 "C19-F": ("C19", "utils.rs unique(): hasher that only samples long items (length + first and last 32 bytes)", "distinct items of equal length > 64 bytes sharing head and tail (fixed-layout records)"),
 "C20-E": ("C20", "patience.rs: unique items failing a 4096-bit bloom filter (DefaultHasher) built from the other side's unique items are dropped", "Patience + at least 256 once-occurring items per side + moved blocks plus UNMATCHED unique items + comparison against a relabelled copy"),
 "C20-F": ("C20", "common.rs capture_diff_slices_deadline: returns one Equal when old.as_ptr() == new.as_ptr() (no length check)", "old and new are slices of one buffer with the same start and different lengths"),
 "revert-D1": ("C01", "reverse of fix 813e92c (lcs identical-ranges shortcut ignores range starts)", "Lcs on identical sub-ranges with non-zero starts"),
 "revert-D2": ("C03", "reverse of fix 5daca5f (lcs table built over the wrong items)", "Lcs with a common prefix or non-zero range starts"),
 "revert-D3": ("C09", "reverse of fix 63c9d1e (lcs zero-length delete for two empty ranges)", "Lcs on two empty ranges"),
 "revert-D4": ("C07", "reverse of fix 4b006b0 (lcs emits the remaining box twice at the deadline)", "Lcs + deadline expiring during table construction"),
 "revert-D6": ("C05", "reverse of fix 2a43633 (UnifiedDiff::to_writer goes through Display)", "[u8] line diff with invalid UTF-8 written with to_writer"),
 "revert-D7": ("C06", "reverse of fix 5745354 ([u8] unicode tokenizers return U+FFFD tokens)", "[u8] with invalid UTF-8, unicode words / graphemes"),
 "revert-D8": ("C12", "reverse of fix 6a43cf1 (n * 2 overflow in group_diff_ops)", "context radius > usize::MAX / 2"),
 "C01-G": ("C01", "patience.rs diff_deadline: 'sequence diffed against itself' shortcut when old and new have the same ADDRESS (both cast to *const u8) and equal ranges -> one equal for the whole range", "two DIFFERENT lookup types that are views of one object at one address (e.g. a repr(transparent) reversed view of a Vec against the Vec itself), equal ranges, Patience"),
 "C01-H": ("C01", "utils.rs common_prefix_len / common_suffix_len compare through `ptr::eq(item refs) || new == old`", "items that are not equal to themselves (f64 NaN; myers::diff / lcs::diff only need PartialEq) AND old and new indexing the same buffer at the same positions"),
 "C02-G": ("C02", "lcs.rs: the trailing common-suffix Equal computes its new index from old_range.end + new_len - old_len", "Algorithm::Lcs, sub-ranges with DIFFERENT start offsets, a non-empty common suffix"),
 "C02-H": ("C02", "utils.rs unique(): HashMap::with_capacity(range.end - range.start)", "Patience with a reversed (start > end) empty sub-range such as 5..3: subtraction overflow / capacity overflow panic, while Myers and LCS treat it as empty"),
 "C03-G": ("C03", "algorithms/mod.rs: diff_slices delegates to diff_slices_deadline, which gains a 'nothing in common' shortcut for N+M > 1024 when max(old) <= min(new) (should be <)", "the algorithms::diff_slices(_deadline) entry points, N+M > 1024, item VALUES with max(old) == min(new) (sorted log windows, constant runs)"),
 "C03-H": ("C03", "utils.rs: the one-call text helpers (diff_chars, diff_words, diff_lines, ...) build their TextDiff with a hidden .timeout(500 ms)", "only those helpers, and only when the diff takes longer than 500 ms of real time (or, under the virtual clock, at once): a deadline reaches Myers/LCS through an API that takes none"),
 "C04-G": ("C04", "text/mod.rs TextDiffConfig::diff (>100 tokens): common head/tail trimmed before interning; the suffix is measured against the untrimmed new side", "more than 100 tokens and the SOLE difference is removing one of two adjacent identical blocks (head and tail overlap on the new side)"),
 "C04-H": ("C04", "lcs.rs: 'OOM guard' for old_len * new_len > u32::MAX without deadline: prefix, myers::diff_deadline for the middle, suffix, then d.finish() a second time", "Algorithm::Lcs, no deadline, token counts whose product exceeds 2^32 (two 70 000-line texts): every op is emitted twice"),
 "C05-G": ("C05", "udiff.rs UnifiedDiffHunk::to_writer: tag + line coalesced into a 256-byte stack buffer guarded by `bytes.len() <= line.len()`", "a hunk line of exactly 256 bytes (terminator included) through to_writer: panic; 255 / 257 bytes and Display are fine"),
 "C06-G": ("C06", "abstraction.rs [u8]::tokenize_lines scans in 64 KiB blocks; the LF look-ahead after a CR looks at the block only", "byte input above 64 KiB with a CRLF whose CR is the last byte of a block (offset 65535, 131071, ...)"),
 "C06-H": ("C06", "abstraction.rs str::tokenize_lines uses a find_line_break helper whose fallback (build WITHOUT the `bytes` feature) gives up when no LF remains", "a build without the `bytes` feature, str input, a lone CR after the last LF"),
 "C07-G": ("C07", "myers.rs conquer: at the deadline the box is reported with ONE d.replace(..) instead of delete + insert", "expiry mid-run + a Replace adapter fed DIRECTLY by Myers / Patience (Replace::replace forwards without flushing buffered ops): out-of-order ops"),
 "C07-H": ("C07", "deadline_support.rs duration_to_deadline: Some(Instant::now() + add) instead of checked_add", "TextDiffConfig::timeout(Duration::MAX) / from_secs(u64::MAX): panics where the unchanged code means 'no deadline'"),
 "C08-G": ("C08", "compact.rs Compact::finish: early return for an empty op buffer forgets self.d.finish()", "a Compact stack and both diffed ranges empty (including empty sub-ranges): the user hook gets no finish"),
 "C08-H": ("C08", "replace.rs Replace::finish: the result of the final flush is held, self.d.finish()? runs unconditionally, the flush error is returned afterwards", "a hook error on the LAST buffered op behind Replace (also plain Patience, which wraps its hook in Replace): a further call follows the error"),
 "C09-G": ("C09", "text/mod.rs TextDiffConfig::diff (>100 tokens): IdentifyDistinct is fed token.as_bytes() instead of the tokens", "a user-defined DiffableStr whose Eq is coarser than byte equality (case-insensitive), more than 100 tokens, a slidable insertion"),
 "C09-H": ("C09", "common.rs capture_diff_deadline: ranges above 100 items are interned through IdentifyDistinct::<u32> (one hash map for both item types)", "heterogeneous old/new item types whose Hash disagrees for cross-equal items, more than 100 items, a slidable insertion"),
 "C10-G": ("C10", "replace.rs Replace::replace (pass-through) calls flush_del_ins() instead of flush_eq()", "a Replace adapter that RECEIVES replace calls, i.e. Replace stacked on Replace"),
 "C10-H": ("C10", "hook.rs provided DiffHook::replace: self.insert(old_index, old_index, new_len)", "a hook behind Replace that relies on the provided replace (user hook with only equal/delete/insert, or Replace<Compact<..>>) + a delete next to an insert after an unbalanced edit"),
 "C11-G": ("C11", "lcs.rs tail emission under a deadline: the Insert after a tail Delete carries the pre-delete old index", "Algorithm::Lcs + a deadline expiring during table construction + compaction moving the inserted block; this is exactly what Myers/Patience already do on the unchanged tree (known finding KF1) - see DESIGN 9.3"),
 "C11-H": ("C11", "myers.rs diff_deadline: new empty-side fast path takes the carried index from .end of the empty range instead of .start", "a reversed (start > end) empty sub-range such as 5..2 at top level, Myers / Patience"),
 "C12-G": ("C12", "udiff.rs UnifiedDiffHunk::to_writer: w.write(value) instead of w.write_all(value)", "to_writer into an io::Write that accepts only part of the buffer per call; grouped_ops stay correct - it is the byte writer (C05) that loses bytes"),
 "C12-H": ("C12", "common.rs group_diff_ops: n = n.min(usize::MAX / 2) and n * 2; the capped radius also feeds the leading/trailing trims", "a first or last equal run LONGER than usize::MAX/2 together with a radius above usize::MAX/2"),
 "C13-G": ("C13", "iter.rs AllChangesIter::next skips ops for which DiffOp::is_empty() (rewritten with `old_len == 0 || new_len == 0` for Replace)", "whole-hunk iteration (UnifiedDiffHunk::new + iter_changes) over caller-built ops containing a Replace with exactly one empty side"),
 "C13-H": ("C13", "iter.rs ChangesIter gains an Iterator::fold fast path whose Equal arm adds the offset to the RUNNING new index", "an Equal op, at least one prior next(), then a fold-based consumer (for_each, last, max, fold) that reads new_index()"),
 "C14-G": ("C14", "text/mod.rs TextDiffConfig::diff (>100 tokens): tokens identified by as_bytes()", "more than 100 tokens of a user-defined DiffableStr whose Eq is not byte equality"),
 "C14-H": ("C14", "utils.rs IdentifyDistinct::new: Option<last_id> bookkeeping replaced by an eagerly incremented next_id", "the number of distinct items exactly fills Int (256 for u8, 65536 for u16), debug builds: overflow panic"),
 "C15-G": ("C15", "patience.rs diff_deadline: when >= 15/16 of the items on both sides are unique the anchor pass is skipped and plain Myers runs", "at least 32 items a side, a unique item that crosses repeated ones"),
 "C15-H": ("C15", "algorithms/mod.rs diff_deadline dispatcher: ranges above 100 items are interned through IdentifyDistinct::<u32>", "heterogeneous item types with different Hash, more than 100 items, the dispatching entry points"),
 "C16-G": ("C16", "inline.rs push_values: fast path that scans as_bytes() for LF/CR and pushes the slice emphasised if none is found", "a user-defined DiffableStr with a further line terminator (U+2028): an emphasised segment contains the line break"),
 "C16-H": ("C16", "inline.rs MultiLookup::new: token offsets taken from as_bytes() pointer differences instead of the running len()", "a user-defined DiffableStr whose len()/slice() do not count bytes (character-indexed) with multi-byte text"),
 "C17-H": ("C17", "text/mod.rs TextDiffConfig::diff (>100 tokens): deadline check after interning; if expired, one whole-input Replace is returned", "more than 100 tokens on one side, the other text EMPTY, a deadline already expired: Replace with a zero-length half -> TextDiffRemapper panics"),
 "C18-G": ("C18", "text/mod.rs get_close_matches tokenizes with graphemes when the `unicode` feature is on", "a multi-codepoint grapheme cluster in the input (combining mark, CRLF, ZWJ emoji) and a cutoff / tie in the affected window"),
 "C18-H": ("C18", "text/mod.rs get_close_matches: acceptance test on the truncated u32 score of ratio and cutoff", "a ratio below 2^-9 (two ~1100-char strings sharing one char, low-entropy so that the multiset pre-filter lets them through) and a cutoff one or two ulps above it"),
 "C19-G": ("C19", "algorithms/mod.rs diff_slices(_deadline): 'nothing in common' pre-pass that sorts the refs of old (Ord) and binary-searches the items of new", "the algorithms::diff_slices entry point, unsorted values, counting Ord comparisons: N log N work even for identical inputs"),
 "C19-H": ("C19", "patience.rs: the hook's prefix skip became a common_prefix_len over the REMAINING ranges (clamped afterwards)", "Patience on near-identical inputs mixing unique and repeated items: about N^2/4 comparisons"),
 "C20-G": ("C20", "text/mod.rs TextDiffConfig::diff (>100 tokens): tokens identified by as_bytes()", "a user-defined DiffableStr with case-insensitive Eq, more than 100 tokens, Eq-equal tokens with different bytes"),
 "C20-H": ("C20", "utils.rs IdentifyDistinct::new: the loop over `new` uses map.get instead of entry, so all new-only items share ONE id", "Patience on ids from IdentifyDistinct (direct, or any text diff above 100 tokens) with >= 2 distinct new-only items and moved unique items"),
 "revert-D10": ("C02", "reverse of fix 938582c (get_diff_ratio caps below 1.0 unless everything matches)", "more than 2^24 items with a few differences: ratio() == 1.0 for different inputs"),
 "revert-D9": ("C14", "reverse of fix dcb9010 (IdentifyDistinct computes the next id eagerly)", "exactly 256 distinct items with IdentifyDistinct::<u8> (65 536 with u16), debug builds"),
}

matrix = {}
mp = os.path.join(ROOT, "seeded", "matrix.tsv")
if os.path.exists(mp):
    for line in open(mp):
        parts = line.rstrip("\n").split("\t")
        if len(parts) >= 3 and parts[0] != "seed":
            matrix.setdefault(parts[0], {})[parts[1]] = parts[2]

for sid in sorted(os.listdir(os.path.join(ROOT, "seeded"))):
    d = os.path.join(ROOT, "seeded", sid)
    if not os.path.isdir(d) or not os.path.exists(os.path.join(d, "patch.diff")):
        continue
    prop, what, needs = NEEDS.get(sid, ("?", "?", "?"))
    meta = {"id": sid, "breaks_property": prop, "change": what, "needs_to_manifest": needs,
            "origin": "reverse patch of a fix: commit in /repo (the historical defect)" if sid.startswith("revert-") else ("independent sub-agent, round 2: given the property text, a scratch worktree and the list of round-1 changes (all caught), asked for changes that are harder to detect" if sid[-1] in "CD" else ("independent sub-agent, round 3: additionally told what the checker evidently covers after two rounds and asked for what it would STILL miss" if sid[-1] in "EF" else "independent sub-agent, round 4: given the list of all earlier changes and of everything the checker evidently covers, asked for cooperating sites, value-dependent conditions, rarely used API surface, feature combinations and differently monomorphised generics" if sid[-1] in "GH" else "independent sub-agent, round 1: given only the property text and a scratch worktree")),
            "ran": []}
    c = os.path.join(d, "confirm.txt")
    if os.path.exists(c):
        meta["confirmed_in_scratch_worktree"] = dict(l.strip().split("=", 1) for l in open(c) if "=" in l)
        meta["ran"].append("tools/confirm_seed.sh %s  (scratch worktree of /repo HEAD under /tmp: suite with patch, demo with and without patch)" % sid)
    o = os.path.join(d, "official.txt")
    if os.path.exists(o):
        txt = open(o, errors="replace").read()
        res = {}
        for m in re.finditer(r"^(C\d+) rc=(\d+) violations=(\d+)", txt, re.M):
            res[m.group(1)] = {"exit": int(m.group(2)), "violation_lines": int(m.group(3))}
        first = re.search(r"^\s+\[([^\]]+)\] (.*)$", txt, re.M)
        meta["official_protocol"] = {"cmd": "git -C /repo apply seeded/%s/patch.diff; ./check <P> quick; git -C /repo checkout -- ." % sid, "results": res,
                                     "first_diagnosis": ("[%s] %s" % (first.group(1), first.group(2)[:500])) if first else None}
        meta["ran"].append("tools/try_patch.sh seeded/%s/patch.diff quick %s" % (sid, " ".join(res)))
    if sid in matrix:
        meta["caught_by_quick_checks"] = sorted(p for p, v in matrix[sid].items() if v == "1")
        meta["not_caught_by_quick_checks"] = sorted(p for p, v in matrix[sid].items() if v == "0")
    with open(os.path.join(d, "meta.json"), "w") as fh:
        json.dump(meta, fh, indent=1, ensure_ascii=False)
        fh.write("\n")
print("meta.json written")
