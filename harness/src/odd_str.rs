//! `OddStr`: a user-defined `DiffableStr` that differs from `str` in every way the trait
//! allows while staying self-consistent:
//!
//!  * `Eq` / `Ord` ignore ASCII case ("Foo" == "fOO"), so equal tokens may have different bytes;
//!  * `Hash` feeds the lower-cased bytes (consistent with that `Eq`, different from `str`'s);
//!  * `len()` / `slice()` count CHARACTERS, not bytes (the trait does not fix a unit);
//!  * U+2028 LINE SEPARATOR is a line terminator in addition to LF / CR LF / CR, consistently in
//!    `tokenize_lines`, `tokenize_lines_and_newlines` and `ends_with_newline`.
//!
//! Generic code in similar may only rely on the trait's own methods, so every text-level
//! property has to hold for this type exactly as it does for `str`.

use std::cmp::Ordering;
use std::hash::{Hash, Hasher};
use std::ops::Range;

use similar::DiffableStr;

#[repr(transparent)]
#[derive(Debug)]
pub struct OddStr(str);

impl OddStr {
    pub fn new(s: &str) -> &OddStr {
        // SAFETY: OddStr is a repr(transparent) wrapper around str
        unsafe { &*(s as *const str as *const OddStr) }
    }
    pub fn inner(&self) -> &str {
        &self.0
    }
    fn wrap(v: Vec<&str>) -> Vec<&OddStr> {
        v.into_iter().map(OddStr::new).collect()
    }
}

pub fn is_break(c: char) -> bool {
    c == '\n' || c == '\r' || c == '\u{2028}'
}

impl PartialEq for OddStr {
    fn eq(&self, other: &Self) -> bool {
        self.0.eq_ignore_ascii_case(&other.0)
    }
}
impl Eq for OddStr {}
impl Ord for OddStr {
    fn cmp(&self, other: &Self) -> Ordering {
        let a = self.0.bytes().map(|b| b.to_ascii_lowercase());
        let b = other.0.bytes().map(|b| b.to_ascii_lowercase());
        a.cmp(b)
    }
}
impl PartialOrd for OddStr {
    fn partial_cmp(&self, other: &Self) -> Option<Ordering> {
        Some(self.cmp(other))
    }
}
impl Hash for OddStr {
    fn hash<H: Hasher>(&self, state: &mut H) {
        for b in self.0.bytes() {
            state.write_u8(b.to_ascii_lowercase());
        }
        state.write_u8(0xff);
    }
}

#[derive(Debug, Clone)]
pub struct OddString(String);

impl std::borrow::Borrow<OddStr> for OddString {
    fn borrow(&self) -> &OddStr {
        OddStr::new(&self.0)
    }
}

impl ToOwned for OddStr {
    type Owned = OddString;
    fn to_owned(&self) -> OddString {
        OddString(self.0.to_string())
    }
}

impl DiffableStr for OddStr {
    fn tokenize_lines(&self) -> Vec<&Self> {
        let s = &self.0;
        let mut iter = s.char_indices().peekable();
        let mut last = 0;
        let mut lines = vec![];
        while let Some((idx, c)) = iter.next() {
            if c == '\r' {
                if iter.peek().map_or(false, |x| x.1 == '\n') {
                    iter.next();
                    lines.push(&s[last..idx + 2]);
                    last = idx + 2;
                } else {
                    lines.push(&s[last..idx + 1]);
                    last = idx + 1;
                }
            } else if c == '\n' || c == '\u{2028}' {
                lines.push(&s[last..idx + c.len_utf8()]);
                last = idx + c.len_utf8();
            }
        }
        if last < s.len() {
            lines.push(&s[last..]);
        }
        OddStr::wrap(lines)
    }

    fn tokenize_lines_and_newlines(&self) -> Vec<&Self> {
        let s = &self.0;
        let mut rv = vec![];
        let mut iter = s.char_indices().peekable();
        while let Some((idx, c)) = iter.next() {
            let nl = is_break(c);
            let mut end = idx + c.len_utf8();
            while let Some(&(_, n)) = iter.peek() {
                if is_break(n) != nl {
                    break;
                }
                iter.next();
                end += n.len_utf8();
            }
            rv.push(&s[idx..end]);
        }
        OddStr::wrap(rv)
    }

    fn tokenize_words(&self) -> Vec<&Self> {
        OddStr::wrap(self.0.tokenize_words())
    }

    fn tokenize_chars(&self) -> Vec<&Self> {
        OddStr::wrap(self.0.tokenize_chars())
    }

    #[cfg(feature = "unicode")]
    fn tokenize_unicode_words(&self) -> Vec<&Self> {
        OddStr::wrap(self.0.tokenize_unicode_words())
    }

    #[cfg(feature = "unicode")]
    fn tokenize_graphemes(&self) -> Vec<&Self> {
        OddStr::wrap(self.0.tokenize_graphemes())
    }

    fn as_str(&self) -> Option<&str> {
        Some(&self.0)
    }

    fn to_string_lossy(&self) -> std::borrow::Cow<'_, str> {
        std::borrow::Cow::Borrowed(&self.0)
    }

    fn ends_with_newline(&self) -> bool {
        self.0.chars().next_back().map_or(false, is_break)
    }

    /// in CHARACTERS
    fn len(&self) -> usize {
        self.0.chars().count()
    }

    /// in CHARACTERS
    fn slice(&self, rng: Range<usize>) -> &Self {
        let byte_of = |ci: usize| -> usize {
            if ci == 0 {
                return 0;
            }
            match self.0.char_indices().nth(ci) {
                Some((b, _)) => b,
                None => {
                    assert!(ci == self.0.chars().count(), "OddStr::slice: character index {} out of range (len {})", ci, self.0.chars().count());
                    self.0.len()
                }
            }
        };
        assert!(rng.start <= rng.end, "OddStr::slice: reversed range {:?}", rng);
        OddStr::new(&self.0[byte_of(rng.start)..byte_of(rng.end)])
    }

    fn as_bytes(&self) -> &[u8] {
        self.0.as_bytes()
    }
}

/// deterministic per-occurrence case pattern: returns `s` with ASCII letters upper-cased where
/// the pattern bit (position-dependent) says so; equal under OddStr's Eq to `s` itself
pub fn recase(s: &str, salt: u64) -> String {
    let mut x = salt.wrapping_mul(0x9E37_79B9_7F4A_7C15) | 1;
    s.chars()
        .map(|c| {
            x ^= x << 13;
            x ^= x >> 7;
            x ^= x << 17;
            if c.is_ascii_alphabetic() && x & 1 == 1 {
                c.to_ascii_uppercase()
            } else if c.is_ascii_alphabetic() {
                c.to_ascii_lowercase()
            } else {
                c
            }
        })
        .collect()
}

/// `recase` plus: a lone LF (not part of CR LF) becomes U+2028 when the character before it has
/// an even code point - decided by the line's own content, so equal lines stay equal - which
/// gives about half of the lines the terminator only this type knows about
pub fn oddify(s: &str, salt: u64) -> String {
    let r = recase(s, salt);
    let mut out = String::with_capacity(r.len() + 8);
    let mut prev = '\0';
    for c in r.chars() {
        if c == '\n' && prev != '\r' && (prev.to_ascii_lowercase() as u32) % 2 == 0 {
            out.push('\u{2028}');
        } else {
            out.push(c);
        }
        prev = c;
    }
    out
}

/// like `oddify` but with ONE letter case: every ASCII letter is lower-cased, so that tokens which are equal
/// under the type's case-insensitive `Eq` have equal bytes whatever the generator produced (for checks that
/// compare reconstructed texts byte for byte: an Equal change carries the old side's bytes)
pub fn oddify_same_case(s: &str) -> String {
    let mut out = String::with_capacity(s.len() + 8);
    let mut prev = '\0';
    for c in s.chars() {
        if c == '\n' && prev != '\r' && (prev.to_ascii_lowercase() as u32) % 2 == 0 {
            out.push('\u{2028}');
        } else {
            out.push(c.to_ascii_lowercase());
        }
        prev = c;
    }
    out
}
