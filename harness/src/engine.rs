//! Execution engine: families of cases, worker threads, per-thread
//! accumulators, panic capture, report merging.

use std::cell::RefCell;
use std::collections::{BTreeMap, HashSet};
use std::hash::{Hash, Hasher};
use std::panic::{catch_unwind, AssertUnwindSafe};
use std::sync::atomic::{AtomicBool, AtomicU64, Ordering};
use std::sync::Mutex;
use std::time::Instant;

use crate::json::Json;

#[derive(Clone, Copy, PartialEq, Eq, Debug)]
pub enum Tier {
    Quick,
    Thorough,
}

impl Tier {
    pub fn pick<T>(self, quick: T, thorough: T) -> T {
        match self {
            Tier::Quick => quick,
            Tier::Thorough => thorough,
        }
    }
}

#[derive(Clone, Debug)]
pub struct Config {
    pub property: String,
    pub tier: Tier,
    pub seed: u64,
    pub threads: usize,
    /// soft wall-clock budget in seconds: workers stop taking new chunks after
    /// it; what was covered is reported faithfully
    pub budget_s: f64,
    /// replay exactly one case
    pub replay: Option<(String, u64)>,
    /// scale factor (percent) applied to the sizes of sampled families
    pub scale_pct: u64,
    /// label of the build profile (checked / release / miri / coverage)
    pub profile: String,
    /// tiny workloads (Miri stage)
    pub tiny: bool,
    /// ids of known findings listed as open for this property (from
    /// known_findings.json); only these may be matched instead of reported
    pub known: Vec<String>,
    /// a single case running longer than this is reported as non-termination
    pub hang_s: f64,
    /// file (created by the driver) into which the in-flight cases are mirrored, so that
    /// they survive an abort of this process
    pub inflight_file: Option<String>,
    /// where the JSON report goes (the hang watchdog writes it before exiting)
    pub out_file: Option<String>,
    /// stack size of the worker threads in MiB (default 256: a harness thread must not overflow where a
    /// user's thread would not; the small-stack stage sets the size of an ordinary thread instead)
    pub stack_mib: usize,
    /// run only the families whose name starts with this prefix
    pub only_prefix: Option<String>,
}

impl Config {
    pub fn scaled(&self, n: u64) -> u64 {
        (n.saturating_mul(self.scale_pct) / 100).max(1)
    }
    pub fn is_known(&self, id: &str) -> bool {
        self.known.iter().any(|k| k == id)
    }
    pub fn n(&self, quick: u64, thorough: u64) -> u64 {
        if self.tiny {
            self.scaled((quick / 2000).max(3))
        } else {
            self.scaled(self.tier.pick(quick, thorough))
        }
    }
}

#[derive(Clone, Debug)]
pub struct Violation {
    pub family: String,
    pub idx: u64,
    pub monitor: String,
    pub detail: String,
}

/// Per-thread accumulator handed to every case.
pub struct Local {
    pub family: String,
    pub idx: u64,
    pub evals: u64,
    pub nontrivial: HashSet<u64>,
    pub counters: BTreeMap<String, u64>,
    pub maxima: BTreeMap<String, f64>,
    pub samples: BTreeMap<String, Vec<(u64, String)>>,
    pub violations: Vec<Violation>,
    pub violation_count: u64,
    pub violation_kinds: BTreeMap<String, u64>,
    pub known: BTreeMap<String, (u64, String)>,
    pub verbose: bool,
}

pub const MAX_VIOLATIONS_KEPT_PER_KIND: u64 = 3;

impl Local {
    fn new(verbose: bool) -> Local {
        Local {
            family: String::new(),
            idx: 0,
            evals: 0,
            nontrivial: HashSet::new(),
            counters: BTreeMap::new(),
            maxima: BTreeMap::new(),
            samples: BTreeMap::new(),
            violations: Vec::new(),
            violation_count: 0,
            violation_kinds: BTreeMap::new(),
            known: BTreeMap::new(),
            verbose,
        }
    }

    /// one execution of code under test
    #[inline]
    pub fn eval(&mut self) {
        self.evals += 1;
    }

    #[inline]
    pub fn evals_add(&mut self, n: u64) {
        self.evals += n;
    }

    #[inline]
    pub fn count(&mut self, key: &str) {
        self.count_n(key, 1);
    }

    pub fn count_n(&mut self, key: &str, n: u64) {
        if let Some(c) = self.counters.get_mut(key) {
            *c += n;
        } else {
            self.counters.insert(key.to_string(), n);
        }
    }

    pub fn max(&mut self, key: &str, v: f64) {
        match self.maxima.get_mut(key) {
            Some(m) => {
                if v > *m {
                    *m = v
                }
            }
            None => {
                self.maxima.insert(key.to_string(), v);
            }
        }
    }

    /// registers a distinct non-trivial case by the digest of its (input, config)
    #[inline]
    pub fn nontrivial<H: Hash>(&mut self, key: &H) {
        self.nontrivial.insert(digest(key));
    }

    /// keeps the lowest-index few cases per family as verbatim samples
    pub fn sample(&mut self, text: impl FnOnce() -> String) {
        // deterministic, but spread over the family: keep the cases whose hashed index is smallest
        let key = crate::rng::splitmix(self.idx ^ 0x5a5a);
        let v = self.samples.entry(self.family.clone()).or_default();
        if v.len() < 3 || v.iter().any(|(i, _)| crate::rng::splitmix(*i ^ 0x5a5a) > key) {
            if v.iter().any(|(i, _)| *i == self.idx) {
                return;
            }
            v.push((self.idx, text()));
            v.sort_by_key(|x| crate::rng::splitmix(x.0 ^ 0x5a5a));
            v.truncate(3);
        }
    }

    pub fn violation(&mut self, monitor: &str, detail: String) {
        self.violation_count += 1;
        let k = self.violation_kinds.entry(monitor.to_string()).or_insert(0);
        *k += 1;
        if self.verbose {
            eprintln!("VIOLATED [{}] {}#{}: {}", monitor, self.family, self.idx, detail);
        }
        if *k <= MAX_VIOLATIONS_KEPT_PER_KIND {
            let mut detail = detail;
            if detail.len() > 4000 {
                let mut cut = 4000;
                while !detail.is_char_boundary(cut) {
                    cut -= 1;
                }
                detail.truncate(cut);
                detail.push_str("…(truncated)");
            }
            self.violations.push(Violation {
                family: self.family.clone(),
                idx: self.idx,
                monitor: monitor.to_string(),
                detail,
            });
        }
    }

    /// a failure that matches the signature of a listed known finding
    pub fn known_finding(&mut self, id: &str, witness: impl FnOnce() -> String) {
        if self.verbose {
            eprintln!("known finding {} at {}#{}", id, self.family, self.idx);
        }
        match self.known.get_mut(id) {
            Some(e) => e.0 += 1,
            None => {
                self.known.insert(id.to_string(), (1, witness()));
            }
        }
    }
}

pub fn digest<H: Hash>(key: &H) -> u64 {
    #[allow(deprecated)]
    let mut h = std::hash::SipHasher::new_with_keys(0x5eed, 0xfeed);
    key.hash(&mut h);
    h.finish()
}

pub trait Family: Sync + Send {
    fn name(&self) -> String;
    /// number of cases at this configuration
    fn len(&self, cfg: &Config) -> u64;
    fn run(&self, idx: u64, cfg: &Config, out: &mut Local);
    /// true when `len` enumerates a finite space completely
    fn exhaustive(&self) -> bool {
        false
    }
    /// human readable generation rule
    fn rule(&self) -> String;
    /// cases per work chunk
    fn chunk(&self) -> u64 {
        64
    }
}

/// A family built from closures (most families are).
pub struct FnFamily<L, R>
where
    L: Fn(&Config) -> u64 + Sync + Send,
    R: Fn(u64, &Config, &mut Local) + Sync + Send,
{
    pub name: &'static str,
    pub rule: &'static str,
    pub exhaustive: bool,
    pub chunk: u64,
    pub len: L,
    pub run: R,
}

impl<L, R> Family for FnFamily<L, R>
where
    L: Fn(&Config) -> u64 + Sync + Send,
    R: Fn(u64, &Config, &mut Local) + Sync + Send,
{
    fn name(&self) -> String {
        self.name.to_string()
    }
    fn len(&self, cfg: &Config) -> u64 {
        (self.len)(cfg)
    }
    fn run(&self, idx: u64, cfg: &Config, out: &mut Local) {
        (self.run)(idx, cfg, out)
    }
    fn exhaustive(&self) -> bool {
        self.exhaustive
    }
    fn rule(&self) -> String {
        self.rule.to_string()
    }
    fn chunk(&self) -> u64 {
        self.chunk
    }
}

pub fn family<L, R>(
    name: &'static str,
    rule: &'static str,
    exhaustive: bool,
    chunk: u64,
    len: L,
    run: R,
) -> Box<dyn Family>
where
    L: Fn(&Config) -> u64 + Sync + Send + 'static,
    R: Fn(u64, &Config, &mut Local) + Sync + Send + 'static,
{
    Box::new(FnFamily {
        name,
        rule,
        exhaustive,
        chunk,
        len,
        run,
    })
}

// ---------------------------------------------------------------------------
// panic capture

thread_local! {
    static LAST_PANIC: RefCell<Option<String>> = RefCell::new(None);
    static QUIET: std::cell::Cell<bool> = std::cell::Cell::new(true);
}

pub fn install_panic_hook() {
    std::panic::set_hook(Box::new(|info| {
        let msg = if let Some(s) = info.payload().downcast_ref::<&str>() {
            s.to_string()
        } else if let Some(s) = info.payload().downcast_ref::<String>() {
            s.clone()
        } else {
            "<non-string panic payload>".to_string()
        };
        let loc = info
            .location()
            .map(|l| format!("{}:{}:{}", l.file(), l.line(), l.column()))
            .unwrap_or_else(|| "<unknown>".into());
        let text = format!("panicked at {}: {}", loc, msg);
        if !QUIET.with(|q| q.get()) {
            eprintln!("{}", text);
        }
        LAST_PANIC.with(|p| *p.borrow_mut() = Some(text));
    }));
}

/// Runs code under test; a panic becomes `Err(description)`.
pub fn guard<T>(f: impl FnOnce() -> T) -> Result<T, String> {
    match catch_unwind(AssertUnwindSafe(f)) {
        Ok(v) => Ok(v),
        Err(_) => Err(LAST_PANIC
            .with(|p| p.borrow_mut().take())
            .unwrap_or_else(|| "panic (no message captured)".into())),
    }
}

// ---------------------------------------------------------------------------
// in-flight cases: 4 words per worker slot (family ordinal + 1, case index, start in ms (wall),
// CPU time in ns that the worker thread had consumed when the case started)
//
// The hang watchdog decides on CPU TIME CONSUMED BY THE WORKER THREAD inside one case, never on
// wall-clock time: on a loaded machine (or under an interpreter) a case may take arbitrarily long
// on the wall clock without the code under test doing anything wrong.

#[repr(C)]
struct Timespec {
    tv_sec: i64,
    tv_nsec: i64,
}

extern "C" {
    fn clock_gettime(clk: i32, ts: *mut Timespec) -> i32;
    fn pthread_self() -> usize;
    fn pthread_getcpuclockid(thread: usize, clk: *mut i32) -> i32;
}

/// CPU-time clock id (+1; 0 = none) of the worker thread that owns each slot
static WORKER_CLOCKS: [AtomicU64; SLOTS] = [const { AtomicU64::new(0) }; SLOTS];

fn cpu_ns_of(clk: i32) -> Option<u64> {
    if cfg!(miri) {
        return None;
    }
    let mut ts = Timespec { tv_sec: 0, tv_nsec: 0 };
    if unsafe { clock_gettime(clk, &mut ts) } != 0 {
        return None;
    }
    Some(ts.tv_sec as u64 * 1_000_000_000 + ts.tv_nsec as u64)
}

/// CPU time consumed so far by the calling thread (CLOCK_THREAD_CPUTIME_ID = 3)
fn own_cpu_ns() -> u64 {
    cpu_ns_of(3).unwrap_or(0)
}

fn register_worker_clock(slot: usize) {
    if cfg!(miri) {
        return;
    }
    let mut clk: i32 = 0;
    if unsafe { pthread_getcpuclockid(pthread_self(), &mut clk) } == 0 {
        WORKER_CLOCKS[slot].store(clk as u32 as u64 + 1, Ordering::Relaxed);
    }
}

pub const SLOTS: usize = 64;
const WORDS: usize = 4;

fn inflight(path: Option<&str>) -> &'static [AtomicU64] {
    use std::sync::OnceLock;
    static CELL: OnceLock<&'static [AtomicU64]> = OnceLock::new();
    CELL.get_or_init(|| {
        if let Some(p) = path {
            if let Some(m) = map_shared(p, SLOTS * WORDS * 8) {
                return m;
            }
        }
        let v: Vec<AtomicU64> = (0..SLOTS * WORDS).map(|_| AtomicU64::new(0)).collect();
        Box::leak(v.into_boxed_slice())
    })
}

/// Maps a file MAP_SHARED so that plain stores reach the page cache and survive
/// an abort of this process (no syscall per case).
fn map_shared(path: &str, len: usize) -> Option<&'static [AtomicU64]> {
    use std::os::unix::io::AsRawFd;
    extern "C" {
        fn mmap(addr: *mut u8, len: usize, prot: i32, flags: i32, fd: i32, off: i64) -> *mut u8;
    }
    let f = std::fs::OpenOptions::new().read(true).write(true).create(true).open(path).ok()?;
    f.set_len(len as u64).ok()?;
    // PROT_READ | PROT_WRITE = 3, MAP_SHARED = 1
    let p = unsafe { mmap(std::ptr::null_mut(), len, 3, 1, f.as_raw_fd(), 0) };
    if p.is_null() || p as isize == -1 {
        return None;
    }
    // the mapping stays valid after the file handle is closed; u64-aligned (page aligned)
    Some(unsafe { std::slice::from_raw_parts(p as *const AtomicU64, len / 8) })
}

fn spawn_hang_watchdog(cfg: &Config, names: Vec<String>, start: Instant) {
    if cfg!(miri) {
        return; // no thread CPU clocks under the interpreter; the driver bounds the Miri stage as a whole (inconclusive)
    }
    let slots = inflight(cfg.inflight_file.as_deref());
    let cfg = cfg.clone();
    std::thread::spawn(move || loop {
        std::thread::sleep(std::time::Duration::from_millis(500));
        let now = start.elapsed().as_millis() as u64;
        for w in 0..SLOTS {
            let fam = slots[w * WORDS].load(Ordering::Relaxed);
            if fam == 0 {
                continue;
            }
            let idx = slots[w * WORDS + 1].load(Ordering::Relaxed);
            let t0 = slots[w * WORDS + 2].load(Ordering::Relaxed);
            if slots[w * WORDS].load(Ordering::Relaxed) != fam || slots[w * WORDS + 1].load(Ordering::Relaxed) != idx {
                continue;
            }
            if now.saturating_sub(t0) as f64 / 1000.0 > cfg.hang_s {
                // wall-clock time alone proves nothing: how much CPU time did the worker burn inside this case?
                let cpu0 = slots[w * WORDS + 3].load(Ordering::Relaxed);
                let clk = WORKER_CLOCKS[w].load(Ordering::Relaxed);
                if clk == 0 {
                    continue;
                }
                let cpu_now = match cpu_ns_of((clk - 1) as u32 as i32) {
                    Some(t) => t,
                    None => continue,
                };
                if slots[w * WORDS].load(Ordering::Relaxed) != fam || slots[w * WORDS + 1].load(Ordering::Relaxed) != idx {
                    continue;
                }
                if (cpu_now.saturating_sub(cpu0) as f64) / 1e9 <= cfg.hang_s {
                    continue;
                }
                // the case cannot be interrupted: report it and leave
                let fname = names.get(fam as usize - 1).cloned().unwrap_or_default();
                let mut o = Json::obj();
                o.set("property", Json::str(&cfg.property));
                o.set("profile", Json::str(&cfg.profile));
                o.set("seed", Json::num(cfg.seed as f64));
                o.set("evaluations", Json::num(1.0));
                o.set("distinct_nontrivial", Json::num(0.0));
                o.set("families", Json::Arr(vec![]));
                o.set("counters", Json::obj());
                o.set("maxima", Json::obj());
                o.set("samples", Json::Arr(vec![]));
                o.set("known_findings", Json::Arr(vec![]));
                o.set("violation_count", Json::num(1.0));
                let mut vk = Json::obj();
                vk.set("hang.case_did_not_return", Json::num(1.0));
                o.set("violation_kinds", vk);
                let mut v = Json::obj();
                v.set("monitor", Json::str("hang.case_did_not_return"));
                v.set("family", Json::str(&fname));
                v.set("index", Json::num(idx as f64));
                v.set(
                    "detail",
                    Json::str(&format!(
                        "case {}#{} did not return after {} s of CPU time consumed by its worker thread (cases of this family normally take micro- to milliseconds, the largest ones seconds); the code under test does not complete on this input. The run was aborted, other cases of this run are not reported.",
                        fname, idx, cfg.hang_s
                    )),
                );
                o.set("violations", Json::Arr(vec![v]));
                o.set("aborted_by_hang_watchdog", Json::Bool(true));
                let text = o.to_string();
                match &cfg.out_file {
                    Some(f) => {
                        let _ = std::fs::write(f, text.as_bytes());
                    }
                    None => println!("{}", text),
                }
                std::process::exit(1);
            }
        }
    });
}

pub struct FamilyStat {
    pub name: String,
    pub rule: String,
    pub len: u64,
    pub done: u64,
    pub exhaustive: bool,
    pub wall_s: f64,
}

pub struct Outcome {
    pub stats: Vec<FamilyStat>,
    pub merged: Local,
    pub wall_s: f64,
    pub budget_hit: bool,
}

pub fn run(cfg: &Config, families: &[Box<dyn Family>]) -> Outcome {
    let start = Instant::now();
    let mut merged = Local::new(false);
    let mut stats = Vec::new();
    let budget_hit = AtomicBool::new(false);
    let slots = inflight(cfg.inflight_file.as_deref());
    for s in slots.iter() {
        s.store(0, Ordering::Relaxed);
    }
    spawn_hang_watchdog(cfg, families.iter().map(|f| f.name()).collect(), start);

    for (fam_ord, fam) in families.iter().enumerate() {
        let name = fam.name();
        if let Some((ref f, _)) = cfg.replay {
            if *f != name {
                continue;
            }
        }
        if let Some(p) = &cfg.only_prefix {
            if !name.starts_with(p.as_str()) {
                continue;
            }
        }
        let fstart = Instant::now();
        let len = fam.len(cfg);
        let next = AtomicU64::new(0);
        let done = AtomicU64::new(0);
        let chunk = fam.chunk().max(1);
        let results: Mutex<Vec<Local>> = Mutex::new(Vec::new());
        let threads = if cfg.replay.is_some() { 1 } else { cfg.threads.max(1) };

        std::thread::scope(|s| {
            for worker in 0..threads {
                let name = &name;
                let next = &next;
                let done = &done;
                let results = &results;
                let budget_hit = &budget_hit;
                // a generous stack: the code under test recurses, and a harness thread must never
                // overflow where a user's main thread (8 MiB) would not
                let builder = std::thread::Builder::new().stack_size(cfg.stack_mib.max(1) << 20).name(format!("worker-{}", worker));
                let _ = builder.spawn_scoped(s, move || {
                    let w = (worker % SLOTS) * WORDS;
                    register_worker_clock(worker % SLOTS);
                    let mark = |idx: u64| {
                        slots[w + 1].store(idx, Ordering::Relaxed);
                        slots[w + 2].store(start.elapsed().as_millis() as u64, Ordering::Relaxed);
                        slots[w + 3].store(own_cpu_ns(), Ordering::Relaxed);
                        slots[w].store(fam_ord as u64 + 1, Ordering::Relaxed);
                    };
                    let clear = || slots[w].store(0, Ordering::Relaxed);
                    let mut local = Local::new(cfg.replay.is_some());
                    local.family = name.clone();
                    if let Some((_, idx)) = cfg.replay {
                        QUIET.with(|q| q.set(false));
                        if idx < len {
                            mark(idx);
                            run_one(fam.as_ref(), idx, cfg, &mut local);
                            clear();
                            done.fetch_add(1, Ordering::Relaxed);
                        } else {
                            eprintln!("replay index {} out of range (family has {} cases at this tier/scale)", idx, len);
                        }
                    } else {
                        loop {
                            if start.elapsed().as_secs_f64() > cfg.budget_s {
                                budget_hit.store(true, Ordering::Relaxed);
                                break;
                            }
                            let from = next.fetch_add(chunk, Ordering::Relaxed);
                            if from >= len {
                                break;
                            }
                            let to = (from + chunk).min(len);
                            for idx in from..to {
                                mark(idx);
                                run_one(fam.as_ref(), idx, cfg, &mut local);
                            }
                            clear();
                            done.fetch_add(to - from, Ordering::Relaxed);
                        }
                    }
                    results.lock().unwrap().push(local);
                });
            }
        });

        for l in results.into_inner().unwrap() {
            merge(&mut merged, l);
        }
        stats.push(FamilyStat {
            name,
            rule: fam.rule(),
            len,
            done: done.load(Ordering::Relaxed),
            exhaustive: fam.exhaustive(),
            wall_s: fstart.elapsed().as_secs_f64(),
        });
    }

    Outcome {
        stats,
        merged,
        wall_s: start.elapsed().as_secs_f64(),
        budget_hit: budget_hit.load(Ordering::Relaxed),
    }
}

fn run_one(fam: &dyn Family, idx: u64, cfg: &Config, local: &mut Local) {
    local.idx = idx;
    // hooks are thread-local; make sure no case inherits a clock or switch
    similar::verif_hooks::set_clock(similar::verif_hooks::Clock::Off);
    similar::verif_hooks::set_swap_repair(false);
    // A panic that escapes a family is a panic of code under test that the
    // family did not attribute to a specific call (families wrap the calls
    // they make in `guard`); it is reported, never swallowed.
    let r = catch_unwind(AssertUnwindSafe(|| fam.run(idx, cfg, local)));
    if r.is_err() {
        let msg = LAST_PANIC
            .with(|p| p.borrow_mut().take())
            .unwrap_or_else(|| "panic".into());
        local.violation("panic.uncaught", msg);
    }
}

fn merge(into: &mut Local, from: Local) {
    into.evals += from.evals;
    into.nontrivial.extend(from.nontrivial);
    for (k, v) in from.counters {
        *into.counters.entry(k).or_insert(0) += v;
    }
    for (k, v) in from.maxima {
        let e = into.maxima.entry(k).or_insert(v);
        if v > *e {
            *e = v;
        }
    }
    for (k, v) in from.samples {
        let e = into.samples.entry(k).or_default();
        e.extend(v);
        e.sort_by_key(|x| crate::rng::splitmix(x.0 ^ 0x5a5a));
        e.dedup_by_key(|x| x.0);
        e.truncate(3);
    }
    into.violation_count += from.violation_count;
    for (k, v) in from.violation_kinds {
        *into.violation_kinds.entry(k).or_insert(0) += v;
    }
    into.violations.extend(from.violations);
    for (k, (n, w)) in from.known {
        match into.known.get_mut(&k) {
            Some(e) => e.0 += n,
            None => {
                into.known.insert(k, (n, w));
            }
        }
    }
}

pub fn outcome_to_json(cfg: &Config, out: &Outcome) -> Json {
    let mut o = Json::obj();
    o.set("property", Json::str(&cfg.property));
    o.set("tier", Json::str(match cfg.tier {
        Tier::Quick => "quick",
        Tier::Thorough => "thorough",
    }));
    o.set("seed", Json::num(cfg.seed as f64));
    o.set("profile", Json::str(&cfg.profile));
    o.set("threads", Json::num(cfg.threads as f64));
    o.set("wall_s", Json::num((out.wall_s * 1000.0).round() / 1000.0));
    o.set("budget_hit", Json::Bool(out.budget_hit));
    o.set("evaluations", Json::num(out.merged.evals as f64));
    o.set("distinct_nontrivial", Json::num(out.merged.nontrivial.len() as f64));
    let mut fams = Vec::new();
    let mut all_exh = true;
    for s in &out.stats {
        let mut f = Json::obj();
        f.set("family", Json::str(&s.name));
        f.set("rule", Json::str(&s.rule));
        f.set("cases", Json::num(s.len as f64));
        f.set("cases_done", Json::num(s.done as f64));
        f.set("exhaustive", Json::Bool(s.exhaustive && s.done == s.len));
        f.set("wall_s", Json::num((s.wall_s * 1000.0).round() / 1000.0));
        if !(s.exhaustive && s.done == s.len) {
            all_exh = false;
        }
        fams.push(f);
    }
    o.set("families", Json::Arr(fams));
    o.set("all_families_exhaustive", Json::Bool(all_exh && !out.stats.is_empty()));
    let mut c = Json::obj();
    for (k, v) in &out.merged.counters {
        c.set(k, Json::num(*v as f64));
    }
    o.set("counters", c);
    let mut m = Json::obj();
    for (k, v) in &out.merged.maxima {
        m.set(k, Json::num((*v * 10000.0).round() / 10000.0));
    }
    o.set("maxima", m);
    let mut samples = Vec::new();
    for (fam, v) in &out.merged.samples {
        for (idx, text) in v {
            let mut s = Json::obj();
            s.set("family", Json::str(fam));
            s.set("index", Json::num(*idx as f64));
            s.set("case", Json::str(text));
            samples.push(s);
        }
    }
    o.set("samples", Json::Arr(samples));
    o.set("violation_count", Json::num(out.merged.violation_count as f64));
    let mut vk = Json::obj();
    for (k, v) in &out.merged.violation_kinds {
        vk.set(k, Json::num(*v as f64));
    }
    o.set("violation_kinds", vk);
    let mut viols = out.merged.violations.clone();
    viols.sort_by(|a, b| (a.monitor.clone(), a.family.clone(), a.idx).cmp(&(b.monitor.clone(), b.family.clone(), b.idx)));
    let mut seen: BTreeMap<String, u64> = BTreeMap::new();
    let mut varr = Vec::new();
    for v in viols {
        let n = seen.entry(v.monitor.clone()).or_insert(0);
        *n += 1;
        if *n > MAX_VIOLATIONS_KEPT_PER_KIND {
            continue;
        }
        let mut j = Json::obj();
        j.set("monitor", Json::str(&v.monitor));
        j.set("family", Json::str(&v.family));
        j.set("index", Json::num(v.idx as f64));
        j.set("detail", Json::str(&v.detail));
        varr.push(j);
    }
    o.set("violations", Json::Arr(varr));
    let mut known = Vec::new();
    for (id, (n, w)) in &out.merged.known {
        let mut j = Json::obj();
        j.set("id", Json::str(id));
        j.set("count", Json::num(*n as f64));
        j.set("first_witness", Json::str(w));
        known.push(j);
    }
    o.set("known_findings", Json::Arr(known));
    o
}
