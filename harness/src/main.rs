//! vcheck — runtime-monitoring harness for `similar`.
//!
//! usage: vcheck <PROPERTY> [--tier quick|thorough] [--seed N] [--threads N]
//!               [--budget SECONDS] [--scale PCT] [--profile NAME] [--tiny]
//!               [--replay FAMILY:INDEX] [--out FILE]
//!
//! Prints a JSON report (one line) to --out or stdout.  Exit status: 0 = no
//! violation observed, 1 = violation(s), 2 = usage / nothing observed.

mod engine;
#[cfg(feature = "bytes")]
mod gen;
mod json;
#[cfg(feature = "bytes")]
mod mon;
#[cfg(feature = "bytes")]
mod odd_str;
#[cfg(feature = "bytes")]
mod patch_ref;
#[cfg(feature = "bytes")]
mod pinned;
#[cfg(feature = "bytes")]
mod props;
#[cfg(not(feature = "bytes"))]
#[path = "props_nobytes.rs"]
mod props;
mod rng;
mod text_gen;
mod tok_ref;

use engine::{Config, Tier};

fn main() {
    let args: Vec<String> = std::env::args().skip(1).collect();
    if args.is_empty() {
        eprintln!("usage: vcheck <PROPERTY> [--tier quick|thorough] [--seed N] [--threads N] [--budget S] [--scale PCT] [--profile NAME] [--tiny] [--replay FAMILY:INDEX] [--out FILE]");
        std::process::exit(2);
    }
    let mut cfg = Config {
        property: args[0].clone(),
        tier: Tier::Quick,
        seed: 1,
        threads: std::thread::available_parallelism().map(|n| n.get()).unwrap_or(4),
        budget_s: 3600.0,
        replay: None,
        scale_pct: 100,
        profile: "unknown".into(),
        tiny: false,
        known: Vec::new(),
        hang_s: 300.0,
        inflight_file: None,
        out_file: None,
        stack_mib: 256,
        only_prefix: None,
    };
    let mut out_file: Option<String> = None;
    let mut list_families = false;
    let mut i = 1;
    while i < args.len() {
        let need = |i: usize| -> &str {
            args.get(i + 1).map(|s| s.as_str()).unwrap_or_else(|| {
                eprintln!("missing value for {}", args[i]);
                std::process::exit(2)
            })
        };
        match args[i].as_str() {
            "--tier" => {
                cfg.tier = match need(i) {
                    "quick" => Tier::Quick,
                    "thorough" => Tier::Thorough,
                    x => {
                        eprintln!("bad tier {}", x);
                        std::process::exit(2)
                    }
                };
                i += 1;
            }
            "--seed" => {
                cfg.seed = need(i).parse().unwrap_or(1);
                i += 1;
            }
            "--threads" => {
                cfg.threads = need(i).parse().unwrap_or(1);
                i += 1;
            }
            "--budget" => {
                cfg.budget_s = need(i).parse().unwrap_or(3600.0);
                i += 1;
            }
            "--scale" => {
                cfg.scale_pct = need(i).parse().unwrap_or(100);
                i += 1;
            }
            "--profile" => {
                cfg.profile = need(i).to_string();
                i += 1;
            }
            "--tiny" => cfg.tiny = true,
            "--list-families" => list_families = true,
            "--replay" => {
                let v = need(i);
                let (f, idx) = v.rsplit_once(':').unwrap_or_else(|| {
                    eprintln!("--replay expects FAMILY:INDEX");
                    std::process::exit(2)
                });
                cfg.replay = Some((f.to_string(), idx.parse().unwrap_or(0)));
                i += 1;
            }
            "--known" => {
                cfg.known.push(need(i).to_string());
                i += 1;
            }
            "--out" => {
                out_file = Some(need(i).to_string());
                i += 1;
            }
            "--hang-seconds" => {
                cfg.hang_s = need(i).parse().unwrap_or(300.0);
                i += 1;
            }
            "--stack-mib" => {
                cfg.stack_mib = need(i).parse().unwrap_or(256);
                i += 1;
            }
            "--only-prefix" => {
                cfg.only_prefix = Some(need(i).to_string());
                i += 1;
            }
            "--inflight-file" => {
                cfg.inflight_file = Some(need(i).to_string());
                i += 1;
            }
            x => {
                eprintln!("unknown argument {}", x);
                std::process::exit(2);
            }
        }
        i += 1;
    }

    cfg.out_file = out_file.clone();
    engine::install_panic_hook();
    let fams = match props::families_of(&cfg.property) {
        Some(f) => f,
        None => {
            eprintln!("unknown property {}", cfg.property);
            std::process::exit(2);
        }
    };
    if list_families {
        for f in &fams {
            println!("{}", f.name());
        }
        return;
    }
    let outcome = engine::run(&cfg, &fams);
    let report = engine::outcome_to_json(&cfg, &outcome).to_string();
    match out_file {
        Some(f) => std::fs::write(&f, report.as_bytes()).expect("cannot write report"),
        None => println!("{}", report),
    }
    if outcome.merged.violation_count > 0 {
        std::process::exit(1);
    }
    if outcome.merged.evals == 0 {
        std::process::exit(2);
    }
}
