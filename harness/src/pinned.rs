//! FROZEN REFERENCE of the pinned capture pipeline's second half: the clean-up of `Compact`
//! (`cleanup_diff_ops`, `shift_diff_ops_up`, `shift_diff_ops_down` of the pinned
//! `src/algorithms/compact.rs`, including its index-less swap of adjacent Delete/Insert ops — the
//! known finding KF1) followed by the merging of the `Replace` adapter.
//!
//! Purpose: the known-finding match.  A failing case is counted under KF1 only if the ops that the tree
//! under check produced are EXACTLY what this frozen pipeline produces from the raw calls of the same
//! algorithm run — i.e. if the pinned tree fails on this very input in this very way.  A clean-up that
//! deviates from the pinned one (even through the same swap arms) is reported as a violation.
//!
//! Written against plain tuples; nothing of `similar`'s own op arithmetic is used.

use similar::DiffOp;

#[derive(Clone, Copy, PartialEq, Eq, Debug)]
enum Tag {
    Eq,
    Del,
    Ins,
}

/// (tag, old_index, old_len, new_index, new_len): an Equal has old_len == new_len; a Delete carries
/// new_index with new_len 0; an Insert carries old_index with old_len 0
#[derive(Clone, Copy, PartialEq, Eq, Debug)]
struct P {
    tag: Tag,
    o: usize,
    ol: usize,
    n: usize,
    nl: usize,
}

impl P {
    fn is_empty(&self) -> bool {
        self.ol == 0 && self.nl == 0
    }
    /// the pinned `DiffOp::adjust`: offsets of both sides move together, the length of the consuming side(s)
    fn adjust(&mut self, off: (usize, bool), len: (usize, bool)) {
        fn modify(v: &mut usize, a: (usize, bool)) {
            if a.1 {
                *v -= a.0;
            } else {
                *v += a.0;
            }
        }
        modify(&mut self.o, off);
        modify(&mut self.n, off);
        match self.tag {
            Tag::Eq => {
                modify(&mut self.ol, len);
                modify(&mut self.nl, len);
            }
            Tag::Del => modify(&mut self.ol, len),
            Tag::Ins => modify(&mut self.nl, len),
        }
    }
    fn shift_left(&mut self, a: usize) {
        self.adjust((a, true), (0, false))
    }
    fn shift_right(&mut self, a: usize) {
        self.adjust((a, false), (0, false))
    }
    fn grow_left(&mut self, a: usize) {
        self.adjust((a, true), (a, false))
    }
    fn grow_right(&mut self, a: usize) {
        self.adjust((0, false), (a, false))
    }
    fn shrink_left(&mut self, a: usize) {
        self.adjust((0, false), (a, true))
    }
    fn shrink_right(&mut self, a: usize) {
        self.adjust((a, false), (a, true))
    }
}

fn prefix(eq: &dyn Fn(usize, usize) -> bool, o: usize, ol: usize, n: usize, nl: usize) -> usize {
    if ol == 0 || nl == 0 {
        return 0;
    }
    (0..ol.min(nl)).take_while(|k| eq(o + k, n + k)).count()
}

fn suffix(eq: &dyn Fn(usize, usize) -> bool, o: usize, ol: usize, n: usize, nl: usize) -> usize {
    if ol == 0 || nl == 0 {
        return 0;
    }
    (0..ol.min(nl)).take_while(|k| eq(o + ol - 1 - k, n + nl - 1 - k)).count()
}

fn shift_up(ops: &mut Vec<P>, eq: &dyn Fn(usize, usize) -> bool, mut pointer: usize) -> usize {
    while pointer >= 1 && pointer < ops.len() + 0 {
        let prev = ops[pointer - 1];
        let this = ops[pointer];
        match (this.tag, prev.tag) {
            (Tag::Ins, Tag::Eq) => {
                let s = suffix(eq, prev.o, prev.ol, this.n, this.nl);
                if s > 0 {
                    if ops.get(pointer + 1).map(|x| x.tag) == Some(Tag::Eq) {
                        ops[pointer + 1].grow_left(s);
                    } else {
                        ops.insert(pointer + 1, P { tag: Tag::Eq, o: prev.o + prev.ol - s, ol: s, n: this.n + this.nl - s, nl: s });
                    }
                    ops[pointer].shift_left(s);
                    ops[pointer - 1].shrink_left(s);
                    if ops[pointer - 1].is_empty() {
                        ops.remove(pointer - 1);
                        pointer -= 1;
                    }
                } else if ops[pointer - 1].is_empty() {
                    ops.remove(pointer - 1);
                    pointer -= 1;
                } else {
                    break;
                }
            }
            (Tag::Del, Tag::Eq) => {
                // (a Delete's new range is empty: the pinned code never finds a common suffix here)
                let s = suffix(eq, prev.o, prev.ol, this.n, this.nl);
                if s != 0 {
                    unreachable!("pinned reference: a Delete has an empty new range");
                } else if ops[pointer - 1].is_empty() {
                    ops.remove(pointer - 1);
                    pointer -= 1;
                } else {
                    break;
                }
            }
            (Tag::Ins, Tag::Del) | (Tag::Del, Tag::Ins) => {
                // the pinned swap: positions are exchanged, the carried indices are NOT recomputed (KF1)
                ops.swap(pointer - 1, pointer);
                pointer -= 1;
            }
            (Tag::Ins, Tag::Ins) => {
                ops[pointer - 1].grow_right(this.nl);
                ops.remove(pointer);
                pointer -= 1;
            }
            (Tag::Del, Tag::Del) => {
                ops[pointer - 1].grow_right(this.ol);
                ops.remove(pointer);
                pointer -= 1;
            }
            _ => unreachable!("pinned reference: unexpected tag"),
        }
    }
    pointer
}

fn shift_down(ops: &mut Vec<P>, eq: &dyn Fn(usize, usize) -> bool, mut pointer: usize) -> usize {
    while pointer + 1 < ops.len() {
        let next = ops[pointer + 1];
        let this = ops[pointer];
        match (this.tag, next.tag) {
            (Tag::Ins, Tag::Eq) => {
                let p = prefix(eq, next.o, next.ol, this.n, this.nl);
                if p > 0 {
                    if pointer >= 1 && ops[pointer - 1].tag == Tag::Eq {
                        ops[pointer - 1].grow_right(p);
                    } else {
                        ops.insert(pointer, P { tag: Tag::Eq, o: next.o, ol: p, n: this.n, nl: p });
                        pointer += 1;
                    }
                    ops[pointer].shift_right(p);
                    ops[pointer + 1].shrink_right(p);
                    if ops[pointer + 1].is_empty() {
                        ops.remove(pointer + 1);
                    }
                } else if ops[pointer + 1].is_empty() {
                    ops.remove(pointer + 1);
                } else {
                    break;
                }
            }
            (Tag::Del, Tag::Eq) => {
                let p = prefix(eq, next.o, next.ol, this.n, this.nl);
                if p > 0 {
                    unreachable!("pinned reference: a Delete has an empty new range");
                } else if ops[pointer + 1].is_empty() {
                    ops.remove(pointer + 1);
                } else {
                    break;
                }
            }
            (Tag::Ins, Tag::Del) | (Tag::Del, Tag::Ins) => {
                ops.swap(pointer, pointer + 1);
                pointer += 1;
            }
            (Tag::Ins, Tag::Ins) => {
                ops[pointer].grow_right(next.nl);
                ops.remove(pointer + 1);
            }
            (Tag::Del, Tag::Del) => {
                ops[pointer].grow_right(next.ol);
                ops.remove(pointer + 1);
            }
            _ => unreachable!("pinned reference: unexpected tag"),
        }
    }
    pointer
}

/// What the PINNED `Compact<Replace<Capture>>` pipeline captures when it is fed the raw calls `raw` (ops as a
/// bare `Capture` records them).  `eq(o, n)`: old item o equals new item n.  `None` if the raw script
/// contains something the pinned code would not accept either (a Replace call, an internal inconsistency).
pub fn pinned_capture_pipeline(raw: &[DiffOp], eq: &dyn Fn(usize, usize) -> bool) -> Option<Vec<DiffOp>> {
    let r = std::panic::catch_unwind(std::panic::AssertUnwindSafe(|| {
        let mut ops: Vec<P> = Vec::with_capacity(raw.len());
        for op in raw {
            ops.push(match *op {
                DiffOp::Equal { old_index, new_index, len } => P { tag: Tag::Eq, o: old_index, ol: len, n: new_index, nl: len },
                DiffOp::Delete { old_index, old_len, new_index } => P { tag: Tag::Del, o: old_index, ol: old_len, n: new_index, nl: 0 },
                DiffOp::Insert { old_index, new_index, new_len } => P { tag: Tag::Ins, o: old_index, ol: 0, n: new_index, nl: new_len },
                DiffOp::Replace { .. } => return None,
            });
        }
        // pinned cleanup_diff_ops: all Deletes first, then all Inserts
        for which in [Tag::Del, Tag::Ins] {
            let mut pointer = 0;
            while pointer < ops.len() {
                if ops[pointer].tag == which {
                    pointer = shift_up(&mut ops, eq, pointer);
                    pointer = shift_down(&mut ops, eq, pointer);
                }
                pointer += 1;
            }
        }
        // pinned Replace adapter in front of Capture
        let mut out: Vec<DiffOp> = Vec::new();
        let (mut del, mut ins, mut equ): (Option<(usize, usize, usize)>, Option<(usize, usize, usize)>, Option<(usize, usize, usize)>) = (None, None, None);
        fn flush_del_ins(out: &mut Vec<DiffOp>, del: &mut Option<(usize, usize, usize)>, ins: &mut Option<(usize, usize, usize)>) {
            if let Some((o, ol, n)) = del.take() {
                if let Some((_, inn, inl)) = ins.take() {
                    out.push(DiffOp::Replace { old_index: o, old_len: ol, new_index: inn, new_len: inl });
                } else {
                    out.push(DiffOp::Delete { old_index: o, old_len: ol, new_index: n });
                }
            } else if let Some((o, n, nl)) = ins.take() {
                out.push(DiffOp::Insert { old_index: o, new_index: n, new_len: nl });
            }
        }
        for p in &ops {
            match p.tag {
                Tag::Eq => {
                    flush_del_ins(&mut out, &mut del, &mut ins);
                    equ = Some(match equ.take() {
                        Some((o, n, l)) => (o, n, l + p.ol),
                        None => (p.o, p.n, p.ol),
                    });
                }
                Tag::Del => {
                    if let Some((o, n, l)) = equ.take() {
                        out.push(DiffOp::Equal { old_index: o, new_index: n, len: l });
                    }
                    del = Some(match del.take() {
                        Some((o, ol, n)) => (o, ol + p.ol, n),
                        None => (p.o, p.ol, p.n),
                    });
                }
                Tag::Ins => {
                    if let Some((o, n, l)) = equ.take() {
                        out.push(DiffOp::Equal { old_index: o, new_index: n, len: l });
                    }
                    ins = Some(match ins.take() {
                        Some((o, n, nl)) => (o, n, nl + p.nl),
                        None => (p.o, p.n, p.nl),
                    });
                }
            }
        }
        if let Some((o, n, l)) = equ.take() {
            out.push(DiffOp::Equal { old_index: o, new_index: n, len: l });
        }
        flush_del_ins(&mut out, &mut del, &mut ins);
        Some(out)
    }));
    r.ok().flatten()
}
