//! Minimal JSON value + writer (no external crates).

#[derive(Clone, Debug)]
pub enum Json {
    Null,
    Bool(bool),
    Num(f64),
    Str(String),
    Arr(Vec<Json>),
    Obj(Vec<(String, Json)>),
}

impl Json {
    pub fn obj() -> Json {
        Json::Obj(Vec::new())
    }
    pub fn str(s: &str) -> Json {
        Json::Str(s.to_string())
    }
    pub fn num(n: f64) -> Json {
        Json::Num(n)
    }
    pub fn set(&mut self, k: &str, v: Json) {
        if let Json::Obj(o) = self {
            if let Some(e) = o.iter_mut().find(|(kk, _)| kk == k) {
                e.1 = v;
            } else {
                o.push((k.to_string(), v));
            }
        }
    }

    pub fn write(&self, out: &mut String) {
        match self {
            Json::Null => out.push_str("null"),
            Json::Bool(b) => out.push_str(if *b { "true" } else { "false" }),
            Json::Num(n) => {
                if n.is_finite() {
                    if n.fract() == 0.0 && n.abs() < 9.0e15 {
                        out.push_str(&format!("{}", *n as i64));
                    } else {
                        out.push_str(&format!("{}", n));
                    }
                } else {
                    out.push_str("null");
                }
            }
            Json::Str(s) => write_str(s, out),
            Json::Arr(a) => {
                out.push('[');
                for (i, v) in a.iter().enumerate() {
                    if i > 0 {
                        out.push(',');
                    }
                    v.write(out);
                }
                out.push(']');
            }
            Json::Obj(o) => {
                out.push('{');
                for (i, (k, v)) in o.iter().enumerate() {
                    if i > 0 {
                        out.push(',');
                    }
                    write_str(k, out);
                    out.push(':');
                    v.write(out);
                }
                out.push('}');
            }
        }
    }

    pub fn to_string(&self) -> String {
        let mut s = String::new();
        self.write(&mut s);
        s
    }
}

fn write_str(s: &str, out: &mut String) {
    out.push('"');
    for c in s.chars() {
        match c {
            '"' => out.push_str("\\\""),
            '\\' => out.push_str("\\\\"),
            '\n' => out.push_str("\\n"),
            '\r' => out.push_str("\\r"),
            '\t' => out.push_str("\\t"),
            c if (c as u32) < 0x20 || c == '\u{2028}' || c == '\u{2029}' || c == '\u{7f}' => {
                out.push_str(&format!("\\u{:04x}", c as u32))
            }
            c => out.push(c),
        }
    }
    out.push('"');
}
