//! C19 — Myers and Patience do work proportional to (N+M)*(D+1).
//! Decided on counted element comparisons, never on wall-clock time.

use similar::Algorithm;

use crate::engine::{family, guard, Config, Family, Local};
use crate::gen;
use crate::mon::{cmp_count, cmp_reset, CountingElem, CountingKey, TraceMon};
use crate::props::common::*;
use crate::rng::Rng;

pub const FACTOR: u64 = 8;

const FAMILIES: [&str; 9] = [
    "near_identical_few_edits",
    "block_move",
    "periodic_phase_shift",
    "each_item_doubled",
    "truncation",
    "unrelated_small",
    "small_alphabet",
    "prefix_or_suffix_only_change",
    "random_pair",
];

fn big_input(rng: &mut Rng, fam: usize, max: usize) -> (Vec<u32>, Vec<u32>) {
    let n = rng.range(max / 4, max).max(1);
    let distinct = |n: usize| -> Vec<u32> { (0..n as u32).collect() };
    match fam {
        0 => {
            // distinct or small-alphabet base, <= 5 point edits
            let alpha: u32 = *rng.pick(&[3, 50, 1_000_000]);
            let a: Vec<u32> = if alpha == 1_000_000 { distinct(n) } else { (0..n).map(|_| rng.below(alpha as usize) as u32).collect() };
            let k = rng.below(6);
            let b = gen::point_edits(rng, &a, k, alpha, n + 20);
            (a, b)
        }
        1 => {
            let a = if rng.chance(1, 2) { distinct(n) } else { (0..n).map(|_| rng.below(30) as u32).collect() };
            let b = gen::block_move(rng, &a);
            (a, b)
        }
        2 => {
            let period = 2 + rng.below(9) as u32;
            let a: Vec<u32> = (0..n as u32).map(|i| i % period).collect();
            let shift = rng.below(period as usize) as u32;
            let b: Vec<u32> = (0..n as u32).map(|i| (i + shift) % period).collect();
            (a, b)
        }
        3 => {
            let a = if rng.chance(1, 2) { distinct(n / 2 + 1) } else { (0..n / 2 + 1).map(|_| rng.below(20) as u32).collect::<Vec<u32>>() };
            let b: Vec<u32> = a.iter().flat_map(|x| [*x, *x]).collect();
            (a, b)
        }
        4 => {
            let a = if rng.chance(1, 2) { distinct(n) } else { (0..n).map(|_| rng.below(7) as u32).collect() };
            let keep = rng.below(a.len() + 1);
            let b = if rng.chance(1, 2) { a[..keep].to_vec() } else { a[a.len() - keep..].to_vec() };
            (a, b)
        }
        5 => {
            // unrelated: capped (quadratic by nature; the bound scales with D)
            let n = n.min(400);
            let m = rng.range(1, 400);
            let a: Vec<u32> = (0..n as u32).collect();
            let b: Vec<u32> = (0..m as u32).map(|i| 1_000_000 + i).collect();
            (a, b)
        }
        6 => {
            let n = n.min(1500);
            let alpha = 1 + rng.below(3);
            let a: Vec<u32> = (0..n).map(|_| rng.below(alpha) as u32).collect();
            let k = rng.below(8);
            let b = gen::point_edits(rng, &a, k, alpha as u32, n + 30);
            (a, b)
        }
        7 => {
            let a = distinct(n);
            let mut b = a.clone();
            if rng.chance(1, 2) {
                b.insert(0, 9_999_999);
            } else {
                b.push(9_999_999);
            }
            if rng.chance(1, 2) && !b.is_empty() {
                b.remove(b.len() / 2);
            }
            (a, b)
        }
        _ => gen::rand_pair(rng, max.min(400)),
    }
}

fn case(cfg: &Config, alg: Algorithm, a: &[u32], b: &[u32], fam: &str, out: &mut Local) {
    let _ = cfg;
    let ca: Vec<CountingElem> = a.iter().map(|x| CountingElem(*x)).collect();
    let cb: Vec<CountingElem> = b.iter().map(|x| CountingElem(*x)).collect();
    let eq = |o: usize, n: usize| a[o] == b[n];
    let mut mon = TraceMon::new(&eq, 0..a.len(), 0..b.len());
    cmp_reset();
    out.eval();
    let slices_entry = fam.ends_with("(diff_slices)");
    let r = guard(|| if slices_entry { similar::algorithms::diff_slices(alg, &mut mon, &ca[..], &cb[..]) } else { similar::algorithms::diff(alg, &mut mon, &ca[..], 0..ca.len(), &cb[..], 0..cb.len()) });
    let cmps = cmp_count();
    match r {
        Err(p) => out.violation("panic", format!("diff panicked: {} | alg={} family={} N={} M={}", p, alg_name(alg), fam, a.len(), b.len())),
        Ok(_) => {
            mon.finish_check();
            if !mon.failures.is_empty() {
                out.count("invalid_raw_streams_seen_owned_by_C01");
                return;
            }
            let d = mon.cost() as u64;
            let (n, m) = (a.len() as u64, b.len() as u64);
            let bound = FACTOR.saturating_mul(n + m + 1).saturating_mul(d + 1);
            let ratio = cmps as f64 / ((n + m + 1) * (d + 1)) as f64;
            out.max(&format!("comparisons_per_(N+M+1)(D+1).{}", alg_name(alg)), ratio);
            out.max(&format!("comparisons_per_(N+M+1)(D+1).{}.{}", alg_name(alg), fam), ratio);
            out.count_n("comparisons_counted", cmps);
            if n + m >= 1000 && d <= 20 {
                out.count("large_near_identical_cases");
            }
            if cmps > bound {
                out.violation(
                    "work.exceeds_bound",
                    format!(
                        "{} comparisons for N={} M={} D={} (reported script size): more than {}*(N+M+1)*(D+1) = {} | alg={} family={} old={} new={}",
                        cmps, n, m, d, FACTOR, bound, alg_name(alg), fam, fmt_seq(a), fmt_seq(b)
                    ),
                );
            }
        }
    }
    // the same diff as users usually get it: through the capture functions, i.e. including the
    // clean-up stage that slides and merges ops (it compares items too)
    cmp_reset();
    out.eval();
    let r = guard(|| similar::capture_diff_slices(alg, &ca[..], &cb[..]));
    let cmps = cmp_count();
    if let Ok(ops) = r {
        let d: u64 = ops
            .iter()
            .map(|op| match *op {
                similar::DiffOp::Equal { .. } => 0,
                similar::DiffOp::Delete { old_len, .. } => old_len as u64,
                similar::DiffOp::Insert { new_len, .. } => new_len as u64,
                similar::DiffOp::Replace { old_len, new_len, .. } => (old_len + new_len) as u64,
            })
            .sum();
        let (n, m) = (a.len() as u64, b.len() as u64);
        let bound = FACTOR.saturating_mul(n + m + 1).saturating_mul(d + 1);
        let ratio = cmps as f64 / ((n + m + 1) * (d + 1)) as f64;
        out.max(&format!("comparisons_per_(N+M+1)(D+1).{}.captured", alg_name(alg)), ratio);
        out.max(&format!("comparisons_per_(N+M+1)(D+1).{}.captured.{}", alg_name(alg), fam), ratio);
        out.count_n("comparisons_counted", cmps);
        if cmps > bound {
            out.violation(
                "work.exceeds_bound",
                format!(
                    "capture_diff_slices (diff + clean-up of the ops): {} comparisons for N={} M={} D={} (size of the captured script): more than {}*(N+M+1)*(D+1) = {} | alg={} family={} old={} new={}",
                    cmps, n, m, d, FACTOR, bound, alg_name(alg), fam, fmt_seq(a), fmt_seq(b)
                ),
            );
        }
    }
}

/// the same check for arbitrary hashable item types (value structure matters to hashing)
fn case_keys<T: Clone + Eq + std::hash::Hash + Ord + std::fmt::Debug>(alg: Algorithm, a: &[T], b: &[T], fam: &str, out: &mut Local) {
    let ca: Vec<CountingKey<T>> = a.iter().cloned().map(CountingKey).collect();
    let cb: Vec<CountingKey<T>> = b.iter().cloned().map(CountingKey).collect();
    let eq = |o: usize, n: usize| a[o] == b[n];
    let mut mon = TraceMon::new(&eq, 0..a.len(), 0..b.len());
    cmp_reset();
    out.eval();
    let r = guard(|| similar::algorithms::diff(alg, &mut mon, &ca[..], 0..ca.len(), &cb[..], 0..cb.len()));
    let cmps = cmp_count();
    match r {
        Err(p) => out.violation("panic", format!("diff panicked: {} | alg={} family={} N={} M={}", p, alg_name(alg), fam, a.len(), b.len())),
        Ok(_) => {
            mon.finish_check();
            if !mon.failures.is_empty() {
                out.count("invalid_raw_streams_seen_owned_by_C01");
                return;
            }
            let d = mon.cost() as u64;
            let (n, m) = (a.len() as u64, b.len() as u64);
            let bound = FACTOR.saturating_mul(n + m + 1).saturating_mul(d + 1);
            let ratio = cmps as f64 / ((n + m + 1) * (d + 1)) as f64;
            out.max(&format!("comparisons_per_(N+M+1)(D+1).{}.{}", alg_name(alg), fam), ratio);
            out.count_n("comparisons_counted", cmps);
            if cmps > bound {
                out.violation(
                    "work.exceeds_bound",
                    format!(
                        "{} comparisons for N={} M={} D={} (reported script size): more than {}*(N+M+1)*(D+1) = {} | alg={} family={} first items old={:?} new={:?}",
                        cmps, n, m, d, FACTOR, bound, alg_name(alg), fam, &a[..a.len().min(4)], &b[..b.len().min(4)]
                    ),
                );
            }
        }
    }
}

pub fn families() -> Vec<Box<dyn Family>> {
    vec![
        family(
            "value_structure",
            "near-identical inputs (3000..60000 items, <= 3 edits) whose item VALUES have structure that weak hashing would collide on: u64 multiples of 2^16 / 2^32 / 4096, values differing only in their high bits, byte-swapped counters, and fixed-layout 96-byte String records that differ only in a middle field x {Myers, Patience}",
            false,
            1,
            |cfg| if cfg.tiny { 2 } else { cfg.tier.pick(16, 96) },
            |idx, cfg, out| {
                let mut rng = Rng::for_case(cfg.seed, "c19.value_structure", idx);
                let n = if cfg.tiny { 12 } else { rng.range(3000, cfg.tier.pick(40_000, 60_000)) };
                let kind = idx % 8;
                let f = |i: u64| -> u64 {
                    match kind {
                        0 => i << 16,
                        1 => i << 32,
                        2 => i * 4096,
                        3 => (i << 40) | 0xabcd,
                        4 => i.swap_bytes(),
                        5 => i.wrapping_mul(0x1_0000_0001),
                        _ => i << 20,
                    }
                };
                out.count("value_structure_cases");
                if kind == 7 {
                    // fixed-layout records: same length, same head and tail, id in the middle
                    let n = n.min(if cfg.tiny { 12 } else { 6000 });
                    let rec = |i: usize| format!("{:<40}|id={:012}|{:>38}", "2026-10-04T00:00:00Z INFO service=api", i, "status=ok latency_ms=12 region=eu-1");
                    let a: Vec<String> = (0..n).map(rec).collect();
                    let mut b = a.clone();
                    let i = rng.below(b.len());
                    b[i] = rec(n + 7);
                    out.sample(|| format!("{} records of {} bytes, one replaced: {:?}", n, a[0].len(), a[0]));
                    for alg in [Algorithm::Myers, Algorithm::Patience] {
                        out.nontrivial(&(alg_name(alg), "records", n, idx));
                        case_keys(alg, &a, &b, "long_records", out);
                    }
                    return;
                }
                let a: Vec<u64> = (0..n as u64).map(f).collect();
                let mut b = a.clone();
                for _ in 0..1 + rng.below(3) {
                    let i = rng.below(b.len());
                    b[i] = f(n as u64 + 100 + i as u64);
                }
                out.sample(|| format!("{} items, value pattern #{}: {:x?}", n, kind, &a[..a.len().min(4)]));
                for alg in [Algorithm::Myers, Algorithm::Patience] {
                    out.nontrivial(&(alg_name(alg), kind, n, idx));
                    case_keys(alg, &a, &b, "value_structure", out);
                }
            },
        ),
        family(
            "byte_sized_items",
            "items of ONE BYTE (size_of == 1): (a) two unrelated byte strings of 300..900 items (large D), (b) near-identical byte strings of 1000..4000 items with up to 256 distinct values and <= 3 edits (small D), (c) identical ones x {Myers, Patience} - the work bound must not depend on the size of the item type",
            false,
            1,
            |cfg| cfg.n(60, 600),
            |idx, cfg, out| {
                use crate::mon::CountingByte;
                let mut rng = Rng::for_case(cfg.seed, "c19.byte_items", idx);
                let (a, b): (Vec<u8>, Vec<u8>) = match idx % 3 {
                    0 => {
                        let (n, m) = if cfg.tiny { (8, 9) } else { (rng.range(300, 900), rng.range(300, 900)) };
                        ((0..n).map(|i| (i % 100) as u8).collect(), (0..m).map(|i| 128 + (i % 100) as u8).collect())
                    }
                    k => {
                        let n = if cfg.tiny { 12 } else { rng.range(1000, 4000) };
                        let alpha = *rng.pick(&[4usize, 50, 256]);
                        let a: Vec<u8> = (0..n).map(|_| rng.below(alpha) as u8).collect();
                        let mut b = a.clone();
                        if k == 1 {
                            for _ in 0..1 + rng.below(3) {
                                let i = rng.below(b.len());
                                match rng.below(3) {
                                    0 => b[i] = b[i].wrapping_add(1 + rng.below(7) as u8),
                                    1 => {
                                        b.remove(i);
                                    }
                                    _ => b.insert(i, rng.below(alpha) as u8),
                                }
                            }
                        }
                        (a, b)
                    }
                };
                out.sample(|| format!("N={} M={} one-byte items (shape {})", a.len(), b.len(), idx % 3));
                out.nontrivial(&("bytes", a.len(), b.len(), idx));
                out.count("byte_item_cases");
                let ca: Vec<CountingByte> = a.iter().map(|x| CountingByte(*x)).collect();
                let cb: Vec<CountingByte> = b.iter().map(|x| CountingByte(*x)).collect();
                for alg in [Algorithm::Myers, Algorithm::Patience] {
                    for entry in 0..2 {
                        cmp_reset();
                        out.eval();
                        let r = guard(|| {
                            if entry == 0 {
                                let mut c = similar::algorithms::Capture::new();
                                similar::algorithms::diff(alg, &mut c, &ca[..], 0..ca.len(), &cb[..], 0..cb.len()).unwrap();
                                c.into_ops()
                            } else {
                                similar::capture_diff_slices(alg, &ca[..], &cb[..])
                            }
                        });
                        let cmps = cmp_count();
                        match r {
                            Err(p) => out.violation("panic", format!("diff of byte items panicked: {}", p)),
                            Ok(ops) => {
                                let d: u64 = ops.iter().map(|op| if op.tag() == similar::DiffTag::Equal { 0 } else { (op.old_range().len() + op.new_range().len()) as u64 }).sum();
                                let (n, m) = (a.len() as u64, b.len() as u64);
                                let bound = FACTOR.saturating_mul(n + m + 1).saturating_mul(d + 1);
                                out.max(&format!("comparisons_per_(N+M+1)(D+1).{}.byte_sized_items", alg_name(alg)), cmps as f64 / ((n + m + 1) * (d + 1)) as f64);
                                out.count_n("comparisons_counted", cmps);
                                if cmps > bound {
                                    out.violation(
                                        "work.exceeds_bound",
                                        format!("{} on ONE-BYTE items: {} comparisons for N={} M={} D={}: more than {}*(N+M+1)*(D+1) = {} | alg={} old={} new={}", ["algorithms::diff", "capture_diff_slices"][entry], cmps, n, m, d, FACTOR, bound, alg_name(alg), fmt_seq(&a), fmt_seq(&b)),
                                    );
                                }
                            }
                        }
                    }
                }
            },
        ),
        family(
            "coarse_hash_items",
            "Myers only needs PartialEq: near-identical inputs (2000..20000 items, <= 3 edits) of an item type whose legal Hash is COARSE (only value % 3 is hashed) through algorithms::diff, diff_slices and capture_diff_slices - the work must not depend on how well the items hash (Patience is not run here: its unique-item table legitimately hashes the items)",
            false,
            1,
            |cfg| if cfg.tiny { 1 } else { cfg.tier.pick(6, 40) },
            |idx, cfg, out| {
                use crate::mon::CoarseHashElem;
                let mut rng = Rng::for_case(cfg.seed, "c19.coarse_hash", idx);
                let n = if cfg.tiny { 12 } else { rng.range(2000, cfg.tier.pick(8000, 20_000)) };
                let a: Vec<CoarseHashElem> = (0..n as u64).map(CoarseHashElem).collect();
                let mut b = a.clone();
                for _ in 0..1 + rng.below(3) {
                    let i = rng.below(b.len());
                    match rng.below(3) {
                        0 => b[i] = CoarseHashElem(1_000_000 + i as u64),
                        1 => {
                            b.remove(i);
                        }
                        _ => b.insert(i, CoarseHashElem(2_000_000 + i as u64)),
                    }
                }
                out.sample(|| format!("N={} M={} items hashing to 3 buckets", a.len(), b.len()));
                out.nontrivial(&("coarse", n, idx));
                out.count("coarse_hash_cases");
                for entry in 0..3 {
                    cmp_reset();
                    out.eval();
                    let r = guard(|| match entry {
                        0 => {
                            let mut c = similar::algorithms::Capture::new();
                            similar::algorithms::diff(Algorithm::Myers, &mut c, &a[..], 0..a.len(), &b[..], 0..b.len()).unwrap();
                            c.into_ops()
                        }
                        1 => {
                            let mut c = similar::algorithms::Capture::new();
                            similar::algorithms::diff_slices(Algorithm::Myers, &mut c, &a[..], &b[..]).unwrap();
                            c.into_ops()
                        }
                        _ => similar::capture_diff_slices(Algorithm::Myers, &a[..], &b[..]),
                    });
                    let cmps = cmp_count();
                    let name = ["algorithms::diff", "algorithms::diff_slices", "capture_diff_slices"][entry];
                    match r {
                        Err(p) => out.violation("panic", format!("{} panicked: {}", name, p)),
                        Ok(ops) => {
                            let d: u64 = ops.iter().map(|op| if op.tag() == similar::DiffTag::Equal { 0 } else { (op.old_range().len() + op.new_range().len()) as u64 }).sum();
                            let (n, m) = (a.len() as u64, b.len() as u64);
                            let bound = FACTOR.saturating_mul(n + m + 1).saturating_mul(d + 1);
                            out.max("comparisons_per_(N+M+1)(D+1).myers.coarse_hash_items", cmps as f64 / ((n + m + 1) * (d + 1)) as f64);
                            out.count_n("comparisons_counted", cmps);
                            if cmps > bound {
                                out.violation("work.exceeds_bound", format!("{} with Myers: {} comparisons for N={} M={} D={}: more than {}*(N+M+1)*(D+1) = {} | items hash to 3 buckets only (legal), Myers needs no hashing", name, cmps, n, m, d, FACTOR, bound));
                            }
                        }
                    }
                }
            },
        ),
        family(
            "big",
            "G-BIG: 9 structured families (near-identical with <= 5 edits, block move, periodic with phase shift, every item doubled, truncation, unrelated (capped 400x400), small alphabet, change only at the very start/end, random) with up to 4000 (quick) / 20000 (thorough) items x {Myers, Patience}; items count PartialEq calls; D = size of the script reported in that very run; violation: comparisons > 8*(N+M+1)*(D+1); non-trivial = N+M >= 200",
            false,
            2,
            |cfg| cfg.n(1_800, 12_000),
            |idx, cfg, out| {
                let mut rng = Rng::for_case(cfg.seed, "c19.big", idx);
                let fam = (idx % FAMILIES.len() as u64) as usize;
                let max = if cfg.tiny { 12 } else { cfg.tier.pick(4000, 20000) };
                let max = if rng.chance(1, 3) { max / 10 + 4 } else { max };
                let (a, b) = big_input(&mut rng, fam, max);
                for alg in [Algorithm::Myers, Algorithm::Patience] {
                    if a.len() + b.len() >= 200 {
                        out.nontrivial(&(alg_name(alg), &a, &b));
                    }
                    case(cfg, alg, &a, &b, FAMILIES[fam], out);
                }
                out.sample(|| format!("family={} N={} M={} old={} new={}", FAMILIES[fam], a.len(), b.len(), fmt_seq(&a), fmt_seq(&b)));
            },
        ),
        family(
            "huge_near_identical",
            "near-identical inputs of 100 000 .. 1 000 000 items (distinct items or alphabet 50; <= 4 point edits; thorough: more cases) x {Myers, Patience}: on such inputs the work must stay near-linear — equal runs of hundreds of thousands of items between two edits",
            false,
            1,
            |cfg| if cfg.tiny { 1 } else { cfg.tier.pick(6, 30) },
            |idx, cfg, out| {
                let mut rng = Rng::for_case(cfg.seed, "c19.huge", idx);
                let n = if cfg.tiny { 20 } else { *rng.pick(&[100_000usize, 300_000, 500_000, 1_000_000]) };
                let alpha: u32 = if rng.chance(1, 2) { 1_000_000_000 } else { 50 };
                let a: Vec<u32> = if alpha > 50 { (0..n as u32).collect() } else { (0..n).map(|_| rng.below(50) as u32).collect() };
                let mut b = a.clone();
                // half of the cases: exactly two edits near the two ends, i.e. ONE equal run of about
                // 0.9 N items between them (the work on such a run must be linear in its length)
                let far_apart = idx % 2 == 0;
                let positions: Vec<usize> = if far_apart { vec![n / 20 + rng.below(n / 50 + 1), n - n / 20 - rng.below(n / 50 + 1)] } else { (0..1 + rng.below(4)).map(|_| rng.below(n)).collect() };
                for i in positions {
                    let i = i.min(b.len() - 1);
                    match rng.below(3) {
                        0 => b[i] = 2_000_000_000 + rng.below(1000) as u32,
                        1 => {
                            b.remove(i);
                        }
                        _ => b.insert(i, 2_000_000_000 + rng.below(1000) as u32),
                    }
                }
                out.sample(|| format!("N={} M={} alphabet {}", a.len(), b.len(), if alpha > 50 { "distinct".to_string() } else { "50".to_string() }));
                out.count("huge_near_identical_cases");
                for alg in [Algorithm::Myers, Algorithm::Patience] {
                    out.nontrivial(&(alg_name(alg), n, idx));
                    case(cfg, alg, &a, &b, "huge_near_identical", out);
                }
            },
        ),
        family(
            "huge_identical_shuffled",
            "IDENTICAL inputs and inputs with one point edit (D = 0..2) of 2^18 .. 2^20 items (thorough 2^22) whose values are a random permutation of distinct numbers or random draws from a large alphabet - i.e. NOT presorted - x {Myers, Patience} x {algorithms::diff, algorithms::diff_slices}: every kind of element comparison is counted (==, and cmp / partial_cmp of Ord), so an N log N pre-pass (sorting, tree maps) over the items shows up against the linear bound",
            false,
            1,
            |cfg| if cfg.tiny { 1 } else { cfg.tier.pick(8, 24) },
            |idx, cfg, out| {
                let mut rng = Rng::for_case(cfg.seed, "c19.shuffled", idx);
                let n = if cfg.tiny { 24 } else { *rng.pick(&[1usize << 18, 1 << 19, 1 << 20, 1 << cfg.tier.pick(20, 22)]) };
                let mut a: Vec<u32> = if idx % 3 == 2 { (0..n).map(|_| rng.below(1 << 30) as u32).collect() } else { (0..n as u32).collect() };
                if idx % 3 != 2 {
                    // Fisher-Yates
                    for i in (1..n).rev() {
                        let j = rng.below(i + 1);
                        a.swap(i, j);
                    }
                }
                let mut b = a.clone();
                let edits = (idx / 3 % 2) as usize; // 0: identical, 1: one substitution
                if edits == 1 {
                    let i = rng.below(n);
                    b[i] = 3_000_000_000 + rng.below(1000) as u32;
                }
                let entry = if idx % 2 == 0 { "huge_identical_shuffled (diff_slices)" } else { "huge_identical_shuffled" };
                out.sample(|| format!("N=M={} shuffled values, {} edit(s), {}", n, edits, entry));
                out.count("huge_identical_shuffled_cases");
                for alg in [Algorithm::Myers, Algorithm::Patience] {
                    out.nontrivial(&(alg_name(alg), n, idx));
                    case(cfg, alg, &a, &b, entry, out);
                }
            },
        ),
        family(
            "unique_and_repeated_between_anchors",
            "near-identical inputs (200 .. 20000 items; D = 0..6) that MIX items occurring once with repeated items between them (large alphabet with random duplicates; records followed by repeated separators; unique headers over repeated bodies), so that Patience finds many anchors with gaps of repeated items in between - the work on those gaps must stay proportional to the gap x {Patience, Myers}",
            false,
            1,
            |cfg| if cfg.tiny { 2 } else { cfg.tier.pick(120, 1200) },
            |idx, cfg, out| {
                let mut rng = Rng::for_case(cfg.seed, "c19.mixed", idx);
                let n = if cfg.tiny { 16 } else { *rng.pick(&[200usize, 1000, 3000, 8000, cfg.tier.pick(8000, 20_000)]) };
                let a: Vec<u32> = match idx % 3 {
                    0 => {
                        // large alphabet with random duplicates: about a third of the items repeat
                        (0..n).map(|i| if rng.chance(1, 3) { rng.below(n / 8 + 2) as u32 } else { 1_000_000 + i as u32 }).collect()
                    }
                    1 => {
                        // unique record, then 1..4 copies of one of 3 separators
                        let mut v = Vec::with_capacity(n);
                        let mut i = 0u32;
                        while v.len() < n {
                            v.push(1_000_000 + i);
                            i += 1;
                            let sep = rng.below(3) as u32;
                            for _ in 0..1 + rng.below(4) {
                                v.push(sep);
                            }
                        }
                        v
                    }
                    _ => {
                        // unique header followed by a repeated body pattern r s r s
                        let mut v = Vec::with_capacity(n);
                        let mut i = 0u32;
                        while v.len() < n {
                            v.push(1_000_000 + i);
                            i += 1;
                            for k in 0..2 + rng.below(6) {
                                v.push((k % 2) as u32);
                            }
                        }
                        v
                    }
                };
                let mut b = a.clone();
                for _ in 0..rng.below(4) {
                    let i = rng.below(b.len());
                    match rng.below(3) {
                        0 => b[i] = 2_000_000_000 + rng.below(1000) as u32,
                        1 => {
                            b.remove(i);
                        }
                        _ => {
                            let x = b[rng.below(b.len())];
                            b.insert(i, x);
                        }
                    }
                }
                out.sample(|| format!("N={} M={} mixture kind {} old={}", a.len(), b.len(), idx % 3, fmt_seq(&a)));
                out.count("mixed_unique_repeated_cases");
                for alg in [Algorithm::Patience, Algorithm::Myers] {
                    out.nontrivial(&(alg_name(alg), n, idx));
                    case(cfg, alg, &a, &b, "unique_and_repeated", out);
                }
            },
        ),
        family(
            "buffer_reuse",
            "TWO diffs in a row on the SAME buffers (same address, same length, contents replaced in place): first two permutations of unique items (a large edit distance), then near-identical low-entropy contents (D <= 2): the second diff's work is judged on its own - nothing learnt about the first tenant of the memory may leak into it x {Patience, Myers}",
            false,
            1,
            |cfg| if cfg.tiny { 2 } else { cfg.tier.pick(40, 200) },
            |idx, cfg, out| {
                let mut rng = Rng::for_case(cfg.seed, "c19.buffer_reuse", idx);
                let n = if cfg.tiny { 16 } else { *rng.pick(&[500usize, 2000, 4000, 8000]) };
                for alg in [Algorithm::Patience, Algorithm::Myers] {
                    let mut ca: Vec<CountingElem> = (0..n as u32).map(|i| CountingElem(1_000_000 + i)).collect();
                    let mut cb: Vec<CountingElem> = (0..n as u32).map(|i| CountingElem(1_000_000 + (i * 7919) % n as u32)).collect();
                    // first tenant (kept cheap: Patience anchors / a bounded Myers run on 500 items)
                    if alg == Algorithm::Patience || n <= 500 {
                        let _ = guard(|| similar::capture_diff_slices(alg, &ca[..], &cb[..]));
                    } else {
                        let _ = guard(|| similar::capture_diff_slices(Algorithm::Patience, &ca[..], &cb[..]));
                    }
                    // second tenant, written in place
                    let vals: Vec<u32> = (0..n).map(|i| if idx % 2 == 0 { (i % 5) as u32 } else { rng.below(40) as u32 }).collect();
                    for (i, x) in vals.iter().enumerate() {
                        ca[i] = CountingElem(*x);
                        cb[i] = CountingElem(*x);
                    }
                    let edits = (idx / 2 % 3) as usize;
                    for _ in 0..edits.min(1) {
                        let i = rng.below(n);
                        cb[i] = CountingElem(77_777);
                    }
                    let a: Vec<u32> = ca.iter().map(|x| x.0).collect();
                    let b: Vec<u32> = cb.iter().map(|x| x.0).collect();
                    let eq = |o: usize, nn: usize| a[o] == b[nn];
                    let mut mon = TraceMon::new(&eq, 0..n, 0..n);
                    cmp_reset();
                    out.eval();
                    let r = guard(|| similar::algorithms::diff_slices(alg, &mut mon, &ca[..], &cb[..]));
                    let cmps = cmp_count();
                    out.count("buffer_reuse_runs");
                    out.nontrivial(&(alg_name(alg), n, idx));
                    if r.is_ok() {
                        mon.finish_check();
                        if mon.failures.is_empty() {
                            let d = mon.cost() as u64;
                            let bound = FACTOR * (2 * n as u64 + 1) * (d + 1);
                            out.max(&format!("comparisons_per_(N+M+1)(D+1).{}.buffer_reuse", alg_name(alg)), cmps as f64 / ((2 * n as u64 + 1) * (d + 1)) as f64);
                            if cmps > bound {
                                out.violation(
                                    "work.exceeds_bound",
                                    format!("{} comparisons for N=M={} D={}: more than {}*(N+M+1)*(D+1) = {} | alg={} second diff on buffers that held two permutations of {} unique items during the previous diff (same address and length) | old={} new={}", cmps, n, d, FACTOR, bound, alg_name(alg), n, fmt_seq(&a), fmt_seq(&b)),
                                );
                            }
                        }
                    }
                }
                out.sample(|| format!("N=M={} two tenants of the same buffers", n));
            },
        ),
        family(
            "edit_inside_long_run",
            "a run of 1000 .. 50000 items that is constant or periodic (period 1..3) with ONE insertion / deletion of 1..5 items that repeat the run's own pattern, at the start, in the middle or at the end, between unique head and tail items: the diff itself is trivial (D <= 5) and sliding the edit along the run during clean-up must stay linear x {Myers, Patience} x {raw, captured}",
            false,
            1,
            |cfg| if cfg.tiny { 2 } else { cfg.tier.pick(72, 360) },
            |idx, cfg, out| {
                let mut rng = Rng::for_case(cfg.seed, "c19.edit_in_run", idx);
                let r = if cfg.tiny { 12 } else { *rng.pick(&[1000usize, 3000, 10_000, cfg.tier.pick(20_000, 50_000)]) };
                let period = 1 + (idx % 3) as usize;
                let l = 1 + rng.below(5);
                let run = |k: usize| -> Vec<u32> { (0..k).map(|i| (i % period) as u32).collect() };
                let mut a: Vec<u32> = vec![100, 101];
                a.extend(run(r));
                a.extend_from_slice(&[200, 201]);
                let mut b = a.clone();
                let at = 2 + match idx / 3 % 3 {
                    0 => 0,
                    1 => r / 2,
                    _ => r,
                };
                let at = at - at % period.max(1) + 2 % period.max(1);
                let at = at.min(2 + r);
                if idx % 2 == 0 {
                    // insert l items continuing the pattern
                    let ins: Vec<u32> = (0..l).map(|i| ((at - 2 + i) % period) as u32).collect();
                    b.splice(at..at, ins);
                } else {
                    let e = (at + l).min(2 + r);
                    b.drain(at..e);
                }
                let (a, b) = if rng.chance(1, 2) { (a, b) } else { (b, a) };
                out.sample(|| format!("run of {} items with period {}, edit of {} items at {}", r, period, l, at));
                out.count("edit_inside_long_run_cases");
                for alg in [Algorithm::Myers, Algorithm::Patience] {
                    out.nontrivial(&(alg_name(alg), r, period, l, at, idx % 2));
                    case(cfg, alg, &a, &b, "edit_inside_long_run", out);
                }
            },
        ),
        family(
            "nested_unique",
            "nested uniqueness: S = u2 u3 u2 u4 u3 u5 u4 ... (every item occurs twice, interleaved) behind a core that differs between old and new (D = 2..40), L = 100..3000: anchors exist at every nesting level",
            false,
            1,
            |cfg| if cfg.tiny { 1 } else { cfg.tier.pick(24, 120) },
            |idx, cfg, out| {
                let mut rng = Rng::for_case(cfg.seed, "c19.nested", idx);
                let l = if cfg.tiny { 8 } else { *rng.pick(&[100usize, 500, 1000, 3000]) };
                let mut s: Vec<u32> = vec![2];
                for k in 3..=l as u32 {
                    s.push(k);
                    s.push(k - 1);
                }
                let core = 1 + rng.below(20);
                let mut a: Vec<u32> = (0..core as u32).map(|i| 1_000_000 + i).collect();
                let mut b: Vec<u32> = (0..core as u32).map(|i| 2_000_000 + i).collect();
                match rng.below(3) {
                    0 => {
                        a.extend_from_slice(&s);
                        b.extend_from_slice(&s);
                    }
                    1 => {
                        let mut a2 = s.clone();
                        a2.extend_from_slice(&a);
                        let mut b2 = s.clone();
                        b2.extend_from_slice(&b);
                        a = a2;
                        b = b2;
                    }
                    _ => {
                        let mid = s.len() / 2;
                        let mut a2 = s[..mid].to_vec();
                        a2.extend_from_slice(&a);
                        a2.extend_from_slice(&s[mid..]);
                        let mut b2 = s[..mid].to_vec();
                        b2.extend_from_slice(&b);
                        b2.extend_from_slice(&s[mid..]);
                        a = a2;
                        b = b2;
                    }
                }
                out.sample(|| format!("nested sequence of {} items, differing core of {} items", s.len(), core));
                out.count("nested_unique_cases");
                for alg in [Algorithm::Myers, Algorithm::Patience] {
                    out.nontrivial(&(alg_name(alg), l, core, idx));
                    case(cfg, alg, &a, &b, "nested_unique", out);
                }
            },
        ),
        family(
            "small_exh",
            "every ordered pair over {0,1,2} with length <= 5 (thorough <= 6) x {Myers, Patience}: the bound must also hold at the small end",
            true,
            256,
            |cfg| {
                let n = gen::all_seqs(3, if cfg.tiny { 2 } else { cfg.tier.pick(5, 6) }).len() as u64;
                n * n
            },
            |idx, cfg, out| {
                let seqs = gen::all_seqs(3, if cfg.tiny { 2 } else { cfg.tier.pick(5, 6) });
                let (a, b) = gen::pair_of(seqs, idx);
                let a: Vec<u32> = a.iter().map(|x| *x as u32).collect();
                let b: Vec<u32> = b.iter().map(|x| *x as u32).collect();
                for alg in [Algorithm::Myers, Algorithm::Patience] {
                    if !a.is_empty() && !b.is_empty() && a != b {
                        out.nontrivial(&(alg_name(alg), &a, &b));
                    }
                    case(cfg, alg, &a, &b, "small_exhaustive", out);
                }
                out.sample(|| format!("old={:?} new={:?}", a, b));
            },
        ),
    ]
}
