//! C17 — remapped slices are the original substrings and reconstruct both texts.

use similar::utils::{self, TextDiffRemapper};
use similar::{Algorithm, ChangeTag, DiffableStr, TextDiff};

use crate::engine::{family, guard, Family, Local};
use crate::props::common::*;
use crate::rng::Rng;
use crate::text_gen;
use crate::tok_ref::show;

const TOKS: [&str; 5] = ["lines", "words", "chars", "unicode_words", "graphemes"];

fn within(outer: &[u8], inner: &[u8]) -> Option<usize> {
    let o = outer.as_ptr() as usize;
    let i = inner.as_ptr() as usize;
    if i >= o && i + inner.len() <= o + outer.len() {
        Some(i - o)
    } else {
        None
    }
}

/// checks the remapper on one text diff; returns failures
fn check_remapper<T: DiffableStr + ?Sized>(d: &TextDiff<'_, '_, '_, T>, old: &T, new: &T) -> (Vec<(&'static str, String)>, u64) {
    let mut fails: Vec<(&'static str, String)> = Vec::new();
    let remapper = TextDiffRemapper::from_text_diff(d, old, new);
    let remapper2 = TextDiffRemapper::new(d.old_slices(), d.new_slices(), old, new);
    let ob = old.as_bytes();
    let nb = new.as_bytes();
    let (mut rebuilt_old, mut rebuilt_new) = (Vec::new(), Vec::new());
    let (mut opos, mut npos) = (0usize, 0usize);
    let mut slices = 0u64;
    for (oi, op) in d.ops().iter().enumerate() {
        let by_tokens: Vec<(ChangeTag, Vec<u8>)> = op
            .iter_slices(d.old_slices(), d.new_slices())
            .map(|(t, toks)| (t, toks.iter().flat_map(|x| x.as_bytes().iter().copied()).collect()))
            .collect();
        let remapped: Vec<(ChangeTag, &T)> = remapper.iter_slices(op).collect();
        let remapped2: Vec<(ChangeTag, Vec<u8>)> = remapper2.iter_slices(op).map(|(t, s)| (t, s.as_bytes().to_vec())).collect();
        if oi == 0 || oi + 1 == d.ops().len() {
            let f = iter_battery(&|| remapper.iter_slices(op), &|(t, s): (ChangeTag, &T)| format!("{:?} {:?}", t, s.as_bytes()), oi as u64 + 3);
            if let Some(f) = f.first() {
                fails.push(("remap.iterator_protocol", format!("op #{} {:?}: TextDiffRemapper::iter_slices: {}", oi, op, f)));
            }
        }
        let tags_a: Vec<ChangeTag> = by_tokens.iter().map(|x| x.0).collect();
        let tags_b: Vec<ChangeTag> = remapped.iter().map(|x| x.0).collect();
        if tags_a != tags_b {
            fails.push(("remap.tags", format!("op #{} {:?}: remapped tags {:?} but slice-wise expansion {:?}", oi, op, tags_b, tags_a)));
            continue;
        }
        if remapped.iter().map(|x| (x.0, x.1.as_bytes().to_vec())).collect::<Vec<_>>() != remapped2 {
            fails.push(("remap.constructors_differ", format!("op #{}: TextDiffRemapper::new and ::from_text_diff disagree", oi)));
        }
        for ((tag, s), (_, concat)) in remapped.iter().zip(by_tokens.iter()) {
            slices += 1;
            let sb = s.as_bytes();
            if sb.is_empty() {
                fails.push(("remap.empty_slice", format!("op #{} {:?}: empty {:?} slice", oi, op, tag)));
            }
            if sb != &concat[..] {
                fails.push((
                    "remap.not_concatenation_of_tokens",
                    format!("op #{} {:?}: {:?} slice {} but its tokens concatenate to {}", oi, op, tag, show(sb), show(concat)),
                ));
            }
            // must be the substring of the original at the cumulative offset
            if *tag != ChangeTag::Insert {
                match within(ob, sb) {
                    Some(off) if off == opos => {}
                    other => fails.push(("remap.not_original_substring", format!("op #{} {:?}: {:?} slice is at {:?} of the old text, expected offset {}", oi, op, tag, other, opos))),
                }
                rebuilt_old.extend_from_slice(sb);
                opos += sb.len();
            }
            if *tag != ChangeTag::Delete {
                if *tag == ChangeTag::Insert {
                    match within(nb, sb) {
                        Some(off) if off == npos => {}
                        other => fails.push(("remap.not_original_substring", format!("op #{} {:?}: Insert slice is at {:?} of the new text, expected offset {}", oi, op, other, npos))),
                    }
                }
                rebuilt_new.extend_from_slice(sb);
                npos += sb.len();
            }
        }
        // slice_old / slice_new on the op's ranges
        let (or, nr) = (op.old_range(), op.new_range());
        if !or.is_empty() {
            match remapper.slice_old(or.clone()) {
                Some(s) => {
                    let want: Vec<u8> = d.old_slices()[or.clone()].iter().flat_map(|x| x.as_bytes().iter().copied()).collect();
                    if s.as_bytes() != &want[..] {
                        fails.push(("remap.slice_old", format!("slice_old({:?}) = {} but the tokens are {}", or, show(s.as_bytes()), show(&want))));
                    }
                }
                None => fails.push(("remap.slice_old", format!("slice_old({:?}) = None for an in-bounds range", or))),
            }
        }
        if !nr.is_empty() {
            match remapper.slice_new(nr.clone()) {
                Some(s) => {
                    let want: Vec<u8> = d.new_slices()[nr.clone()].iter().flat_map(|x| x.as_bytes().iter().copied()).collect();
                    if s.as_bytes() != &want[..] {
                        fails.push(("remap.slice_new", format!("slice_new({:?}) = {} but the tokens are {}", nr, show(s.as_bytes()), show(&want))));
                    }
                }
                None => fails.push(("remap.slice_new", format!("slice_new({:?}) = None for an in-bounds range", nr))),
            }
        }
    }
    if fails.is_empty() {
        if rebuilt_old != ob {
            fails.push(("remap.old_not_reconstructed", format!("non-Insert slices concatenate to {}", show(&rebuilt_old))));
        }
        if rebuilt_new != nb {
            fails.push(("remap.new_not_reconstructed", format!("non-Delete slices concatenate to {}", show(&rebuilt_new))));
        }
    }
    (fails, slices)
}

fn diff_with<'a, T: DiffableStr + ?Sized>(tok: usize, alg: Algorithm, a: &'a T, b: &'a T) -> TextDiff<'a, 'a, 'a, T> {
    let mut c = TextDiff::configure();
    c.algorithm(alg);
    match tok {
        0 => c.diff_lines(a, b),
        1 => c.diff_words(a, b),
        2 => c.diff_chars(a, b),
        #[cfg(feature = "unicode")]
        3 => c.diff_unicode_words(a, b),
        #[cfg(feature = "unicode")]
        4 => c.diff_graphemes(a, b),
        _ => c.diff_chars(a, b),
    }
}

fn helper<'x, T: DiffableStr + ?Sized>(tok: usize, alg: Algorithm, a: &'x T, b: &'x T) -> Vec<(ChangeTag, &'x T)> {
    match tok {
        0 => utils::diff_lines(alg, a, b),
        1 => utils::diff_words(alg, a, b),
        2 => utils::diff_chars(alg, a, b),
        #[cfg(feature = "unicode")]
        3 => utils::diff_unicode_words(alg, a, b),
        #[cfg(feature = "unicode")]
        4 => utils::diff_graphemes(alg, a, b),
        _ => utils::diff_chars(alg, a, b),
    }
}

fn check_helper(got: &[(ChangeTag, Vec<u8>)], a: &[u8], b: &[u8]) -> Vec<(&'static str, String)> {
    let mut f = Vec::new();
    let (mut o, mut n) = (Vec::new(), Vec::new());
    for (i, (tag, s)) in got.iter().enumerate() {
        if s.is_empty() {
            f.push(("helper.empty_slice", format!("result #{} ({:?}) is an empty slice", i, tag)));
        }
        if *tag != ChangeTag::Insert {
            o.extend_from_slice(s);
        }
        if *tag != ChangeTag::Delete {
            n.extend_from_slice(s);
        }
    }
    if o != a {
        f.push(("helper.old_not_reconstructed", format!("non-Insert slices concatenate to {}", show(&o))));
    }
    if n != b {
        f.push(("helper.new_not_reconstructed", format!("non-Delete slices concatenate to {}", show(&n))));
    }
    f
}

fn case(a: &[u8], b: &[u8], out: &mut Local) {
    let valid = std::str::from_utf8(a).is_ok() && std::str::from_utf8(b).is_ok();
    for tok in 0..TOKS.len() {
        #[cfg(not(feature = "unicode"))]
        if tok >= 3 {
            continue;
        }
        for alg in ALGS {
            if alg == Algorithm::Lcs && tok >= 2 && a.len() + b.len() > 300 {
                continue;
            }
            for as_str in [false, true] {
                if as_str && !valid {
                    continue;
                }
                let ctx = || format!("tokenizer={} alg={} type={} old={} new={}", TOKS[tok], alg_name(alg), if as_str { "str" } else { "[u8]" }, show(a), show(b));
                // remapper
                out.eval();
                let r = guard(|| {
                    // the remapper is given (1) the very strings the diff was built from and (2) equal
                    // COPIES of them in other allocations (the tokens then live elsewhere)
                    let (ca, cb) = (a.to_vec(), b.to_vec());
                    if as_str {
                        let (sa, sb) = (std::str::from_utf8(a).unwrap(), std::str::from_utf8(b).unwrap());
                        let d = diff_with(tok, alg, sa, sb);
                        let (mut f, n) = check_remapper(&d, sa, sb);
                        let (sca, scb) = (std::str::from_utf8(&ca).unwrap(), std::str::from_utf8(&cb).unwrap());
                        let (f2, n2) = check_remapper(&d, sca, scb);
                        f.extend(f2.into_iter().map(|(c, m)| (c, format!("(remapper given equal copies of the texts) {}", m))));
                        (f, n + n2)
                    } else {
                        let d = diff_with(tok, alg, a, b);
                        let (mut f, n) = check_remapper(&d, a, b);
                        let (f2, n2) = check_remapper(&d, &ca[..], &cb[..]);
                        f.extend(f2.into_iter().map(|(c, m)| (c, format!("(remapper given equal copies of the texts) {}", m))));
                        (f, n + n2)
                    }
                });
                match r {
                    Err(p) => out.violation("panic", format!("remapper panicked: {} | {}", p, ctx())),
                    Ok((fails, slices)) => {
                        out.count_n("remapped_slices_observed", slices);
                        for (code, msg) in fails.into_iter().take(3) {
                            out.violation(code, format!("{} | {}", msg, ctx()));
                        }
                    }
                }
                // the same text as a user-defined DiffableStr whose len()/slice() count CHARACTERS and
                // which knows a further line terminator (same letter case on both sides, so that the
                // byte-for-byte reconstruction applies): remapper and helper are generic over the type
                if as_str && a.len() + b.len() <= 4000 {
                    use crate::odd_str::{oddify_same_case, OddStr};
                    let (ta, tb) = (oddify_same_case(std::str::from_utf8(a).unwrap()), oddify_same_case(std::str::from_utf8(b).unwrap()));
                    let (oa, ob) = (OddStr::new(&ta), OddStr::new(&tb));
                    out.eval();
                    let r = guard(|| {
                        let d = diff_with(tok, alg, oa, ob);
                        let (mut f, n) = check_remapper(&d, oa, ob);
                        let got: Vec<(ChangeTag, Vec<u8>)> = helper(tok, alg, oa, ob).into_iter().map(|(t, s)| (t, s.as_bytes().to_vec())).collect();
                        for (code, msg) in check_helper(&got, ta.as_bytes(), tb.as_bytes()) {
                            f.push((code, format!("utils::diff_{}: {}", TOKS[tok], msg)));
                        }
                        (f, n)
                    });
                    match r {
                        Err(p) => out.violation("panic", format!("remapper / helper over a user-defined DiffableStr panicked: {} | type=OddStr (character-indexed, U+2028 ends a line) old={} new={} | {}", p, show(ta.as_bytes()), show(tb.as_bytes()), ctx())),
                        Ok((fails, slices)) => {
                            out.count_n("remapped_slices_observed_user_defined_type", slices);
                            for (code, msg) in fails.into_iter().take(3) {
                                out.violation(code, format!("{} | type=OddStr (character-indexed, U+2028 ends a line) old={} new={} | {}", msg, show(ta.as_bytes()), show(tb.as_bytes()), ctx()));
                            }
                        }
                    }
                }
                // one-call helper
                out.eval();
                let r = guard(|| -> Vec<(ChangeTag, Vec<u8>)> {
                    if as_str {
                        let (sa, sb) = (std::str::from_utf8(a).unwrap(), std::str::from_utf8(b).unwrap());
                        helper(tok, alg, sa, sb).into_iter().map(|(t, s)| (t, s.as_bytes().to_vec())).collect()
                    } else {
                        helper(tok, alg, a, b).into_iter().map(|(t, s)| (t, s.to_vec())).collect()
                    }
                });
                match r {
                    Err(p) => out.violation("panic", format!("utils::diff_{} panicked: {} | {}", TOKS[tok], p, ctx())),
                    Ok(got) => {
                        out.count_n("helper_slices_observed", got.len() as u64);
                        for (code, msg) in check_helper(&got, a, b) {
                            out.violation(code, format!("utils::diff_{}: {} | {}", TOKS[tok], msg, ctx()));
                        }
                    }
                }
            }
        }
    }
}

pub fn families() -> Vec<Box<dyn Family>> {
    vec![
        family(
            "txt_rnd",
            "G-TXT text pairs (incl. the empty text on either or both sides; multi-byte, every Unicode blank, CR/LF/CRLF; every second case with invalid UTF-8, [u8] only) x 5 tokenizers x 3 algorithms x {str,[u8]}: TextDiffRemapper (both constructors; iter_slices, slice_old, slice_new; pointer-range check that each slice is the substring at the cumulative offset) and the one-call helpers utils::diff_{lines,words,chars,unicode_words,graphemes}",
            false,
            8,
            |cfg| cfg.n(6_000, 120_000),
            |idx, cfg, out| {
                let mut rng = Rng::for_case(cfg.seed, "c17.txt_rnd", idx);
                let (mut a, mut b) = text_gen::text_pair(&mut rng, if cfg.tiny { 2 } else { 6 }, idx % 2 == 0);
                match idx % 23 {
                    0 => {
                        a.clear();
                        b.clear();
                    }
                    1 => a.clear(),
                    2 => b.clear(),
                    3 => b = a.clone(),
                    _ => {}
                }
                out.sample(|| format!("old={} new={}", show(&a), show(&b)));
                if a != b {
                    out.nontrivial(&(&a, &b));
                }
                if a.is_empty() && b.is_empty() {
                    out.count("both_texts_empty_cases");
                }
                case(&a, &b, out);
            },
        ),
        family(
            "deadlines_and_empty_sides",
            "text diffs built UNDER A DEADLINE (a real Instant in the past; a virtual clock expiring at deadline check #0, #1, #3; never expiring) for texts of 0, 1, 99..103, 150, 400 tokens against the empty text, a one-token text, or an edited copy x {lines, words, chars} x 3 algorithms x {str,[u8]}: whatever ops the cut-short diff produced, the remapper must return the exact substrings, no empty slice, and reconstruct both texts",
            false,
            4,
            |cfg| cfg.n(1_500, 30_000),
            |idx, cfg, out| {
                let mut rng = Rng::for_case(cfg.seed, "c17.deadlines", idx);
                let sizes = [0usize, 1, 2, 99, 100, 101, 102, 103, 150, 400];
                let n = if cfg.tiny { rng.below(4) } else { *rng.pick(&sizes) };
                let tok = rng.below(3);
                let sep = match tok {
                    0 => "\n",
                    1 => " ",
                    _ => "",
                };
                // for words each item gives 2 tokens (word + blank); chars: single letters
                let items = if tok == 1 { (n + 1) / 2 } else { n };
                let word = |i: usize, rng: &mut Rng| -> String {
                    if tok == 2 {
                        ((b'a' + (rng.below(20) as u8)) as char).to_string()
                    } else {
                        format!("w{}", if rng.chance(1, 2) { i } else { rng.below(7) })
                    }
                };
                let va: Vec<String> = (0..items).map(|i| word(i, &mut rng)).collect();
                let a: String = va.iter().map(|w| format!("{}{}", w, sep)).collect();
                let b: String = match idx % 4 {
                    0 => String::new(),
                    1 => format!("x{}", sep),
                    2 => {
                        let mut vb = va.clone();
                        for _ in 0..1 + rng.below(3) {
                            if vb.is_empty() {
                                break;
                            }
                            let i = rng.below(vb.len());
                            if rng.chance(1, 2) {
                                vb.remove(i);
                            } else {
                                vb.insert(i, "new".to_string());
                            }
                        }
                        vb.iter().map(|w| format!("{}{}", w, sep)).collect()
                    }
                    _ => (0..rng.below(5)).map(|i| format!("other{}{}", i, sep)).collect(),
                };
                let (a, b) = if rng.chance(1, 2) { (a, b) } else { (b, a) };
                let alg = ALGS[rng.below(3)];
                out.sample(|| format!("tokenizer={} alg={} old={} new={}", TOKS[tok], alg_name(alg), show(a.as_bytes()), show(b.as_bytes())));
                if a != b {
                    out.nontrivial(&(tok, alg_name(alg), &a, &b));
                }
                for dl in 0..5u8 {
                    for as_str in [true, false] {
                        let ctx = || {
                            format!(
                                "tokenizer={} alg={} type={} deadline={} old={} new={}",
                                TOKS[tok],
                                alg_name(alg),
                                if as_str { "str" } else { "[u8]" },
                                ["a real Instant in the past", "expires at deadline check #0", "expires at deadline check #1", "expires at deadline check #3", "present, never expires"][dl as usize],
                                show(a.as_bytes()),
                                show(b.as_bytes())
                            )
                        };
                        out.eval();
                        out.count("diffs_built_under_a_deadline");
                        let r = guard(|| {
                            let mut c = TextDiff::configure();
                            c.algorithm(alg);
                            match dl {
                                0 => {
                                    c.deadline(past_deadline());
                                }
                                _ => {
                                    c.deadline(far_deadline());
                                    similar::verif_hooks::set_clock(similar::verif_hooks::Clock::Fuel([0, 0, 1, 3, u64::MAX][dl as usize]));
                                }
                            }
                            fn run<'a, T: DiffableStr + ?Sized>(c: &similar::TextDiffConfig, tok: usize, a: &'a T, b: &'a T) -> (Vec<(&'static str, String)>, u64) {
                                let d = match tok {
                                    0 => c.diff_lines(a, b),
                                    1 => c.diff_words(a, b),
                                    _ => c.diff_chars(a, b),
                                };
                                similar::verif_hooks::set_clock(similar::verif_hooks::Clock::Off);
                                check_remapper(&d, a, b)
                            }
                            if as_str {
                                run(&c, tok, a.as_str(), b.as_str())
                            } else {
                                run(&c, tok, a.as_bytes(), b.as_bytes())
                            }
                        });
                        similar::verif_hooks::set_clock(similar::verif_hooks::Clock::Off);
                        match r {
                            Err(p) => out.violation("panic", format!("remapper panicked: {} | {}", p, ctx())),
                            Ok((fails, slices)) => {
                                out.count_n("remapped_slices_observed", slices);
                                for (code, msg) in fails.into_iter().take(3) {
                                    out.violation(code, format!("{} | {}", msg, ctx()));
                                }
                            }
                        }
                    }
                }
            },
        ),
        family(
            "distinct_boundary",
            "texts of n DISTINCT lines with n just below 256 / 4096 / 65536 (both sides) where a block is swapped for fresh lines so that both sides together cross the boundary: remapper + helpers on the line tokenizer x {Myers, Patience}",
            true,
            1,
            |cfg| if cfg.tiny { 1 } else { 6 },
            |idx, cfg, out| {
                let mut rng = Rng::for_case(cfg.seed, "c17.distinct_boundary", idx);
                let bound = if cfg.tiny { 8 } else { [256usize, 4096, 65536][(idx % 3) as usize] };
                let n = bound - 1 - rng.below(bound.min(400) / 4 + 1);
                let fresh = (rng.range(bound - n + 1, (bound - n + 1) + 300)).min(n);
                let (a, b) = text_gen::distinct_lines_pair(&mut rng, n, fresh, fresh);
                out.sample(|| format!("{} distinct lines per side, {} fresh (boundary {})", n, fresh, bound));
                out.nontrivial(&(&a, &b));
                for alg in [Algorithm::Myers, Algorithm::Patience] {
                    for as_str in [false, true] {
                        out.eval();
                        let r = guard(|| {
                            if as_str {
                                let (sa, sb) = (std::str::from_utf8(&a).unwrap(), std::str::from_utf8(&b).unwrap());
                                let d = diff_with(0, alg, sa, sb);
                                check_remapper(&d, sa, sb)
                            } else {
                                let d = diff_with(0, alg, &a[..], &b[..]);
                                check_remapper(&d, &a[..], &b[..])
                            }
                        });
                        match r {
                            Err(p) => out.violation("panic", format!("remapper panicked: {} | {} distinct lines per side, boundary {}", p, n, bound)),
                            Ok((fails, slices)) => {
                                out.count_n("remapped_slices_observed", slices);
                                for (code, msg) in fails.into_iter().take(2) {
                                    out.violation(code, format!("{} | {} distinct lines per side, {} fresh, alg={}", msg, n, fresh, alg_name(alg)));
                                }
                            }
                        }
                        out.eval();
                        let r = guard(|| -> Vec<(ChangeTag, Vec<u8>)> { helper(0, alg, &a[..], &b[..]).into_iter().map(|(t, s)| (t, s.to_vec())).collect() });
                        match r {
                            Err(p) => out.violation("panic", format!("utils::diff_lines panicked: {}", p)),
                            Ok(got) => {
                                for (code, msg) in check_helper(&got, &a, &b) {
                                    out.violation(code, format!("utils::diff_lines: {} | {} distinct lines per side (boundary {})", &msg[..msg.len().min(200)], n, bound));
                                }
                            }
                        }
                    }
                }
            },
        ),
        family(
            "aliased",
            "old and new are ALIASING views of one buffer: a text and a prefix / suffix / inner part of the very same allocation (s vs &s[..k], &s[k..], s vs s.trim_end()) x 5 tokenizers x 3 algorithms: remapper and one-call helpers",
            false,
            16,
            |cfg| cfg.n(3_000, 60_000),
            |idx, cfg, out| {
                let mut rng = Rng::for_case(cfg.seed, "c17.aliased", idx);
                let (t, _) = text_gen::text_pair(&mut rng, if cfg.tiny { 2 } else { 6 }, false);
                let s = String::from_utf8(t).unwrap();
                // char boundaries
                let cuts: Vec<usize> = s.char_indices().map(|x| x.0).chain(std::iter::once(s.len())).collect();
                let k = cuts[rng.below(cuts.len())];
                let (a, b): (&str, &str) = match rng.below(5) {
                    0 => (&s[..], &s[..k]),
                    1 => (&s[..k], &s[..]),
                    2 => (&s[..], &s[k..]),
                    3 => (&s[..], s.trim_end()),
                    _ => {
                        let k2 = cuts[rng.below(cuts.len())];
                        (&s[..k.max(k2)], &s[..k.min(k2)])
                    }
                };
                out.sample(|| format!("old={:?} new={:?} (views of one buffer)", a, b));
                if a != b {
                    out.nontrivial(&(a, b));
                }
                out.count("aliased_pairs");
                case(a.as_bytes(), b.as_bytes(), out);
            },
        ),
        family(
            "four_gib",
            "a text of 4 GiB + 16 bytes (zero pages, two tokens) through diff_slices + TextDiffRemapper: offsets beyond u32::MAX",
            true,
            1,
            |cfg| if cfg.tiny { 0 } else { 1 },
            |_idx, _cfg, out| {
                // skip quietly where 4 GiB of address space cannot be reserved
                let mut probe: Vec<u8> = Vec::new();
                if probe.try_reserve_exact((4usize << 30) + 24).is_err() {
                    out.count("four_gib_skipped_no_memory");
                    out.eval();
                    return;
                }
                drop(probe);
                out.eval();
                out.nontrivial(&"4GiB");
                out.sample(|| "4 GiB + 16 zero bytes split into two tokens vs the same with 8 more bytes".to_string());
                let r = guard(|| {
                    let big: Vec<u8> = vec![0u8; (4usize << 30) + 24];
                    let old_text = &big[..(4usize << 30) + 16];
                    let new_text = &big[..];
                    let old_tokens: Vec<&[u8]> = vec![&old_text[..4usize << 30], &old_text[4usize << 30..]];
                    let new_tokens: Vec<&[u8]> = vec![&new_text[..4usize << 30], &new_text[4usize << 30..]];
                    let d = TextDiff::from_slices(&old_tokens, &new_tokens);
                    let remapper = TextDiffRemapper::from_text_diff(&d, old_text, new_text);
                    let mut fails = Vec::new();
                    for op in d.ops() {
                        for (tag, sl) in remapper.iter_slices(op) {
                            let want_len: usize = match tag {
                                ChangeTag::Insert => op.new_range().map(|i| new_tokens[i].len()).sum(),
                                _ => op.old_range().map(|i| old_tokens[i].len()).sum(),
                            };
                            if sl.len() != want_len {
                                fails.push(format!("{:?} slice of op {:?} has {} bytes, its tokens {}", tag, op, sl.len(), want_len));
                            }
                        }
                    }
                    (d.ops().to_vec(), fails)
                });
                match r {
                    Err(p) => out.violation("panic", format!("remapping a 4 GiB text panicked: {}", p)),
                    Ok((ops, fails)) => {
                        out.count("four_gib_cases");
                        for f in fails {
                            out.violation("remap.not_concatenation_of_tokens", format!("4 GiB text: {} | ops {:?}", f, ops));
                        }
                    }
                }
            },
        ),
        family(
            "custom_tokenization",
            "CALLER-SUPPLIED tokens: texts cut into 1..14 tokens from a pool that contains the EMPTY token, one- and multi-byte tokens; in half of the cases empty tokens are added until the number of tokens EQUALS the byte length of the text; TextDiff::configure().diff_slices over the tokens + TextDiffRemapper::new / from_text_diff against the concatenated texts x 3 algorithms: every remapped slice is the concatenation of its op's tokens and the substring at the cumulative offset (an op that only holds empty tokens legitimately gives an empty slice)",
            false,
            16,
            |cfg| cfg.n(20_000, 400_000),
            |idx, cfg, out| {
                let mut rng = Rng::for_case(cfg.seed, "c17.custom_tokenization", idx);
                const POOL: [&str; 10] = ["ab", ",", "", "c", "x", "\u{e9}", "\n", "  ", "", "kv"];
                let mk = |rng: &mut Rng| -> Vec<&'static str> {
                    let n = 1 + rng.below(if cfg.tiny { 4 } else { 14 });
                    let mut v: Vec<&'static str> = (0..n).map(|_| *rng.pick(&POOL)).collect();
                    if rng.chance(1, 2) {
                        let bytes: usize = v.iter().map(|t| t.len()).sum();
                        while v.len() < bytes {
                            let at = rng.below(v.len() + 1);
                            v.insert(at, "");
                        }
                    }
                    v
                };
                let ta = mk(&mut rng);
                let tb = if rng.chance(1, 3) {
                    mk(&mut rng)
                } else {
                    let mut t = ta.clone();
                    for _ in 0..1 + rng.below(3) {
                        let at = rng.below(t.len() + 1);
                        match rng.below(3) {
                            0 if at < t.len() => {
                                t.remove(at);
                            }
                            1 if at < t.len() => t[at] = *rng.pick(&POOL),
                            _ => t.insert(at, *rng.pick(&POOL)),
                        }
                    }
                    t
                };
                let (sa, sb): (String, String) = (ta.concat(), tb.concat());
                let alg = ALGS[rng.below(3)];
                out.sample(|| format!("alg={} old tokens={:?} new tokens={:?}", alg_name(alg), ta, tb));
                out.nontrivial(&(alg_name(alg), &ta, &tb));
                if ta.len() == sa.len() || tb.len() == sb.len() {
                    out.count("cases_with_as_many_tokens_as_bytes");
                }
                out.eval();
                let r = guard(|| {
                    let d = TextDiff::configure().algorithm(alg).diff_slices(&ta, &tb);
                    check_remapper(&d, sa.as_str(), sb.as_str())
                });
                match r {
                    Err(p) => out.violation("panic", format!("remapping caller-supplied tokens panicked: {} | alg={} old tokens={:?} new tokens={:?}", p, alg_name(alg), ta, tb)),
                    Ok((fails, n)) => {
                        out.count_n("slices_observed", n);
                        for (code, msg) in fails.iter().filter(|(c, _)| *c != "remap.empty_slice") {
                            out.violation(code, format!("{} | alg={} old tokens={:?} new tokens={:?}", msg, alg_name(alg), ta, tb));
                        }
                    }
                }
            },
        ),
        family(
            "slices_rnd",
            "utils::diff_slices on seeded random item sequences x 3 algorithms: same reconstruction, no empty slice, slices are sub-slices of the inputs",
            false,
            32,
            |cfg| cfg.n(30_000, 600_000),
            |idx, cfg, out| {
                let mut rng = Rng::for_case(cfg.seed, "c17.slices_rnd", idx);
                let (a, b) = crate::gen::rand_pair(&mut rng, if cfg.tiny { 6 } else { 60 });
                let alg = ALGS[rng.below(3)];
                out.sample(|| format!("alg={} old={} new={}", alg_name(alg), fmt_seq(&a), fmt_seq(&b)));
                if a != b {
                    out.nontrivial(&(alg_name(alg), &a, &b));
                }
                out.eval();
                match guard(|| utils::diff_slices(alg, &a, &b)) {
                    Err(p) => out.violation("panic", format!("utils::diff_slices panicked: {} | alg={} old={} new={}", p, alg_name(alg), fmt_seq(&a), fmt_seq(&b))),
                    Ok(got) => {
                        let (mut o, mut n) = (Vec::new(), Vec::new());
                        for (tag, s) in &got {
                            if s.is_empty() {
                                out.violation("helper.empty_slice", format!("utils::diff_slices returned an empty {:?} slice | alg={} old={} new={}", tag, alg_name(alg), fmt_seq(&a), fmt_seq(&b)));
                            }
                            if *tag != ChangeTag::Insert {
                                o.extend_from_slice(s);
                            }
                            if *tag != ChangeTag::Delete {
                                n.extend_from_slice(s);
                            }
                        }
                        if o != a || n != b {
                            out.violation("helper.slices_not_reconstructed", format!("utils::diff_slices does not reconstruct the inputs | alg={} old={} new={} got={:?}", alg_name(alg), fmt_seq(&a), fmt_seq(&b), got));
                        }
                    }
                }
            },
        ),
    ]
}
