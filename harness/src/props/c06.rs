//! C06 — tokenizers are lossless partitions with the documented token shape.

use std::ops::Range;

use similar::DiffableStr;

use crate::engine::{family, guard, Family, Local};
use crate::rng::Rng;
use crate::text_gen;
use crate::tok_ref::{self, show};

const TOKENIZERS: [&str; 6] = ["lines", "lines_and_newlines", "words", "chars", "unicode_words", "graphemes"];

#[cfg(feature = "bytes")]
fn tokenize_bytes(which: usize, b: &[u8]) -> Vec<&[u8]> {
    match which {
        0 => b.tokenize_lines(),
        1 => b.tokenize_lines_and_newlines(),
        2 => b.tokenize_words(),
        3 => b.tokenize_chars(),
        #[cfg(feature = "unicode")]
        4 => b.tokenize_unicode_words(),
        #[cfg(feature = "unicode")]
        5 => b.tokenize_graphemes(),
        _ => b.tokenize_chars(),
    }
}

fn tokenize_str(which: usize, s: &str) -> Vec<&str> {
    match which {
        0 => s.tokenize_lines(),
        1 => s.tokenize_lines_and_newlines(),
        2 => s.tokenize_words(),
        3 => s.tokenize_chars(),
        #[cfg(feature = "unicode")]
        4 => s.tokenize_unicode_words(),
        #[cfg(feature = "unicode")]
        5 => s.tokenize_graphemes(),
        _ => s.tokenize_chars(),
    }
}

fn show_ranges(input: &[u8], r: &[Range<usize>]) -> String {
    let mut s = String::from("[");
    for (i, x) in r.iter().enumerate().take(40) {
        if i > 0 {
            s.push_str(", ");
        }
        s.push_str(&show(&input[x.clone()]));
    }
    if r.len() > 40 {
        s.push_str(", …");
    }
    s.push(']');
    s
}

fn reference(which: usize, input: &[u8]) -> Option<Vec<Range<usize>>> {
    match which {
        0 => Some(tok_ref::ref_lines(input)),
        1 => Some(tok_ref::ref_lines_and_newlines(input)),
        2 => Some(tok_ref::ref_words(input)),
        3 => Some(tok_ref::ref_chars(input)),
        _ => None,
    }
}

/// shape assertions stated directly (second formulation, independent of the reference splitters)
fn shape_checks(which: usize, input: &[u8], ranges: &[Range<usize>]) -> Vec<(&'static str, String)> {
    let mut f = Vec::new();
    let is_nl = |x: u8| x == b'\n' || x == b'\r';
    match which {
        0 => {
            for (i, r) in ranges.iter().enumerate() {
                let t = &input[r.clone()];
                let body_end = if t.ends_with(b"\r\n") {
                    t.len() - 2
                } else if t.last().map_or(false, |x| is_nl(*x)) {
                    t.len() - 1
                } else {
                    if i + 1 != ranges.len() {
                        f.push(("tok.line_unterminated_not_last", format!("line token #{} {} lacks a terminator but is not the last", i, show(t))));
                    }
                    t.len()
                };
                if t[..body_end].iter().any(|x| is_nl(*x)) {
                    f.push(("tok.line_break_inside_line", format!("line token #{} {} contains a line break before its terminator", i, show(t))));
                }
                // a lone CR terminator must not be followed by LF (that would be a split CRLF)
                if t.ends_with(b"\r") && input.get(r.end) == Some(&b'\n') {
                    f.push(("tok.crlf_split", format!("line token #{} {} ends in CR but the next byte is LF", i, show(t))));
                }
            }
        }
        1 => {
            for (i, r) in ranges.iter().enumerate() {
                let t = &input[r.clone()];
                let nl = is_nl(t[0]);
                if t.iter().any(|x| is_nl(*x) != nl) {
                    f.push(("tok.mixed_newline_run", format!("token #{} {} mixes newline and non-newline bytes", i, show(t))));
                }
                if i > 0 && is_nl(input[ranges[i - 1].start]) == nl {
                    f.push(("tok.runs_not_maximal", format!("tokens #{} and #{} are both {} runs", i - 1, i, if nl { "newline" } else { "non-newline" })));
                }
            }
        }
        2 => {
            let mut prev: Option<bool> = None;
            for (i, r) in ranges.iter().enumerate() {
                let t = &input[r.clone()];
                let units = tok_ref::decode(t);
                let classes: Vec<bool> = units.iter().map(|u| u.2.map_or(false, tok_ref::is_ws)).collect();
                if classes.iter().any(|c| *c != classes[0]) {
                    f.push(("tok.mixed_word", format!("word token #{} {} mixes whitespace and non-whitespace", i, show(t))));
                }
                if prev == Some(classes[0]) {
                    f.push(("tok.words_not_maximal", format!("word tokens #{} and #{} have the same whitespace class", i - 1, i)));
                }
                prev = Some(classes[0]);
            }
        }
        3 => {
            for (i, r) in ranges.iter().enumerate() {
                let t = &input[r.clone()];
                match std::str::from_utf8(t) {
                    Ok(s) => {
                        if s.chars().count() != 1 {
                            f.push(("tok.char_not_single_scalar", format!("char token #{} {} holds {} scalar values", i, show(t), s.chars().count())));
                        }
                    }
                    Err(_) => {
                        // invalid bytes: one invalid sequence (<= 3 bytes) that contains no complete scalar value
                        let units = tok_ref::decode(t);
                        if t.len() > 3 || units.iter().any(|u| u.2.is_some()) {
                            f.push(("tok.char_invalid_shape", format!("char token #{} {} is neither one scalar value nor one invalid sequence", i, show(t))));
                        }
                    }
                }
            }
        }
        _ => {}
    }
    f
}

fn check_input(input: &[u8], skip_bstr_unicode: bool, out: &mut Local) {
    let as_str = std::str::from_utf8(input).ok();
    for which in 0..TOKENIZERS.len() {
        #[cfg(not(feature = "unicode"))]
        if which >= 4 {
            continue;
        }
        let name = TOKENIZERS[which];
        // --- [u8]
        #[cfg(feature = "bytes")]
        out.eval();
        // (Miri stage: bstr's lazily built word/grapheme automata take minutes to initialise there)
        #[cfg(not(feature = "bytes"))]
        let br: Option<Vec<Range<usize>>> = {
            // build without the `bytes` feature: [u8] is no text type there; str only
            let _ = skip_bstr_unicode;
            None
        };
        #[cfg(feature = "bytes")]
        let br = if skip_bstr_unicode && which >= 4 {
            None
        } else {
            match guard(|| tokenize_bytes(which, input).into_iter().map(|t| t.to_vec()).collect::<Vec<Vec<u8>>>()) {
            Err(p) => {
                out.violation("panic", format!("[u8]::tokenize_{} panicked: {} | input={}", name, p, show(input)));
                None
            }
            Ok(tokens) => {
                out.count_n("tokens_observed", tokens.len() as u64);
                let refs: Vec<&[u8]> = tokens.iter().map(|t| &t[..]).collect();
                match tok_ref::ranges_of(input, &refs) {
                    Err(e) => {
                        out.violation("tok.not_lossless", format!("[u8]::tokenize_{}: {} | input={} tokens={:?}", name, e, show(input), tokens.iter().map(|t| show(t)).collect::<Vec<_>>()));
                        None
                    }
                    Ok(r) => Some(r),
                }
            }
            }
        };
        if let Some(r) = &br {
            if let Some(expect) = reference(which, input) {
                if *r != expect {
                    out.violation(
                        "tok.differs_from_reference",
                        format!("[u8]::tokenize_{} | input={} | got {} | reference {}", name, show(input), show_ranges(input, r), show_ranges(input, &expect)),
                    );
                }
            }
            for (code, msg) in shape_checks(which, input, r) {
                out.violation(code, format!("[u8]::tokenize_{}: {} | input={}", name, msg, show(input)));
            }
        }
        // --- str
        if let Some(s) = as_str {
            out.eval();
            match guard(|| tokenize_str(which, s).into_iter().map(|t| t.as_bytes().to_vec()).collect::<Vec<Vec<u8>>>()) {
                Err(p) => out.violation("panic", format!("str::tokenize_{} panicked: {} | input={}", name, p, show(input))),
                Ok(tokens) => {
                    out.count_n("tokens_observed", tokens.len() as u64);
                    let refs: Vec<&[u8]> = tokens.iter().map(|t| &t[..]).collect();
                    match tok_ref::ranges_of(input, &refs) {
                        Err(e) => out.violation("tok.not_lossless", format!("str::tokenize_{}: {} | input={}", name, e, show(input))),
                        Ok(r) => {
                            if let Some(expect) = reference(which, input) {
                                if r != expect {
                                    out.violation(
                                        "tok.differs_from_reference",
                                        format!("str::tokenize_{} | input={} | got {} | reference {}", name, show(input), show_ranges(input, &r), show_ranges(input, &expect)),
                                    );
                                }
                            }
                            for (code, msg) in shape_checks(which, input, &r) {
                                out.violation(code, format!("str::tokenize_{}: {} | input={}", name, msg, show(input)));
                            }
                            if which < 4 {
                                if let Some(b) = &br {
                                    if *b != r {
                                        out.violation(
                                            "tok.str_vs_bytes",
                                            format!("tokenize_{} on valid UTF-8: str gives {} but [u8] gives {} | input={}", name, show_ranges(input, &r), show_ranges(input, b), show(input)),
                                        );
                                    }
                                    out.count("str_vs_bytes_comparisons");
                                }
                            } else if let Some(b) = &br {
                                // unicode tokenizers: no equality demanded, only counted
                                if *b != r {
                                    out.count("unicode_tokenizers_str_and_bytes_segment_differently");
                                }
                            }
                        }
                    }
                }
            }
        }
    }
}

pub fn families() -> Vec<Box<dyn Family>> {
    vec![
        family(
            "atoms_exh",
            "exhaustive: every string over the 12-atom alphabet {a, SP, LF, CR, é, NBSP, U+2028, VT, 0xFF, E2 82 (truncated), NEL, TAB} up to 4 atoms (quick) / 6 atoms (thorough) x 6 tokenizers x {[u8], str when valid}; non-trivial = contains a line break or a whitespace atom or an invalid byte",
            true,
            256,
            |cfg| text_gen::exh_count(12, if cfg.tiny { 2 } else { cfg.tier.pick(4, 6) }),
            |idx, cfg, out| {
                let input = text_gen::exh_string(idx, 12, if cfg.tiny { 2 } else { cfg.tier.pick(4, 6) });
                out.sample(|| show(&input));
                if input.iter().any(|b| !b.is_ascii_alphabetic()) {
                    out.nontrivial(&input);
                }
                check_input(&input, cfg.tiny, out);
            },
        ),
        family(
            "txt_rnd",
            "G-TXT: seeded random texts built from word atoms (ASCII, é, CJK, combining mark, ZWJ family emoji, flag emoji, NUL, U+0018, ZWSP, U+180E, BOM, U+001C/1F) and EVERY Unicode White_Space char (incl. VT, FF, NEL, NBSP, U+1680, U+2000-200A, U+2028/2029, U+202F, U+205F, U+3000), terminators LF/CRLF/CR, last line with or without terminator; a third of the cases have invalid UTF-8 fragments (FF, C3, E2 82, 80, F0 9F, surrogate, overlong, > U+10FFFF, E9) spliced in",
            false,
            32,
            |cfg| cfg.n(40_000, 800_000),
            |idx, cfg, out| {
                let mut rng = Rng::for_case(cfg.seed, "c06.txt_rnd", idx);
                let invalid = idx % 3 == 0;
                let (a, b) = text_gen::text_pair(&mut rng, if cfg.tiny { 2 } else { 8 }, invalid);
                out.sample(|| show(&a));
                for t in [&a, &b] {
                    if !t.is_empty() {
                        out.nontrivial(t);
                    }
                    check_input(t, cfg.tiny, out);
                }
                if std::str::from_utf8(&a).is_err() {
                    out.count("inputs_with_invalid_utf8");
                }
            },
        ),
        family(
            "long_inputs",
            "long inputs (8..70 KB, thorough up to 300 KB; one terminator style, ASCII words) with 1..4 RARE features injected late (lone CR, CRLF, LF, VT, FF, NEL, NBSP, U+1680, U+2003, U+2028, U+3000, é, a literal U+FFFD, a flag emoji; every third case also an invalid byte sequence) x 6 tokenizers x {[u8], str when valid}",
            false,
            1,
            |cfg| cfg.n(30, 600),
            |idx, cfg, out| {
                let mut rng = Rng::for_case(cfg.seed, "c06.long_inputs", idx);
                let size = if cfg.tiny { 60 } else { *rng.pick(&[8_200usize, 16_500, 33_000, 66_000, cfg.tier.pick(70_000, 300_000)]) };
                let t = text_gen::long_boring_text(&mut rng, size, idx % 3 == 0);
                out.sample(|| format!("{} bytes, starts {}", t.len(), show(&t[..t.len().min(40)])));
                out.nontrivial(&t);
                out.count("long_inputs_tokenized");
                check_input(&t, cfg.tiny, out);
            },
        ),
        family(
            "all_scalar_values",
            "EVERY Unicode scalar value (U+0000 ..= U+10FFFF without the surrogates), 256 per case, each between ASCII letters and once directly after a CR and before an LF: x 6 tokenizers x {[u8], str} - characters whose code point merely shares low bits with LF / CR / blank (U+010A, U+010D, U+0A0A, U+2020, ...) must not be taken for them",
            true,
            4,
            |cfg| if cfg.tiny { 4 } else { 0x110000 / 256 },
            |idx, cfg, out| {
                let mut t = String::new();
                for k in 0..256u32 {
                    let cp = idx as u32 * 256 + k;
                    if let Some(c) = char::from_u32(cp) {
                        t.push('a');
                        t.push(c);
                        t.push('b');
                        if k % 64 == 7 {
                            t.push('\r');
                            t.push(c);
                            t.push('\n');
                        }
                    }
                }
                if t.is_empty() {
                    return; // the surrogate block
                }
                out.sample(|| format!("U+{:04X}..U+{:04X} between ASCII letters", idx * 256, idx * 256 + 255));
                out.nontrivial(&idx);
                out.count("scalar_value_blocks");
                check_input(t.as_bytes(), cfg.tiny, out);
            },
        ),
        family(
            "alignments",
            "the same G-TXT texts (and a 70 KB boring text with late rare features) handed over as SUB-SLICES starting at every address alignment 0..7 of one allocation (a scanner that reads machine words must not depend on where the input starts): all checks on each, and identical token boundaries at all eight alignments",
            false,
            8,
            |cfg| cfg.n(500, 10_000),
            |idx, cfg, out| {
                let mut rng = Rng::for_case(cfg.seed, "c06.alignments", idx);
                let t: Vec<u8> = if idx % 250 == 249 && !cfg.tiny {
                    text_gen::long_boring_text(&mut rng, 70_000, false)
                } else {
                    text_gen::text_pair(&mut rng, if cfg.tiny { 2 } else { 10 }, idx % 4 == 0).0
                };
                if t.is_empty() {
                    return;
                }
                out.sample(|| format!("{} bytes at 8 alignments: {}", t.len(), show(&t[..t.len().min(60)])));
                out.nontrivial(&t);
                let mut buf: Vec<u8> = Vec::with_capacity(t.len() + 16);
                let mut seen: Vec<Vec<Vec<usize>>> = Vec::new();
                for k in 0..8usize {
                    buf.clear();
                    buf.extend(std::iter::repeat(b'#').take(k));
                    buf.extend_from_slice(&t);
                    let view = &buf[k..];
                    out.count("aligned_views_tokenized");
                    if (view.as_ptr() as usize) % 8 != (buf.as_ptr() as usize + k) % 8 {
                        continue;
                    }
                    check_input(view, cfg.tiny, out);
                    // token boundaries per tokenizer at this alignment (str when valid, else bytes)
                    let bounds: Vec<Vec<usize>> = (0..4usize)
                        .map(|which| {
                            crate::engine::guard(|| match std::str::from_utf8(view) {
                                Ok(sv) => tokenize_str(which, sv).iter().map(|x| x.len()).collect::<Vec<usize>>(),
                                Err(_) => Vec::new(),
                            })
                            .unwrap_or_default()
                        })
                        .collect();
                    seen.push(bounds);
                }
                if let Some(first) = seen.first() {
                    for (k, b) in seen.iter().enumerate() {
                        if b != first {
                            out.violation("tok.depends_on_alignment", format!("the same text tokenizes differently when it starts at address alignment {} than at alignment 0 | input={}", k, show(&t)));
                            break;
                        }
                    }
                }
            },
        ),
        family(
            "block_boundaries",
            "a feature (CRLF, lone CR, LF, CR CR LF, a blank, é, U+2028, an emoji, an invalid byte) placed so that it starts 3, 2, 1, 0 bytes before / 1 byte after every power-of-two offset B in {4096, 8192, 16384, 32768, 65536, 131072} of an otherwise boring ASCII text (implementations that scan in blocks must not split or miss it) x 6 tokenizers x {[u8], str when valid}",
            true,
            1,
            |cfg| if cfg.tiny { 4 } else { 6 * 9 * 5 },
            |idx, cfg, out| {
                let feats: [&[u8]; 9] = [b"\r\n", b"\r", b"\n", b"\r\r\n", b" ", "\u{e9}".as_bytes(), "\u{2028}".as_bytes(), "\u{1f600}".as_bytes(), b"\xff"];
                let b = if cfg.tiny { 64usize } else { 4096usize << (idx / 45) };
                let f = feats[(idx / 5 % 9) as usize];
                let d = (idx % 5) as usize; // feature starts at b - 3 + d
                let at = b - 3 + d;
                let mut t: Vec<u8> = Vec::with_capacity(b + 128);
                let filler = b"lorem ipsum dolor\n";
                while t.len() < at {
                    t.push(filler[t.len() % filler.len()]);
                }
                // the byte before the feature must not be CR / LF (it would merge with it)
                if let Some(x) = t.last_mut() {
                    if *x == b'\n' {
                        *x = b'x';
                    }
                }
                t.extend_from_slice(f);
                for i in 0..100 {
                    t.push(b"next words here\n"[i % 16]);
                }
                out.sample(|| format!("{} bytes, feature {} at offset {} (block boundary {})", t.len(), show(f), at, b));
                out.nontrivial(&(b, at, f));
                out.count("block_boundary_inputs");
                check_input(&t, cfg.tiny, out);
            },
        ),

        family(
            "exact_run_lengths",
            "ONE token of an exact length: a run of L word characters, of L blanks, of L two-byte letters or a line of L bytes, with L in {254..258, 32766..32770, 65533..65538, 131069..131073, 196604..196606} (the values around 2^8, 2^15, 2^16, 2^17 and the multiples of 2^16 - 1), in front of a token of another class and behind a short one - counters and length fields of every width - x 6 tokenizers x {[u8], str}",
            true,
            1,
            |cfg| if cfg.tiny { 4 } else { 24 * 4 },
            |idx, cfg, out| {
                const LENS: [usize; 24] = [254, 255, 256, 257, 258, 32766, 32767, 32768, 32769, 32770, 65533, 65534, 65535, 65536, 65537, 65538, 131069, 131070, 131071, 131072, 131073, 196604, 196605, 196606];
                let l = if cfg.tiny { 5 + idx as usize } else { LENS[(idx % 24) as usize] };
                let kind = idx / 24 % 4;
                let mut t: Vec<u8> = b"go ".to_vec();
                match kind {
                    0 => {
                        t.extend(std::iter::repeat(b'a').take(l));
                        t.extend_from_slice(b" tail\n");
                    }
                    1 => {
                        t.extend(std::iter::repeat(b' ').take(l));
                        t.extend_from_slice(b"tail\n");
                    }
                    2 => {
                        for _ in 0..l {
                            t.extend_from_slice("\u{e9}".as_bytes());
                        }
                        t.extend_from_slice(b"\tx\r\n");
                    }
                    _ => {
                        // a whole line of exactly l bytes (terminator included), then another line
                        t.clear();
                        t.extend(std::iter::repeat(b'q').take(l - 1));
                        t.extend_from_slice(b"\nnext line\n");
                    }
                }
                out.sample(|| format!("{} bytes: one run of exactly {} (kind {})", t.len(), l, kind));
                out.nontrivial(&(l, kind));
                out.count("exact_run_length_inputs");
                check_input(&t, cfg.tiny, out);
            },
        ),
        family(
            "deep_many_tokens",
            "STACK DEPTH: texts of 100000..400000 short lines (and of that many words / characters) through every tokenizer, str and [u8]; run with the stack of an ordinary thread in the small-stack stage (an unoptimised build): the tokenizer must return (losslessly) and not exhaust the stack",
            false,
            1,
            |cfg| if cfg.tiny { 1 } else { cfg.tier.pick(4, 12) },
            |idx, cfg, out| {
                let mut rng = Rng::for_case(cfg.seed, "c06.deep", idx);
                let lines = if cfg.tiny { 20 } else { rng.range(100_000, 400_000) };
                let mut t: Vec<u8> = Vec::with_capacity(lines * 6);
                for i in 0..lines {
                    match (i + idx as usize) % 5 {
                        0 => t.extend_from_slice(b"ab cd\n"),
                        1 => t.extend_from_slice(b"x\r\n"),
                        2 => t.extend_from_slice(b"\n"),
                        3 => t.extend_from_slice("é y\n".as_bytes()),
                        _ => t.extend_from_slice(b"k=1;\r"),
                    }
                }
                out.sample(|| format!("{} lines, {} bytes", lines, t.len()));
                out.nontrivial(&(lines, idx));
                out.count("deep_cases");
                let s = std::str::from_utf8(&t).unwrap();
                for which in 0..6usize {
                    // the unicode segmenters are slow in unoptimised builds: a 1/16 prefix (still tens of thousands of tokens)
                    let cut = if which >= 4 { t.len() / 16 } else { t.len() };
                    let cut = (0..=cut).rev().find(|c| s.is_char_boundary(*c)).unwrap_or(0);
                    for as_str in [true, false] {
                        if !as_str && !cfg!(feature = "bytes") {
                            continue;
                        }
                        out.eval();
                        let r = guard(|| {
                            #[cfg(feature = "bytes")]
                            let toks: Vec<&[u8]> = if as_str { tokenize_str(which, &s[..cut]).into_iter().map(|x| x.as_bytes()).collect() } else { tokenize_bytes(which, &t[..cut]) };
                            #[cfg(not(feature = "bytes"))]
                            let toks: Vec<&[u8]> = tokenize_str(which, &s[..cut]).into_iter().map(|x| x.as_bytes()).collect();
                            let total: usize = toks.iter().map(|x| x.len()).sum();
                            let empty = toks.iter().filter(|x| x.is_empty()).count();
                            let joined_ok = total == cut && {
                                let mut pos = 0;
                                toks.iter().all(|x| {
                                    let ok = &t[pos..pos + x.len()] == *x;
                                    pos += x.len();
                                    ok
                                })
                            };
                            (toks.len(), empty, joined_ok)
                        });
                        match r {
                            Err(p) => out.violation("panic", format!("tokenizer #{} ({}) panicked on {} lines: {}", which, if as_str { "str" } else { "[u8]" }, lines, p)),
                            Ok((n, empty, ok)) => {
                                out.count_n("tokens_observed", n as u64);
                                if empty > 0 || !ok {
                                    out.violation("tok.not_lossless", format!("tokenizer #{} ({}) on {} lines: {} empty tokens, concatenation equals the input: {}", which, if as_str { "str" } else { "[u8]" }, lines, empty, ok));
                                }
                            }
                        }
                    }
                }
            },
        ),
    ]
}
