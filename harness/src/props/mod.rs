pub mod common;
pub mod captured;
pub mod c01;
pub mod c04;
pub mod c05;
pub mod c06;
pub mod c07;
pub mod c08;
pub mod c10;
pub mod c12;
pub mod c13;
pub mod c14;
pub mod c15;
pub mod c16;
pub mod c17;
pub mod c18;
pub mod c19;
pub mod c20;

use crate::engine::Family;

pub fn families_of(property: &str) -> Option<Vec<Box<dyn Family>>> {
    Some(match property {
        "C01" => c01::families(),
        "C02" => captured::families(captured::Focus::C02),
        "C03" => captured::families(captured::Focus::C03),
        "C04" => c04::families(),
        "C05" => c05::families(),
        "C06" => c06::families(),
        "C07" => c07::families(),
        "C08" => c08::families(),
        "C09" => {
            let mut v = captured::families(captured::Focus::C09);
            v.extend(c10::families(c10::Focus::C09));
            v
        }
        "C10" => c10::families(c10::Focus::C10),
        "C11" => captured::families(captured::Focus::C11),
        "C12" => c12::families(),
        "C13" => c13::families(),
        "C14" => c14::families(),
        "C15" => c15::families(),
        "C16" => c16::families(),
        "C17" => c17::families(),
        "C18" => c18::families(),
        "C19" => c19::families(),
        "C20" => c20::families(),
        _ => return None,
    })
}
