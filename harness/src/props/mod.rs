pub mod common;
pub mod c01;

use crate::engine::Family;

pub fn families_of(property: &str) -> Option<Vec<Box<dyn Family>>> {
    Some(match property {
        "C01" => c01::families(),
        _ => return None,
    })
}
