pub mod common;
pub mod captured;
pub mod c01;
pub mod c08;
pub mod c10;

use crate::engine::Family;

pub fn families_of(property: &str) -> Option<Vec<Box<dyn Family>>> {
    Some(match property {
        "C01" => c01::families(),
        "C02" => captured::families(captured::Focus::C02),
        "C03" => captured::families(captured::Focus::C03),
        "C08" => c08::families(),
        "C09" => {
            let mut v = captured::families(captured::Focus::C09);
            v.extend(c10::families(c10::Focus::C09));
            v
        }
        "C10" => c10::families(c10::Focus::C10),
        "C11" => captured::families(captured::Focus::C11),
        _ => return None,
    })
}
