//! Shared workload for the properties that speak about captured op lists:
//! C02 (valid edit script, ratio), C03 (minimality), C09 (normal form), C11
//! (exact carried positions).  The same executions are generated for all
//! four; each property reports only the assertions it owns.

use std::ops::Range;
use std::time::Instant;

use similar::verif_hooks as vh;
use similar::{capture_diff, capture_diff_deadline, capture_diff_slices, capture_diff_slices_deadline, get_diff_ratio, Algorithm, DiffOp, TextDiff};

use crate::engine::{family, guard, Config, Family, Local};
use crate::gen;
use crate::mon::{apply_ops, check_ops, fmt_ops, lcs_len, OpsVerdict};
use crate::props::common::*;
use crate::rng::Rng;

#[derive(Clone, Copy, PartialEq, Eq, Debug)]
pub enum Focus {
    C02,
    C03,
    C09,
    C11,
}

impl Focus {
    fn tag(self) -> &'static str {
        match self {
            Focus::C02 => "c02",
            Focus::C03 => "c03",
            Focus::C09 => "c09",
            Focus::C11 => "c11",
        }
    }
    fn with_deadlines(self) -> bool {
        self != Focus::C03
    }
}

pub const KF1: &str = "KF1";

thread_local! {
    /// optimum edit distance known by construction (inputs too large for the DP oracle)
    static KNOWN_OPTIMUM: std::cell::Cell<Option<usize>> = std::cell::Cell::new(None);
}

pub fn families(focus: Focus) -> Vec<Box<dyn Family>> {
    let mut v: Vec<Box<dyn Family>> = Vec::new();
    v.push(family(
        "exh_full",
        "G-EXH: every ordered pair over {0,1,2} with length <= 5 (thorough: <= 6) x 3 algorithms (C03: Myers, LCS) x entry points {capture_diff, capture_diff_slices, TextDiff::from_slices}; deadline in {none} and (not C03) {virtual clock expiring at EVERY deadline check k = 0..=P for pairs with N+M <= 10, sampled k otherwise}; non-trivial = both sides non-empty and different",
        true,
        64,
        move |cfg| {
            let n = gen::all_seqs(3, if cfg.tiny { 2 } else { cfg.tier.pick(5, 6) }).len() as u64;
            n * n
        },
        move |idx, cfg, out| {
            let seqs = gen::all_seqs(3, if cfg.tiny { 2 } else { cfg.tier.pick(5, 6) });
            let (a, b) = gen::pair_of(seqs, idx);
            let a: Vec<u32> = a.iter().map(|x| *x as u32).collect();
            let b: Vec<u32> = b.iter().map(|x| *x as u32).collect();
            out.sample(|| format!("old={:?} new={:?} x algorithms x every expiry point", a, b));
            for alg in ALGS {
                if focus == Focus::C03 && alg == Algorithm::Patience {
                    continue;
                }
                captured_case(focus, cfg, alg, &a, 0..a.len(), &b, 0..b.len(), (idx % 5) as u8, true, out);
            }
        },
    ));
    v.push(family(
        "sub_exh",
        "G-SUB: every pair over {0,1} (thorough {0,1,2}) with length <= 4 x every (old_range,new_range) x algorithms, capture_diff on sub-ranges; deadline none + every expiry point (not C03)",
        true,
        4,
        move |cfg| {
            let n = gen::all_seqs(cfg.tier.pick(2, 3), if cfg.tiny { 2 } else { 4 }).len() as u64;
            n * n
        },
        move |idx, cfg, out| {
            let seqs = gen::all_seqs(cfg.tier.pick(2, 3), if cfg.tiny { 2 } else { 4 });
            let (a, b) = gen::pair_of(seqs, idx);
            let a: Vec<u32> = a.iter().map(|x| *x as u32).collect();
            let b: Vec<u32> = b.iter().map(|x| *x as u32).collect();
            out.sample(|| format!("old={:?} new={:?} x all sub-ranges x algorithms x every expiry point", a, b));
            for or in gen::subranges(a.len()) {
                for nr in gen::subranges(b.len()) {
                    for alg in ALGS {
                        if focus == Focus::C03 && alg == Algorithm::Patience {
                            continue;
                        }
                        captured_case(focus, cfg, alg, &a, or.clone(), &b, nr.clone(), 0, true, out);
                    }
                }
            }
        },
    ));
    v.push(family(
        "rnd",
        "G-RND: seeded random pairs (lengths from {0,1,2,3,10,40,150,400}; LCS and C03's DP oracle: <= 150), alphabets {1,2,3,8,50,1e5}, independent or edited copies, random sub-ranges for half of the cases x one algorithm; deadline none + up to 12 sampled expiry points (not C03)",
        false,
        8,
        move |cfg| cfg.n(if focus == Focus::C03 { 30_000 } else { 20_000 }, if focus == Focus::C03 { 600_000 } else { 400_000 }),
        move |idx, cfg, out| {
            let mut rng = Rng::for_case(cfg.seed, "captured.rnd", idx);
            let alg = ALGS[rng.below(3)];
            let alg = if focus == Focus::C03 && alg == Algorithm::Patience { Algorithm::Myers } else { alg };
            let max_len = if cfg.tiny {
                10
            } else if alg == Algorithm::Lcs || focus == Focus::C03 {
                150
            } else {
                400
            };
            let (a, b) = gen::rand_pair(&mut rng, max_len);
            let (or, nr) = if rng.chance(1, 2) { (0..a.len(), 0..b.len()) } else { gen::rand_ranges(&mut rng, a.len(), b.len()) };
            out.sample(|| format!("alg={} old={} range {:?} new={} range {:?}", alg_name(alg), fmt_seq(&a), or, fmt_seq(&b), nr));
            captured_case(focus, cfg, alg, &a, or, &b, nr, rng.below(5) as u8, false, out);
        },
    ));
    v.push(family(
        "big",
        "G-BIG: long near-identical pairs (1000..6000 items quick, up to 70000 thorough; a few cases cross 65536 items) with <= 8 point edits, a block move or a duplicated block, distinct / small-alphabet / long-equal-run bases x {Myers, Patience} (LCS and C03's DP oracle only up to 3000 items); deadline none + 6 sampled expiry points (not C03)",
        false,
        1,
        move |cfg| if cfg.tiny { 2 } else { cfg.tier.pick(48, 480) },
        move |idx, cfg, out| {
            let mut rng = Rng::for_case(cfg.seed, "captured.big", idx);
            let huge = idx % 20 == 7 && !cfg.tiny;
            let (lo, hi) = if cfg.tiny {
                (5, 12)
            } else if huge {
                (65_530, 70_000)
            } else {
                (1000, cfg.tier.pick(6000, 30_000))
            };
            let (a, b) = gen::big_pair(&mut rng, lo, hi);
            let small_enough_for_dp = a.len().max(b.len()) <= 3000;
            let alg = if focus == Focus::C03 {
                if small_enough_for_dp && rng.chance(1, 4) && a.len().max(b.len()) <= 1500 { Algorithm::Lcs } else { Algorithm::Myers }
            } else if rng.chance(1, 2) {
                Algorithm::Myers
            } else {
                Algorithm::Patience
            };
            if focus == Focus::C03 && !small_enough_for_dp {
                return;
            }
            out.sample(|| format!("alg={} N={} M={} old={} new={}", alg_name(alg), a.len(), b.len(), fmt_seq(&a), fmt_seq(&b)));
            out.count("big_cases");
            if a.len() > 65_535 || b.len() > 65_535 {
                out.count("cases_above_65535_items");
            }
            captured_case(focus, cfg, alg, &a, 0..a.len(), &b, 0..b.len(), rng.below(5) as u8, false, out);
        },
    ));
    v.push(family(
        "far",
        "long pairs with a LARGE edit distance: (a) two mostly unrelated sequences of 2500..5000 items (thorough up to 9000) sharing 5..80 landmarks (the search runs for thousands of rounds), (b) common head/tail around a replaced block with strongly asymmetric sizes (10..6000 old items replaced by 10..6000 unrelated new items) x {Myers, Patience}, (c) lopsided AND deep: 0..60 items against 8300..12500 unrelated ones (more than 4096 search rounds in a box one of whose sides is shorter than that), (d) LCS on unrelated inputs of 1100..2600 items per side (millions of table cells); C03 compares with the DP optimum; deadline none + 4 sampled expiry points (not C03)",
        false,
        1,
        move |cfg| if cfg.tiny { 2 } else { cfg.tier.pick(32, 200) },
        move |idx, cfg, out| {
            let mut rng = Rng::for_case(cfg.seed, "captured.far", idx);
            let lcs_sparse = idx == 5 && !cfg.tiny && focus == Focus::C03;
            let kind = if cfg.tiny { 0 } else { idx % 8 };
            if kind == 6 {
                // (c) LOPSIDED AND DEEP: 0..60 items on one side replaced by 8300..12500 unrelated items on the
                // other: one box whose search needs more than 4096 rounds while one side is shorter than the
                // number of rounds.  All items distinct: the optimum is known by construction.
                let small = *rng.pick(&[0usize, 1, 5, 20, 60]);
                let large = rng.range(8300, 12_500);
                let (head, tail) = (rng.below(40), rng.below(40));
                let (a, b) = if rng.chance(1, 2) { gen::asymmetric_replace_distinct(head, tail, small, large) } else { gen::asymmetric_replace_distinct(head, tail, large, small) };
                let alg = if focus == Focus::C03 || rng.chance(1, 2) { Algorithm::Myers } else { Algorithm::Patience };
                out.sample(|| format!("alg={} N={} M={} (lopsided: {} items against {} unrelated ones)", alg_name(alg), a.len(), b.len(), small, large));
                out.count("far_cases_lopsided_above_4096_rounds");
                struct ResetKnown;
                impl Drop for ResetKnown {
                    fn drop(&mut self) {
                        KNOWN_OPTIMUM.with(|k| k.set(None));
                    }
                }
                let _reset = ResetKnown;
                KNOWN_OPTIMUM.with(|k| k.set(Some(small + large)));
                captured_case(focus, cfg, alg, &a, 0..a.len(), &b, 0..b.len(), rng.below(5) as u8, false, out);
                return;
            }
            if kind == 7 {
                // (d) LCS on MID-SIZED unrelated inputs (1100..2600 items per side, 1.2 .. 6.8 million table
                // cells) sharing a few landmarks
                let (n, m) = (rng.range(1100, 2600), rng.range(1100, 2600));
                let k = rng.range(1, 60);
                let crossing = rng.below(4);
                let (a, b) = gen::landmark_pair(&mut rng, n, m, k, crossing);
                out.sample(|| format!("alg=lcs N={} M={} ({} landmarks)", a.len(), b.len(), k));
                out.count("far_cases_lcs_millions_of_cells");
                captured_case(focus, cfg, Algorithm::Lcs, &a, 0..a.len(), &b, 0..b.len(), rng.below(5) as u8, false, out);
                return;
            }
            let (a, b) = if cfg.tiny {
                gen::asymmetric_replace(&mut rng, 2, 2, 5, 1)
            } else if lcs_sparse {
                // LCS far above 16384 x 16384 cells: two unrelated sequences sharing ONE item
                let (n, m) = (rng.range(16_390, 16_450), rng.range(16_390, 16_450));
                gen::landmark_pair(&mut rng, n, m, 1, 0)
            } else if idx % 2 == 0 {
                let hi = cfg.tier.pick(5000, 9000);
                let (n, m) = (rng.range(2500, hi), rng.range(2500, hi));
                let k = rng.range(5, 80);
                let crossing = rng.below(4);
                gen::landmark_pair(&mut rng, n, m, k, crossing)
            } else {
                let sizes = [10usize, 100, 1000, 2600, 4200, 6000];
                let (l1, l2) = (*rng.pick(&sizes), *rng.pick(&sizes));
                let (head, tail) = (rng.below(300), rng.below(300));
                gen::asymmetric_replace(&mut rng, head, tail, l1, l2)
            };
            let alg = if lcs_sparse { Algorithm::Lcs } else if focus == Focus::C03 || rng.chance(1, 2) { Algorithm::Myers } else { Algorithm::Patience };
            out.sample(|| format!("alg={} N={} M={} old={} new={}", alg_name(alg), a.len(), b.len(), fmt_seq(&a), fmt_seq(&b)));
            out.count("far_cases");
            if lcs_sparse {
                out.count("lcs_cases_above_16384x16384_sparse");
                // one shared item, everything else distinct: the optimum is known by construction
                struct ResetKnown;
                impl Drop for ResetKnown {
                    fn drop(&mut self) {
                        KNOWN_OPTIMUM.with(|k| k.set(None));
                    }
                }
                let _reset = ResetKnown;
                let shared = a.iter().filter(|x| **x >= 30_000_000).count().min(1);
                KNOWN_OPTIMUM.with(|k| k.set(Some(a.len() + b.len() - 2 * shared)));
                if focus == Focus::C03 {
                    captured_case(focus, cfg, alg, &a, 0..a.len(), &b, 0..b.len(), 0, false, out);
                } else {
                    // C02: validity without the expiry enumeration (each run costs seconds)
                    out.eval();
                    let r = capture_once(alg, &a, 0..a.len(), &b, 0..b.len(), 0, None, far_deadline());
                    judge(focus, cfg, alg, &a, &(0..a.len()), &b, &(0..b.len()), 0, None, &r, out);
                }
                return;
            }
            captured_case(focus, cfg, alg, &a, 0..a.len(), &b, 0..b.len(), rng.below(5) as u8, false, out);
        },
    ));
    v.push(family(
        "windowed",
        "long sequences (sizes just around 256 / 1024 / 2048 / 4096 / 8192 and 4200, 9000) whose edits are confined to a window of <= 30 items: cheap for ALL THREE algorithms (LCS strips the common prefix/suffix), so LCS is exercised far above 4096 x 4096 items",
        false,
        1,
        move |cfg| if cfg.tiny { 2 } else { cfg.tier.pick(54, 360) },
        move |idx, cfg, out| {
            let mut rng = Rng::for_case(cfg.seed, "captured.windowed", idx);
            let n = if cfg.tiny { 9 } else { gen::SIZES_NEAR_BOUNDARIES[(idx % 18) as usize] };
            let (a, b) = gen::windowed_edit_pair(&mut rng, n, 30);
            let alg = ALGS[(idx / 18 % 3) as usize];
            let alg = if focus == Focus::C03 && alg == Algorithm::Patience { Algorithm::Lcs } else { alg };
            out.sample(|| format!("alg={} N={} M={}", alg_name(alg), a.len(), b.len()));
            out.count("windowed_cases");
            if alg == Algorithm::Lcs && a.len() * b.len() > (1 << 24) {
                out.count("lcs_cases_above_4096x4096");
            }
            captured_case(focus, cfg, alg, &a, 0..a.len(), &b, 0..b.len(), rng.below(5) as u8, false, out);
        },
    ));
    v.push(family(
        "long_runs",
        "runs of 1100..9000 identical items (thorough up to 70000) next to a pure insertion / deletion / an extra marker: the clean-up has to slide an edit across thousands of identical items x 3 algorithms (LCS where the changed region stays small)",
        false,
        1,
        move |cfg| if cfg.tiny { 2 } else { cfg.tier.pick(36, 240) },
        move |idx, cfg, out| {
            let mut rng = Rng::for_case(cfg.seed, "captured.long_runs", idx);
            let run = if cfg.tiny { 6 } else { *rng.pick(&[1100usize, 2100, 4200, 9000, cfg.tier.pick(9000, 70_000)]) };
            let (a, b) = gen::long_run_pair(&mut rng, run);
            let alg = ALGS[rng.below(3)];
            let alg = if focus == Focus::C03 && alg == Algorithm::Patience { Algorithm::Myers } else { alg };
            // LCS only when prefix/suffix stripping leaves a small middle
            let alg = if alg == Algorithm::Lcs && a.len().min(b.len()) > 2500 { Algorithm::Myers } else { alg };
            if focus == Focus::C03 && a.len().max(b.len()) > 6000 {
                return;
            }
            out.sample(|| format!("alg={} N={} M={} (run of {} identical items)", alg_name(alg), a.len(), b.len(), run));
            out.count("long_run_cases");
            captured_case(focus, cfg, alg, &a, 0..a.len(), &b, 0..b.len(), rng.below(5) as u8, false, out);
        },
    ));
    v.push(family(
        "distinct_boundary",
        "n DISTINCT items with n just below 256 / 1024 / 4096 / 65536 where a block of <= 100 items is replaced by enough fresh items that the number of distinct items on both sides together crosses the boundary while each side stays below it; through capture_diff and through TextDiff::configure().diff_slices (integer mapping) x {Myers, Patience}",
        true,
        1,
        move |cfg| if cfg.tiny { 1 } else { 16 },
        move |idx, cfg, out| {
            let mut rng = Rng::for_case(cfg.seed, "captured.distinct_boundary", idx);
            let bound = if cfg.tiny { 8 } else { [256usize, 1024, 4096, 65536][(idx % 4) as usize] };
            // old and new both have n < bound items (idx 12..16: n a little ABOVE the bound); a block of
            // l items is replaced by l fresh ones, so both sides together have n + l > bound distinct items
            let n = if idx >= 12 && !cfg.tiny { bound + 1 + rng.below(bound.min(400) / 4 + 1) } else { bound - 1 - rng.below(bound.min(400) / 4 + 1) };
            let l = ((bound.saturating_sub(n)) + 2 + rng.below(300)).min(n);
            let head = rng.below(n - l + 1);
            let (a, b) = gen::asymmetric_replace_distinct(head, n - l - head, l, l);
            let (a, b) = if idx % 8 < 4 { (a, b) } else { (b, a) };
            let alg = if focus == Focus::C03 || idx % 2 == 0 { Algorithm::Myers } else { Algorithm::Patience };
            out.sample(|| format!("alg={} N={} M={} ({} distinct items overall, boundary {})", alg_name(alg), a.len(), b.len(), n + l, bound));
            out.count("distinct_boundary_cases");
            // all items are distinct, the replaced blocks are unrelated: the optimum is known by construction
            struct ResetKnown;
            impl Drop for ResetKnown {
                fn drop(&mut self) {
                    KNOWN_OPTIMUM.with(|k| k.set(None));
                }
            }
            let _reset = ResetKnown; // also on unwinding: a stale value must never reach another case
            KNOWN_OPTIMUM.with(|k| k.set(Some(2 * l)));
            captured_case(focus, cfg, alg, &a, 0..a.len(), &b, 0..b.len(), 2, false, out);
            captured_case(focus, cfg, alg, &a, 0..a.len(), &b, 0..b.len(), 0, false, out);
        },
    ));
    v.push(family(
        "many_edits",
        "MANY SEPARATE CHANGES: 6000..7500 hunks (thorough up to 12000) in a sequence of otherwise distinct items - more than 10000 raw edit calls and ~2 x hunks captured ops; every 7th hunk needs the clean-up (`q s t` -> `s i s t`), pure insertions and deletions in between x {Myers, Patience}; plus LCS on a pure block deletion / insertion of 10100..13000 items next to such a hunk (one raw call per item); optimum known by construction",
        false,
        1,
        move |cfg| if cfg.tiny { 1 } else { cfg.tier.pick(4, 30) },
        move |idx, cfg, out| {
            let mut rng = Rng::for_case(cfg.seed, "captured.many_edits", idx);
            struct ResetKnown;
            impl Drop for ResetKnown {
                fn drop(&mut self) {
                    KNOWN_OPTIMUM.with(|k| k.set(None));
                }
            }
            let _reset = ResetKnown;
            if idx % 3 == 2 && !cfg.tiny {
                // LCS: one block of thousands of items removed (or added) in front of a clean-up-sensitive hunk
                let block = rng.range(10_100, 13_000);
                let head = rng.below(50);
                let mut a: Vec<u32> = (0..head as u32).map(|i| 1_000_000 + i).collect();
                let mut b = a.clone();
                a.extend((0..block as u32).map(|i| 10_000_000 + i));
                a.extend_from_slice(&[5, 50, 6, 7]);
                b.extend_from_slice(&[5, 6, 60, 6, 7]);
                a.extend((0..30u32).map(|i| 2_000_000 + i));
                b.extend((0..30u32).map(|i| 2_000_000 + i));
                let (a, b) = if rng.chance(1, 2) { (a, b) } else { (b, a) };
                KNOWN_OPTIMUM.with(|k| k.set(Some(block + 3)));
                out.sample(|| format!("alg=lcs N={} M={} (block of {} items on one side only)", a.len(), b.len(), block));
                out.count("many_edits_lcs_block_cases");
                captured_case(focus, cfg, Algorithm::Lcs, &a, 0..a.len(), &b, 0..b.len(), rng.below(5) as u8, false, out);
                return;
            }
            let hunks = if cfg.tiny { 8 } else { rng.range(6000, cfg.tier.pick(7500, 12_000)) };
            let (a, b, opt) = gen::many_hunks_pair(hunks);
            let (a, b) = if rng.chance(1, 2) { (a, b) } else { (b, a) };
            let alg = if focus == Focus::C03 || idx % 2 == 0 { Algorithm::Myers } else { Algorithm::Patience };
            KNOWN_OPTIMUM.with(|k| k.set(Some(opt)));
            out.sample(|| format!("alg={} N={} M={} ({} hunks, optimum {})", alg_name(alg), a.len(), b.len(), hunks, opt));
            out.count("many_edits_cases");
            captured_case(focus, cfg, alg, &a, 0..a.len(), &b, 0..b.len(), rng.below(5) as u8, false, out);
        },
    ));
    v.push(family(
        "moved_blocks",
        "all items unique per side: ordered common items in 4..40 runs of 2..19 items separated by one-sided noise, and a contiguous block of 20..70 common items that sits at DIFFERENT places of the two sides (moved across the runs) x {Myers, Patience} (C03: Myers, LCS when small): a search that commits to the first long snake it meets is no longer minimal; DP oracle",
        false,
        1,
        move |cfg| if cfg.tiny { 2 } else { cfg.n(80, 6000) },
        move |idx, cfg, out| {
            let mut rng = Rng::for_case(cfg.seed, "captured.moved_blocks", idx);
            let runs = if cfg.tiny { 2 } else { rng.range(4, 40) };
            let max_run = if cfg.tiny { 2 } else { *rng.pick(&[4usize, 8, 12, 19]) };
            let block = if cfg.tiny { 3 } else { rng.range(20, 70) };
            let noise = if cfg.tiny { 1 } else { *rng.pick(&[2usize, 6, 12, 25]) };
            let (a, b) = gen::moved_block_pair(&mut rng, runs, max_run, block, noise);
            let alg = if focus == Focus::C03 {
                if a.len().max(b.len()) < 400 && rng.chance(1, 4) { Algorithm::Lcs } else { Algorithm::Myers }
            } else {
                ALGS[rng.below(3)]
            };
            let alg = if alg == Algorithm::Lcs && a.len().max(b.len()) > 1500 { Algorithm::Myers } else { alg };
            out.sample(|| format!("alg={} N={} M={} ({} runs, block of {})", alg_name(alg), a.len(), b.len(), runs, block));
            out.count("moved_block_cases");
            captured_case(focus, cfg, alg, &a, 0..a.len(), &b, 0..b.len(), rng.below(5) as u8, false, out);
        },
    ));
    v.push(family(
        "ubiquitous_between_fresh",
        "101..260 tokens: paragraphs of distinct lines separated by ONE ubiquitous token (a blank line: 9..40 occurrences), where around some of the separators two or three ONE-SIDED tokens stand directly before and after it on one side (remarks added / removed around a blank line) - a pre-pass that discards 'irrelevant' occurrences of frequent tokens loses an item of the longest common subsequence; through the text entry point (integer mapping above 100 tokens) and capture_diff x {Myers, Patience, Lcs}; DP oracle",
        false,
        2,
        move |cfg| cfg.n(400, 8000),
        move |idx, cfg, out| {
            let mut rng = Rng::for_case(cfg.seed, "captured.ubiquitous", idx);
            let paragraphs = if cfg.tiny { 3 } else { rng.range(9, 40) };
            let mut a: Vec<u32> = Vec::new();
            let mut b: Vec<u32> = Vec::new();
            let mut fresh = 1_000_000u32;
            let mut next = 100u32;
            for _ in 0..paragraphs {
                let k = 1 + rng.below(if cfg.tiny { 2 } else { 6 });
                for _ in 0..k {
                    a.push(next);
                    b.push(next);
                    next += 1;
                }
                // the separator, possibly with one-sided tokens right before and after it
                let mode = rng.below(5);
                let (na, nb) = (2 + rng.below(2), 2 + rng.below(2));
                let side_a = rng.chance(1, 2);
                let mut put = |v: &mut Vec<u32>, n: usize, fresh: &mut u32| {
                    for _ in 0..n {
                        v.push(*fresh);
                        *fresh += 1;
                    }
                };
                if mode <= 1 {
                    if side_a { put(&mut a, na, &mut fresh) } else { put(&mut b, na, &mut fresh) }
                }
                a.push(5);
                b.push(5);
                if mode == 1 || mode == 2 {
                    if side_a { put(&mut a, nb, &mut fresh) } else { put(&mut b, nb, &mut fresh) }
                }
            }
            let alg = if focus == Focus::C03 { if rng.chance(1, 3) { Algorithm::Lcs } else { Algorithm::Myers } } else { ALGS[rng.below(3)] };
            out.sample(|| format!("alg={} N={} M={} old={} new={}", alg_name(alg), a.len(), b.len(), fmt_seq(&a), fmt_seq(&b)));
            out.count("ubiquitous_token_cases");
            captured_case(focus, cfg, alg, &a, 0..a.len(), &b, 0..b.len(), if idx % 3 == 0 { 0 } else { 2 }, false, out);
        },
    ));
    v.push(family(
        "tolerance",
        "heterogeneous item types with a NON-TRANSITIVE, coarse cross comparison (old u32, new Tol: equal iff |a-b| <= 1): every ordered pair over {0..4} with length <= 4 (thorough 5) + seeded random pairs over {0..9} up to 40 items and edited copies of 101..260 items x 3 algorithms through capture_diff: validity / normal form / carried positions / minimality are all judged under that same cross comparison",
        true,
        16,
        move |cfg| {
            let n = gen::all_seqs(5, if cfg.tiny { 2 } else { cfg.tier.pick(4, 5) }).len() as u64;
            n * n
        },
        move |idx, cfg, out| {
            let seqs = gen::all_seqs(5, if cfg.tiny { 2 } else { cfg.tier.pick(4, 5) });
            let (a, b) = gen::pair_of(seqs, idx);
            let a: Vec<u32> = a.iter().map(|x| *x as u32).collect();
            let b: Vec<u32> = b.iter().map(|x| *x as u32).collect();
            out.sample(|| format!("old={:?} new(Tol)={:?}", a, b));
            tolerance_case(focus, cfg, &a, &b, out);
            if idx % 16 == 0 {
                let mut rng = Rng::for_case(cfg.seed, "captured.tolerance", idx);
                // every 4th of these: MORE THAN 100 items (sizes at which a text diff maps items to integers)
                let big = idx % 64 == 0 && !cfg.tiny;
                let cap = if cfg.tiny { 5 } else if big { 260 } else { 40 };
                let la = if big { 101 + rng.below(cap - 100) } else { rng.below(cap) };
                let lb = if big { 101 + rng.below(cap - 100) } else { rng.below(cap) };
                let alpha = if big { 10 + rng.below(60) } else { 10 };
                let a: Vec<u32> = (0..la).map(|_| rng.below(alpha) as u32).collect();
                let b: Vec<u32> = if rng.chance(1, 2) && !big { (0..lb).map(|_| rng.below(alpha) as u32).collect() } else { gen::point_edits(&mut rng, &a, if big { 6 } else { 3 }, alpha as u32, if big { 400 } else { 44 }) };
                if big {
                    out.count("tolerance_cases_above_100_items");
                }
                tolerance_case(focus, cfg, &a, &b, out);
            }
        },
    ));
    v.push(family(
        "structured",
        "inputs with special STRUCTURE: all-equal, alternating, period 3, palindromes (with / without a centre), reversal, prefix, suffix, rotation, doubled, interleaving, phase-shifted alternation, every item doubled, halves swapped; lengths 0..40 (and up to 400 for Myers/Patience) x 3 algorithms; deadline none + expiry points (not C03)",
        false,
        8,
        move |cfg| cfg.n(6_000, 120_000),
        move |idx, cfg, out| {
            let mut rng = Rng::for_case(cfg.seed, "captured.structured", idx);
            let alg = ALGS[rng.below(3)];
            let alg = if focus == Focus::C03 && alg == Algorithm::Patience { Algorithm::Myers } else { alg };
            let max = if cfg.tiny { 6 } else if alg == Algorithm::Lcs || idx % 4 != 0 { 40 } else { 400 };
            let (a, b, kind) = gen::structured_pair(&mut rng, max);
            let (a, b) = if rng.chance(1, 2) { (a, b) } else { (b, a) };
            out.sample(|| format!("alg={} structure={} old={} new={}", alg_name(alg), kind, fmt_seq(&a), fmt_seq(&b)));
            captured_case(focus, cfg, alg, &a, 0..a.len(), &b, 0..b.len(), rng.below(5) as u8, a.len() + b.len() <= 40, out);
        },
    ));
    v.push(family(
        "stacks_and_lookups",
        "the same diffs through other capture pipelines, which must give exactly the ops of capture_diff: (a) Compact::new(Replace::new(&mut capture), ..) with a BORROWED capture hook, (b) capture_diff through IdentifyDistinct::<u16|u32> lookups of sub-ranges with DIFFERENT non-zero starts (ops are judged against the caller's ranges), (c) a doubled Replace adapter, (d) the captured ops replayed with apply_to_hook into a fresh Replace<Capture>; seeded random pairs up to 60 items x 3 algorithms",
        false,
        16,
        move |cfg| cfg.n(6_000, 120_000),
        move |idx, cfg, out| {
            let mut rng = Rng::for_case(cfg.seed, "captured.stacks", idx);
            let (a, b) = gen::rand_pair(&mut rng, if cfg.tiny { 6 } else { 40 });
            let (po, pn) = (rng.below(5), 5 + rng.below(5));
            let mut pa = vec![900u32; po];
            pa.extend_from_slice(&a);
            pa.extend_from_slice(&[901, 901]);
            let mut pb = vec![902u32; pn];
            pb.extend_from_slice(&b);
            pb.push(903);
            let (or, nr) = (po..po + a.len(), pn..pn + b.len());
            let alg = ALGS[rng.below(3)];
            if focus == Focus::C03 && alg == Algorithm::Patience {
                return;
            }
            out.sample(|| format!("alg={} old={} range {:?} new={} range {:?}", alg_name(alg), fmt_seq(&pa), or, fmt_seq(&pb), nr));
            if a != b && !a.is_empty() && !b.is_empty() {
                out.nontrivial(&(focus.tag(), "stacks", alg_name(alg), &pa, po, &pb, pn));
            }
            let reference = guard(|| capture_diff(alg, &pa[..], or.clone(), &pb[..], nr.clone()));
            let pipeline = |which: u8, repair: bool| -> Result<Run, String> {
                let swaps0 = vh::swaps();
                vh::set_swap_repair(repair);
                let r = guard(|| {
                    if which == 10 {
                        // (a) borrowed capture hook
                        let mut cap = similar::algorithms::Capture::new();
                        {
                            let mut d = similar::algorithms::Compact::new(similar::algorithms::Replace::new(&mut cap), &pa[..], &pb[..]);
                            similar::algorithms::diff(alg, &mut d, &pa[..], or.clone(), &pb[..], nr.clone()).unwrap();
                        }
                        cap.into_ops()
                    } else if which == 14 {
                        // (e) a buffering adapter passed BY REFERENCE as the inner stage
                        let mut r = similar::algorithms::Replace::new(similar::algorithms::Capture::new());
                        {
                            let mut c = similar::algorithms::Compact::new(&mut r, &pa[..], &pb[..]);
                            similar::algorithms::diff(alg, &mut c, &pa[..], or.clone(), &pb[..], nr.clone()).unwrap();
                        }
                        r.into_inner().into_ops()
                    } else if which == 12 {
                        // (c) a doubled Replace adapter
                        let mut d = similar::algorithms::Compact::new(similar::algorithms::Replace::new(similar::algorithms::Replace::new(similar::algorithms::Capture::new())), &pa[..], &pb[..]);
                        similar::algorithms::diff(alg, &mut d, &pa[..], or.clone(), &pb[..], nr.clone()).unwrap();
                        d.into_inner().into_inner().into_inner().into_ops()
                    } else if which == 13 {
                        // (d) the captured ops replayed (apply_to_hook) into a fresh Replace<Capture>
                        let ops = capture_diff(alg, &pa[..], or.clone(), &pb[..], nr.clone());
                        let mut r = similar::algorithms::Replace::new(similar::algorithms::Capture::new());
                        for op in &ops {
                            op.apply_to_hook(&mut r).unwrap();
                        }
                        similar::algorithms::DiffHook::finish(&mut r).unwrap();
                        r.into_inner().into_ops()
                    } else if idx % 2 == 0 {
                        // (b) through the integer mapping
                        let h = similar::algorithms::IdentifyDistinct::<u16>::new(&pa[..], or.clone(), &pb[..], nr.clone());
                        capture_diff(alg, h.old_lookup(), h.old_range(), h.new_lookup(), h.new_range())
                    } else {
                        let h = similar::algorithms::IdentifyDistinct::<u32>::new(&pa[..], or.clone(), &pb[..], nr.clone());
                        capture_diff(alg, h.old_lookup(), h.old_range(), h.new_lookup(), h.new_range())
                    }
                });
                vh::set_swap_repair(false);
                r.map(|ops| Run { ops, swaps: vh::swaps() - swaps0, probes: 0 })
            };
            let eq = |o: usize, n: usize| pa[o] == pb[n];
            for (what, which) in [
                ("Compact<Replace<&mut Capture>>", 10u8),
                ("capture_diff through IdentifyDistinct lookups", 11u8),
                ("Compact<Replace<Replace<Capture>>>", 12u8),
                ("captured ops replayed via apply_to_hook into Replace<Capture>", 13u8),
                ("Compact<&mut Replace<Capture>>", 14u8),
            ] {
                out.eval();
                let run = pipeline(which, false);
                if focus == Focus::C11 {
                    // own attribution: the SAME pipeline is re-run with the repair switch
                    if let Ok(r) = &run {
                        let v = check_ops(&r.ops, &eq, or.clone(), nr.clone());
                        let c = || ctx(alg, &pa, &or, &pb, &nr, which, None);
                        for (code, msg) in &v.script {
                            if code.ends_with("_position") {
                                out.violation(code, format!("{} | {} | ops={}", msg, c(), fmt_ops(&r.ops)));
                            }
                        }
                        if v.script.is_empty() && !v.carried.is_empty() {
                            let mut is_kf1 = false;
                            if cfg.is_known(KF1) && r.swaps > 0 {
                                if let Ok(r2) = pipeline(which, true) {
                                    let v2 = check_ops(&r2.ops, &eq, or.clone(), nr.clone());
                                    is_kf1 = v2.script.is_empty() && v2.carried.is_empty();
                                }
                            }
                            if is_kf1 {
                                out.known_finding(KF1, || format!("{} | {} | ops={}", v.carried[0].1, c(), fmt_ops(&r.ops)));
                            } else {
                                for (code, msg) in &v.carried {
                                    out.violation(code, format!("{} | {} | ops={} | swaps in this run: {}", msg, c(), fmt_ops(&r.ops), r.swaps));
                                }
                            }
                        }
                    }
                    continue;
                }
                // judged exactly like a capture_diff result, against the CALLER's ranges
                let got = judge(focus, cfg, alg, &pa, &or, &pb, &nr, which, None, &run, out);
                if let (Some(g), Ok(want)) = (&got, &reference) {
                    if focus == Focus::C02 && g != want {
                        out.violation(
                            "ops.pipeline_differs",
                            format!("{} gives {} but capture_diff gives {} | alg={} old={} range {:?} new={} range {:?}", what, fmt_ops(g), fmt_ops(want), alg_name(alg), fmt_seq(&pa), or, fmt_seq(&pb), nr),
                        );
                    }
                }
            }
        },
    ));
    v.push(family(
        "sorted_windows",
        "item VALUES with structure (the dispatching entry points may consult Ord): old and new are windows of one sorted sequence (log rotation: old = s..s+n, new = s+n-k..s+n-k+m for overlap k in {0,1,2,5,half}), constant runs meeting at one value, strictly decreasing values, old all smaller / all larger than new; total sizes 10..3000 (around 1024 and 2048 in particular) x 3 algorithms x all capture entry points; the optimum is known by construction (C03)",
        false,
        1,
        move |cfg| if cfg.tiny { 4 } else { cfg.tier.pick(240, 1600) },
        move |idx, cfg, out| {
            let mut rng = Rng::for_case(cfg.seed, "captured.sorted_windows", idx);
            let total = if cfg.tiny { 8 } else { *rng.pick(&[10usize, 60, 500, 1000, 1022, 1024, 1026, 1030, 1500, 2046, 2050, 3000]) };
            let n = (total / 2 + rng.below(total / 4 + 1)).max(1);
            let m = (total - n.min(total)).max(1);
            let kind = idx % 6;
            let s = rng.below(1000) as u32;
            let (a, b, opt, what): (Vec<u32>, Vec<u32>, usize, &str) = match kind {
                0 | 1 => {
                    // sliding window over sorted distinct values
                    let k = (*rng.pick(&[0usize, 1, 1, 2, 5, n / 2])).min(n).min(m);
                    let a: Vec<u32> = (0..n as u32).map(|i| s + i).collect();
                    let b: Vec<u32> = (0..m as u32).map(|i| s + (n - k) as u32 + i).collect();
                    (a, b, n + m - 2 * k, "sliding window over sorted distinct values")
                }
                2 => {
                    // constant runs that meet in one shared value: old = x^n, new = x^m  (max(old) == min(new))
                    let a = vec![s; n];
                    let b = vec![s; m];
                    (a, b, n.max(m) - n.min(m), "constant runs of one value")
                }
                3 => {
                    // non-decreasing with duplicates; old's largest value is new's smallest, shared c times
                    let c = 1 + rng.below(4);
                    let mut a: Vec<u32> = (0..n.saturating_sub(c) as u32).map(|i| s + i / 2).collect();
                    let top = a.last().copied().unwrap_or(s) + 1;
                    a.extend(std::iter::repeat(top).take(c));
                    let mut b: Vec<u32> = std::iter::repeat(top).take(c).collect();
                    b.extend((0..m.saturating_sub(c) as u32).map(|i| top + 1 + i / 2));
                    let (la, lb) = (a.len(), b.len());
                    (a, b, la + lb - 2 * c, "sorted with duplicates, touching in one repeated value")
                }
                4 => {
                    // strictly decreasing values, new is old with a window removed
                    let a: Vec<u32> = (0..n as u32).map(|i| s + 2 * n as u32 - i).collect();
                    let cut = rng.below(n);
                    let w = rng.below(n - cut + 1).min(20);
                    let mut b = a[..cut].to_vec();
                    b.extend_from_slice(&a[cut + w..]);
                    (a, b, w, "strictly decreasing, a window removed")
                }
                _ => {
                    // all of old larger than all of new except one shared item in the middle of both
                    let mut a: Vec<u32> = (0..n as u32).map(|i| 1_000_000 + i).collect();
                    let mut b: Vec<u32> = (0..m as u32).map(|i| 10 + i).collect();
                    let (pa, pb) = (rng.below(n), rng.below(m));
                    a[pa] = 5;
                    b[pb] = 5;
                    (a, b, n + m - 2, "old all larger than new, one shared item")
                }
            };
            let (a, b) = if rng.chance(1, 2) { (a, b) } else { (b, a) };
            let alg = ALGS[rng.below(3)];
            let alg = if focus == Focus::C03 && alg == Algorithm::Patience { Algorithm::Myers } else { alg };
            // LCS: keep the table affordable
            let alg = if alg == Algorithm::Lcs && a.len() * b.len() > 1_200_000 { Algorithm::Myers } else { alg };
            out.sample(|| format!("alg={} N={} M={} {} (optimum {}) old={} new={}", alg_name(alg), a.len(), b.len(), what, opt, fmt_seq(&a), fmt_seq(&b)));
            out.count("sorted_window_cases");
            struct ResetKnown;
            impl Drop for ResetKnown {
                fn drop(&mut self) {
                    KNOWN_OPTIMUM.with(|k| k.set(None));
                }
            }
            let _reset = ResetKnown;
            KNOWN_OPTIMUM.with(|k| k.set(Some(opt)));
            let entry = [4u8, 1, 0, 4, 2, 3][(idx / 6 % 6) as usize];
            captured_case(focus, cfg, alg, &a, 0..a.len(), &b, 0..b.len(), entry, false, out);
        },
    ));
    if focus != Focus::C03 {
        v.push(family(
            "many_hunks",
            "diffs with MORE THAN 65 536 raw callbacks: 33 000..45 000 unique items, each followed in new by an inserted separator (one hunk per item), plus slidable edits at the end ([1,0] -> [2,1,0,0], [5,5] -> [5,5,5], [7,8,7] -> [7,8,7,8,7]) whose items also occur in a common trailer so that they are no Patience anchors; Patience through capture_diff(_slices) and the OddStr line diff",
            false,
            1,
            move |cfg| if cfg.tiny { 1 } else { cfg.tier.pick(3, 9) },
            move |idx, cfg, out| {
                let mut rng = Rng::for_case(cfg.seed, "captured.many_hunks", idx);
                let n = if cfg.tiny { 6 } else { rng.range(33_000, 45_000) };
                let mut a: Vec<u32> = Vec::with_capacity(n + 40);
                let mut b: Vec<u32> = Vec::with_capacity(2 * n + 40);
                for i in 0..n as u32 {
                    a.push(1000 + i);
                    b.push(1000 + i);
                    b.push(if idx % 3 == 0 { 999 } else { 900 + i % 7 });
                }
                for (ta, tb) in [(&[1u32, 0][..], &[2u32, 1, 0, 0][..]), (&[5, 5][..], &[5, 5, 5][..]), (&[7, 8, 7][..], &[7, 8, 7, 8, 7][..])] {
                    a.extend_from_slice(ta);
                    b.extend_from_slice(tb);
                    a.push(500_000 + a.len() as u32);
                    b.push(*a.last().unwrap());
                }
                let trailer = [1u32, 0, 2, 5, 7, 8, 1, 0];
                a.extend_from_slice(&trailer);
                b.extend_from_slice(&trailer);
                out.sample(|| format!("alg=patience N={} M={} ({} one-item hunks + slidable edits)", a.len(), b.len(), n));
                out.count("many_hunk_cases");
                let entry = [1u8, 0, 3][(idx % 3) as usize];
                captured_case(focus, cfg, Algorithm::Patience, &a, 0..a.len(), &b, 0..b.len(), entry, false, out);
            },
        ));
    }
    if focus == Focus::C09 {
        v.push(family(
            "reentrant_hooks",
            "a user hook below Compact that itself calls capture_diff_slices from inside its callbacks (a diff started while another diff's compaction stage is replaying its ops on the same thread): the nested result must be in normal form and equal to the same call made on its own; seeded random outer and inner pairs x 3 algorithms",
            false,
            8,
            move |cfg| cfg.n(3_000, 60_000),
            move |idx, cfg, out| {
                let mut rng = Rng::for_case(cfg.seed, "captured.reentrant", idx);
                let (a, b) = gen::rand_pair(&mut rng, if cfg.tiny { 6 } else { 30 });
                let (ia, ib) = gen::rand_pair(&mut rng, if cfg.tiny { 6 } else { 14 });
                let alg = ALGS[rng.below(3)];
                let alg_in = ALGS[rng.below(3)];
                out.sample(|| format!("outer alg={} old={} new={}; inner alg={} old={} new={}", alg_name(alg), fmt_seq(&a), fmt_seq(&b), alg_name(alg_in), fmt_seq(&ia), fmt_seq(&ib)));
                struct Nest<'x> {
                    alg: Algorithm,
                    a: &'x [u32],
                    b: &'x [u32],
                    results: Vec<Vec<DiffOp>>,
                }
                impl<'x> Nest<'x> {
                    fn go(&mut self) {
                        if self.results.len() < 4 {
                            self.results.push(capture_diff_slices(self.alg, self.a, self.b));
                        }
                    }
                }
                impl<'x> similar::algorithms::DiffHook for Nest<'x> {
                    type Error = ();
                    fn equal(&mut self, _: usize, _: usize, _: usize) -> Result<(), ()> {
                        self.go();
                        Ok(())
                    }
                    fn delete(&mut self, _: usize, _: usize, _: usize) -> Result<(), ()> {
                        self.go();
                        Ok(())
                    }
                    fn insert(&mut self, _: usize, _: usize, _: usize) -> Result<(), ()> {
                        self.go();
                        Ok(())
                    }
                    fn replace(&mut self, _: usize, _: usize, _: usize, _: usize) -> Result<(), ()> {
                        self.go();
                        Ok(())
                    }
                    fn finish(&mut self) -> Result<(), ()> {
                        self.go();
                        Ok(())
                    }
                }
                out.eval();
                let alone = guard(|| capture_diff_slices(alg_in, &ia, &ib));
                let nested = guard(|| {
                    let mut d = similar::algorithms::Compact::new(similar::algorithms::Replace::new(Nest { alg: alg_in, a: &ia, b: &ib, results: Vec::new() }), &a[..], &b[..]);
                    similar::algorithms::diff_slices(alg, &mut d, &a, &b).unwrap();
                    d.into_inner().into_inner().results
                });
                match (alone, nested) {
                    (Err(p), _) | (_, Err(p)) => out.violation("panic", format!("nested diff panicked: {} | inner alg={} old={} new={}", p, alg_name(alg_in), fmt_seq(&ia), fmt_seq(&ib))),
                    (Ok(alone), Ok(results)) => {
                        out.count_n("nested_diffs_observed", results.len() as u64);
                        if !results.is_empty() && !ia.is_empty() && !ib.is_empty() && ia != ib {
                            out.nontrivial(&("C09.reentrant", alg_name(alg_in), &ia, &ib, &a, &b));
                        }
                        let eq = |o: usize, n: usize| ia[o] == ib[n];
                        for (k, ops) in results.iter().enumerate() {
                            let v = check_ops(ops, &eq, 0..ia.len(), 0..ib.len());
                            for (code, msg) in &v.normal {
                                out.violation(code, format!("{} | capture_diff_slices called from inside hook callback #{} of an outer diff (outer alg={} old={} new={}) | inner alg={} old={} new={} | ops={} | the same call on its own gives {}", msg, k, alg_name(alg), fmt_seq(&a), fmt_seq(&b), alg_name(alg_in), fmt_seq(&ia), fmt_seq(&ib), fmt_ops(ops), fmt_ops(&alone)));
                            }
                        }
                    }
                }
            },
        ));
    }
    if focus != Focus::C03 {
        v.push(family(
            "reversed_empty_ranges",
            "ranges given with start > end (both ends in bounds) are EMPTY ranges positioned at `start`: every pair over {0,1} up to length 4 x every reversed range on one or both sides x 3 algorithms through capture_diff / capture_diff_deadline (none, never expiring, expired at check #0): the ops must consume exactly the other side's range, carry `start` as the position on the empty side, and be in normal form",
            true,
            4,
            move |cfg| {
                let n = gen::all_seqs(2, if cfg.tiny { 2 } else { 4 }).len() as u64;
                n * n
            },
            move |idx, cfg, out| {
                let seqs = gen::all_seqs(2, if cfg.tiny { 2 } else { 4 });
                let (a, b) = gen::pair_of(seqs, idx);
                let a: Vec<u32> = a.iter().map(|x| *x as u32).collect();
                let b: Vec<u32> = b.iter().map(|x| *x as u32).collect();
                out.sample(|| format!("old={:?} new={:?} x reversed (start > end) ranges x 3 algorithms", a, b));
                let reversed = |len: usize| -> Vec<Range<usize>> {
                    let mut v = Vec::new();
                    for s in 1..=len {
                        for e in 0..s {
                            v.push(s..e);
                        }
                    }
                    v
                };
                let mut combos: Vec<(Range<usize>, Range<usize>)> = Vec::new();
                for or in reversed(a.len()) {
                    for nr in gen::subranges(b.len()) {
                        combos.push((or.clone(), nr));
                    }
                    for nr in reversed(b.len()) {
                        combos.push((or.clone(), nr));
                    }
                }
                for nr in reversed(b.len()) {
                    for or in gen::subranges(a.len()) {
                        combos.push((or, nr.clone()));
                    }
                }
                let norm = |r: &Range<usize>| if r.start > r.end { r.start..r.start } else { r.clone() };
                let eq = |o: usize, n: usize| a[o] == b[n];
                for (or, nr) in combos {
                    for alg in ALGS {
                        for dl in 0..3u8 {
                            out.eval();
                            out.count("reversed_range_runs");
                            out.nontrivial(&(focus.tag(), "rev", alg_name(alg), &a, or.start, or.end, &b, nr.start, nr.end));
                            match dl {
                                1 => vh::set_clock(vh::Clock::Fuel(u64::MAX)),
                                2 => vh::set_clock(vh::Clock::Fuel(0)),
                                _ => {}
                            }
                            let r = guard(|| {
                                if dl == 0 {
                                    capture_diff(alg, &a[..], or.clone(), &b[..], nr.clone())
                                } else {
                                    capture_diff_deadline(alg, &a[..], or.clone(), &b[..], nr.clone(), Some(far_deadline()))
                                }
                            });
                            vh::set_clock(vh::Clock::Off);
                            let c = || format!("alg={} entry=capture_diff(_deadline) old={:?} range {:?} new={:?} range {:?} (start > end = empty range at start) deadline={}", alg_name(alg), a, or, b, nr, ["none", "never expires", "expired at check #0"][dl as usize]);
                            match r {
                                Err(p) => {
                                    if focus == Focus::C02 {
                                        out.violation("panic", format!("capture panicked: {} | {}", p, c()));
                                    } else {
                                        out.count("panics_seen_owned_by_C02");
                                    }
                                }
                                Ok(ops) => {
                                    let v = check_ops(&ops, &eq, norm(&or), norm(&nr));
                                    let list = match focus {
                                        Focus::C02 => &v.script,
                                        Focus::C09 => &v.normal,
                                        _ => &v.carried,
                                    };
                                    if focus == Focus::C11 && !v.script.is_empty() {
                                        for (code, msg) in v.script.iter().filter(|(code, _)| code.ends_with("_position")) {
                                            out.violation(code, format!("{} | {} | ops={}", msg, c(), fmt_ops(&ops)));
                                        }
                                        continue;
                                    }
                                    for (code, msg) in list {
                                        out.violation(code, format!("{} | {} | ops={}", msg, c(), fmt_ops(&ops)));
                                    }
                                }
                            }
                        }
                    }
                }
            },
        ));
    }
    if focus == Focus::C03 {
        v.push(family(
            "huge_distance",
            "two UNRELATED random sequences over 16 symbols of 9000..14000 items each (one case 20000 x 20000) (edit distance above 8192 / 16384 in ONE box: thousands of search rounds without the forward and backward paths meeting) through capture_diff_slices with Myers, no deadline: cost == N+M-2*LCS by the DP oracle (2 x 10^8 cells)",
            false,
            1,
            move |cfg| if cfg.tiny { 1 } else { cfg.tier.pick(3, 10) },
            move |idx, cfg, out| {
                let mut rng = Rng::for_case(cfg.seed, "captured.huge_distance", idx);
                // case 0: 20000 x 20000 (edit distance well above 16384)
                let (n, m) = if cfg.tiny { (12, 10) } else if idx == 0 { (20_000, 20_000) } else { (rng.range(9000, 14_001), rng.range(9000, 14_001)) };
                let a: Vec<u32> = (0..n).map(|_| rng.below(16) as u32).collect();
                let b: Vec<u32> = (0..m).map(|_| rng.below(16) as u32).collect();
                out.sample(|| format!("alg=myers N={} M={} random over 16 symbols", n, m));
                out.nontrivial(&("C03.huge_distance", n, m, idx));
                out.count("huge_distance_cases");
                out.eval();
                let r = guard(|| capture_diff_slices(Algorithm::Myers, &a, &b));
                match r {
                    Err(p) => out.violation("panic", format!("capture panicked: {} | N={} M={}", p, n, m)),
                    Ok(ops) => {
                        let eq = |o: usize, nn: usize| a[o] == b[nn];
                        let v = check_ops(&ops, &eq, 0..n, 0..m);
                        if !v.script.is_empty() {
                            out.violation(v.script[0].0, format!("(cost undefined) {} | alg=myers N={} M={}", v.script[0].1, n, m));
                            return;
                        }
                        let l = lcs_len(&a[..], &b[..]);
                        let opt = n + m - 2 * l;
                        out.max("edit_distance_in_one_box", opt as f64);
                        if v.deleted + v.inserted != opt {
                            out.violation(
                                "minimal.captured_cost",
                                format!("captured ops delete {} + insert {} items but the optimum is {} (LCS {}) | alg=myers entry=capture_diff_slices N={} M={} random over 16 symbols, no deadline | old={} new={}", v.deleted, v.inserted, opt, l, n, m, fmt_seq(&a), fmt_seq(&b)),
                            );
                        }
                    }
                }
            },
        ));
        v.push(family(
            "deadline_free_text_apis",
            "the text entry points that take NO deadline (utils::diff_chars / diff_words / diff_lines / diff_slices, TextDiff::from_chars / from_words / from_lines / from_slices, TextDiff::configure() without deadline or timeout) run under a virtual clock on which any deadline would already have expired (Fuel(0)): time cannot matter to them, so their Myers and LCS results must still be minimal (DP optimum over the tokens); seeded random token sequences up to 40 tokens",
            false,
            8,
            move |cfg| cfg.n(4_000, 80_000),
            move |idx, cfg, out| {
                let mut rng = Rng::for_case(cfg.seed, "captured.deadline_free", idx);
                let (a, b) = gen::rand_pair(&mut rng, if cfg.tiny { 6 } else { 40 });
                let alg = if rng.chance(1, 2) { Algorithm::Myers } else { Algorithm::Lcs };
                // single-char tokens for the char API, words / lines otherwise
                let letters: Vec<char> = "abcdefghijklmnopqrstuvwxyzABCDEFGHIJKLMNOPQRSTUVWXYZ0123456789".chars().collect();
                let tok = |x: u32| -> char { letters[(x as usize) % letters.len()] };
                let which = (idx % 9) as u8;
                let (ta, tb): (String, String) = match which {
                    0 | 3 | 6 => (a.iter().map(|x| tok(*x)).collect(), b.iter().map(|x| tok(*x)).collect()),
                    1 | 4 | 7 => (a.iter().map(|x| format!("w{}", x)).collect::<Vec<_>>().join(" "), b.iter().map(|x| format!("w{}", x)).collect::<Vec<_>>().join(" ")),
                    _ => (a.iter().map(|x| format!("l{}\n", x)).collect(), b.iter().map(|x| format!("l{}\n", x)).collect()),
                };
                let what = ["utils::diff_chars", "utils::diff_words", "utils::diff_lines", "TextDiff::from_chars", "TextDiff::from_words", "TextDiff::from_lines", "TextDiff::configure().diff_chars", "TextDiff::configure().diff_words", "TextDiff::configure().diff_lines"][which as usize];
                out.sample(|| format!("{} alg={} old={:?} new={:?} under a clock on which every deadline has expired", what, alg_name(alg), ta, tb));
                out.eval();
                vh::set_clock(vh::Clock::Fuel(0));
                // cost = number of tokens in non-Equal changes; tokens as the API itself splits them
                let r = guard(|| -> (usize, Vec<String>, Vec<String>) {
                    use similar::{ChangeTag, DiffableStr};
                    let (toks_a, toks_b): (Vec<&str>, Vec<&str>) = match which % 3 {
                        0 => (ta.tokenize_chars(), tb.tokenize_chars()),
                        1 => (ta.tokenize_words(), tb.tokenize_words()),
                        _ => (ta.tokenize_lines(), tb.tokenize_lines()),
                    };
                    let owned = |v: &[&str]| v.iter().map(|s| s.to_string()).collect::<Vec<_>>();
                    let cost = match which {
                        0 | 1 | 2 => {
                            let v = match which {
                                0 => similar::utils::diff_chars(alg, &ta, &tb),
                                1 => similar::utils::diff_words(alg, &ta, &tb),
                                _ => similar::utils::diff_lines(alg, &ta, &tb),
                            };
                            // these helpers merge the tokens of one op into one slice: count tokens again
                            v.iter()
                                .filter(|(t, _)| *t != ChangeTag::Equal)
                                .map(|(_, s)| match which {
                                    0 => s.tokenize_chars().len(),
                                    1 => s.tokenize_words().len(),
                                    _ => s.tokenize_lines().len(),
                                })
                                .sum()
                        }
                        _ => {
                            let d = match which {
                                3 => TextDiff::from_chars(&ta, &tb),
                                4 => TextDiff::from_words(&ta, &tb),
                                5 => TextDiff::from_lines(&ta, &tb),
                                6 => TextDiff::configure().algorithm(alg).diff_chars(&ta, &tb),
                                7 => TextDiff::configure().algorithm(alg).diff_words(&ta, &tb),
                                _ => TextDiff::configure().algorithm(alg).diff_lines(&ta, &tb),
                            };
                            d.iter_all_changes().filter(|c| c.tag() != ChangeTag::Equal).count()
                        }
                    };
                    (cost, owned(&toks_a), owned(&toks_b))
                });
                let probes = vh::probes();
                vh::set_clock(vh::Clock::Off);
                out.count_n("deadline_probes_without_deadline_observed", probes.1);
                match r {
                    Err(p) => out.violation("panic", format!("{} panicked: {} | old={:?} new={:?}", what, p, ta, tb)),
                    Ok((cost, toks_a, toks_b)) => {
                        let l = lcs_len(&toks_a[..], &toks_b[..]);
                        let opt = toks_a.len() + toks_b.len() - 2 * l;
                        if !toks_a.is_empty() && !toks_b.is_empty() && toks_a != toks_b {
                            out.nontrivial(&("C03.deadline_free", which, &ta, &tb));
                        }
                        if cost != opt {
                            out.violation(
                                "minimal.deadline_free_api",
                                format!("{} (no deadline in its signature; {}) changes {} tokens but the optimum is {} | old={:?} new={:?} | run under a virtual clock on which any deadline has expired: {} deadline checks carried a deadline", what, if (3..=5).contains(&which) { "default algorithm Myers".to_string() } else { format!("alg={}", alg_name(alg)) }, cost, opt, ta, tb, probes.0),
                            );
                        }
                    }
                }
            },
        ));
    }
    if focus == Focus::C02 {
        v.push(family(
            "huge_lengths",
            "the ratio on inputs far beyond f32's 2^24 integer precision: (a) get_diff_ratio on hand-built VALID op lists for sequences of L items (L around 2^24, 2^25, 2^26, 2^31, 2^32, 2^40, 2^53, 2^62) that differ in 1..3 places (substitution / deletion / insertion / both) or not at all: must lie in 0..=1 and be 1.0 exactly for the identical pair; (b) REAL sequences of 2^24+4 and 2^25+6 items differing in one place through capture_diff_slices x 3 algorithms, judged like every other captured script",
            true,
            1,
            move |cfg| if cfg.tiny { 24 } else { 8 * 12 * 4 + cfg.tier.pick(3, 6) },
            move |idx, cfg, out| {
                const LS: [usize; 12] = [
                    (1 << 24) - 2,
                    (1 << 24) + 1,
                    (1 << 24) + 3,
                    (1 << 24) + 4,
                    (1 << 25) + 6,
                    (1 << 26) + 10,
                    (1 << 27) + 1,
                    (1usize << 31) + 3,
                    (1usize << 32) + 5,
                    (1usize << 40) + 7,
                    (1usize << 53) + 9,
                    (1usize << 62) - 1,
                ];
                let synthetic = if cfg.tiny { 24 } else { 8 * 12 * 4 };
                if idx < synthetic {
                    let l = LS[(idx % 12) as usize];
                    let shape = (idx / 12 % 4) as usize;
                    let k = (idx / 48) as usize; // 0 = identical, 1..7: position of the change
                    let pos = match k {
                        0 => 0,
                        1 => 0,
                        2 => 1,
                        3 => l / 3,
                        4 => l / 2,
                        5 => l - 2,
                        6 => l - 1,
                        _ => l / 7 * 5,
                    };
                    // old = L items; the change sits at `pos`
                    let (ops, n, m, same): (Vec<DiffOp>, usize, usize, bool) = if k == 0 {
                        (vec![DiffOp::Equal { old_index: 0, new_index: 0, len: l }], l, l, true)
                    } else {
                        let mut ops = Vec::new();
                        if pos > 0 {
                            ops.push(DiffOp::Equal { old_index: 0, new_index: 0, len: pos });
                        }
                        let (n, m, o_next, n_next) = match shape {
                            0 => {
                                ops.push(DiffOp::Replace { old_index: pos, old_len: 1, new_index: pos, new_len: 1 });
                                (l, l, pos + 1, pos + 1)
                            }
                            1 => {
                                ops.push(DiffOp::Delete { old_index: pos, old_len: 1, new_index: pos });
                                (l, l - 1, pos + 1, pos)
                            }
                            2 => {
                                ops.push(DiffOp::Insert { old_index: pos, new_index: pos, new_len: 1 });
                                (l, l + 1, pos, pos + 1)
                            }
                            _ => {
                                ops.push(DiffOp::Replace { old_index: pos, old_len: 1, new_index: pos, new_len: 2 });
                                (l, l + 1, pos + 1, pos + 2)
                            }
                        };
                        if o_next < n {
                            ops.push(DiffOp::Equal { old_index: o_next, new_index: n_next, len: n - o_next });
                        }
                        (ops, n, m, false)
                    };
                    out.sample(|| format!("get_diff_ratio on hand-built ops={} for N={} M={}", fmt_ops(&ops), n, m));
                    if !same {
                        out.nontrivial(&("C02.huge_ratio", n, m, pos, shape));
                    }
                    out.eval();
                    out.count("huge_length_ratio_cases");
                    match guard(|| get_diff_ratio(&ops, n, m)) {
                        Err(p) => out.violation("panic", format!("get_diff_ratio panicked: {} | ops={} N={} M={}", p, fmt_ops(&ops), n, m)),
                        Ok(ratio) => {
                            if !(0.0..=1.0).contains(&ratio) {
                                out.violation("ratio.out_of_range", format!("ratio {} | hand-built valid ops={} N={} M={}", ratio, fmt_ops(&ops), n, m));
                            }
                            if (ratio == 1.0) != same {
                                out.violation(
                                    "ratio.one_iff_equal",
                                    format!("ratio {} but the sequences are {} | hand-built valid ops={} N={} M={}", ratio, if same { "equal" } else { "different" }, fmt_ops(&ops), n, m),
                                );
                            }
                        }
                    }
                    return;
                }
                // (b) real sequences
                let j = idx - synthetic;
                let l = if j < 3 { (1usize << 24) + 4 } else { (1usize << 25) + 6 };
                let alg = ALGS[(j % 3) as usize];
                let a: Vec<u32> = (0..l).map(|i| (i % 7) as u32).collect();
                let mut b = a.clone();
                let pos = [l / 2, 5, l - 3][(j % 3) as usize];
                b[pos] = 99;
                out.sample(|| format!("alg={} N=M={} one substitution at {} through capture_diff_slices", alg_name(alg), l, pos));
                out.count("huge_length_real_cases");
                out.nontrivial(&("C02.huge_real", l, pos, alg_name(alg)));
                out.eval();
                let r = capture_once(alg, &a, 0..l, &b, 0..l, 1, None, far_deadline());
                judge(focus, cfg, alg, &a, &(0..l), &b, &(0..l), 1, None, &r, out);
            },
        ));
    }
    v
}

struct Run {
    ops: Vec<DiffOp>,
    swaps: u64,
    probes: u64,
}

/// One capture call under the given clock.  entry: 0 capture_diff(_deadline),
/// 1 capture_diff_slices(_deadline) (full ranges only), 2 TextDiff over string
/// tokens (full ranges only, deadline through the builder).
fn capture_once(
    alg: Algorithm,
    a: &[u32],
    or: Range<usize>,
    b: &[u32],
    nr: Range<usize>,
    entry: u8,
    clock: Option<vh::Clock>,
    far: Instant,
) -> Result<Run, String> {
    let full = or == (0..a.len()) && nr == (0..b.len());
    let entry = if full || entry >= 5 { entry } else { 0 };
    let swaps0 = vh::swaps();
    if let Some(c) = clock {
        vh::set_clock(c);
    } else {
        vh::set_clock(vh::Clock::Off);
    }
    let deadline = clock.map(|_| far);
    let r = guard(|| match entry {
        0 => {
            if deadline.is_some() {
                capture_diff_deadline(alg, a, or.clone(), b, nr.clone(), deadline)
            } else {
                capture_diff(alg, a, or.clone(), b, nr.clone())
            }
        }
        1 => {
            if deadline.is_some() {
                capture_diff_slices_deadline(alg, a, b, deadline)
            } else {
                capture_diff_slices(alg, a, b)
            }
        }
        5 => {
            // the capture hook alone: the algorithm's raw calls recorded as ops
            let mut d = similar::algorithms::Capture::new();
            similar::algorithms::diff_deadline(alg, &mut d, a, or.clone(), b, nr.clone(), deadline).unwrap();
            d.into_ops()
        }
        6 => {
            // Replace<Capture> without the compaction stage
            let mut d = similar::algorithms::Replace::new(similar::algorithms::Capture::new());
            similar::algorithms::diff_deadline(alg, &mut d, a, or.clone(), b, nr.clone(), deadline).unwrap();
            d.into_inner().into_ops()
        }
        7 => {
            // Replace in front of the finish-suppressing wrapper (as when several sections are diffed into one capture)
            let mut d = similar::algorithms::Replace::new(similar::algorithms::NoFinishHook::new(similar::algorithms::Capture::new()));
            similar::algorithms::diff_deadline(alg, &mut d, a, or.clone(), b, nr.clone(), deadline).unwrap();
            d.into_inner().into_inner().into_ops()
        }
        8 | 9 => {
            // a LONG-LIVED Replace<Capture> that has already served another diff (the reverse one, which
            // ends at other positions) and was drained in between; 9: behind a fresh Compact stage
            use similar::algorithms::{Capture, Compact, Replace};
            let mut hook = Replace::new(Capture::new());
            similar::algorithms::diff(alg, &mut hook, b, nr.clone(), a, or.clone()).unwrap();
            let _ = std::mem::take(hook.as_mut()).into_ops();
            if entry == 8 {
                similar::algorithms::diff_deadline(alg, &mut hook, a, or.clone(), b, nr.clone(), deadline).unwrap();
            } else {
                let mut c = Compact::new(&mut hook, a, b);
                similar::algorithms::diff_deadline(alg, &mut c, a, or.clone(), b, nr.clone(), deadline).unwrap();
            }
            std::mem::take(hook.as_mut()).into_ops()
        }
        3 => Vec::new(), // run below
        4 => {
            // the slice entry points of the algorithms module, driving the capture stack directly
            let mut d = similar::algorithms::Compact::new(similar::algorithms::Replace::new(similar::algorithms::Capture::new()), a, b);
            if deadline.is_some() {
                similar::algorithms::diff_slices_deadline(alg, &mut d, a, b, deadline).unwrap();
            } else {
                similar::algorithms::diff_slices(alg, &mut d, a, b).unwrap();
            }
            d.into_inner().into_inner().into_ops()
        }
        _ => {
            // (caller-supplied tokens may be anything: item 0 becomes the EMPTY token, item 1 a token of
            // more than 7 bytes, the rest short ones - the mapping stays injective)
            let tok = |x: &u32| match *x {
                0 => String::new(),
                1 => "a-rather-long-token\n".to_string(),
                x => format!("t{}\n", x),
            };
            let sa: Vec<String> = a.iter().map(tok).collect();
            let sb: Vec<String> = b.iter().map(tok).collect();
            let ra: Vec<&str> = sa.iter().map(|s| s.as_str()).collect();
            let rb: Vec<&str> = sb.iter().map(|s| s.as_str()).collect();
            let mut c = TextDiff::configure();
            c.algorithm(alg);
            if let Some(d) = deadline {
                c.deadline(d);
            }
            let d = c.diff_slices(&ra, &rb);
            d.ops().to_vec()
        }
    });
    let r = if entry == 3 { guard(|| odd_text_ops(alg, a, b, deadline)) } else { r };
    let probes = vh::probes().0;
    vh::set_clock(vh::Clock::Off);
    r.map(|ops| Run {
        ops,
        swaps: vh::swaps() - swaps0,
        probes,
    })
}

/// entry 3: the items as LINES of a user-defined text type (`OddStr`): equal items have
/// different bytes (per-occurrence letter case), odd items end in U+2028 instead of LF
fn odd_text_ops(alg: Algorithm, a: &[u32], b: &[u32], deadline: Option<Instant>) -> Vec<DiffOp> {
    use crate::odd_str::{recase, OddStr};
    let mk = |v: &[u32], side: u64| -> String {
        let mut s = String::new();
        for (i, x) in v.iter().enumerate() {
            // (items 2 and 3 are a BLANK and a whitespace-only line; the mapping stays injective)
            let body = match *x {
                2 => String::new(),
                3 => "  ".to_string(),
                x => format!("tok{}", x),
            };
            s.push_str(&recase(&body, side * 1_000_003 + i as u64));
            s.push_str(if x % 2 == 0 { "\n" } else { "\u{2028}" });
        }
        s
    };
    let (ta, tb) = (mk(a, 1), mk(b, 2));
    let mut c = TextDiff::configure();
    c.algorithm(alg);
    if let Some(d) = deadline {
        c.deadline(d);
    }
    let d = c.diff_lines(OddStr::new(&ta), OddStr::new(&tb));
    assert_eq!(d.old_slices().len(), a.len(), "harness: OddStr line count (old)");
    assert_eq!(d.new_slices().len(), b.len(), "harness: OddStr line count (new)");
    d.ops().to_vec()
}

#[allow(clippy::too_many_arguments)]
fn captured_case(
    focus: Focus,
    cfg: &Config,
    alg: Algorithm,
    a: &[u32],
    or: Range<usize>,
    b: &[u32],
    nr: Range<usize>,
    entry: u8,
    all_expiry_points: bool,
    out: &mut Local,
) {
    let n = or.len();
    let m = nr.len();
    // the Instant handed over is a dummy while a virtual clock is installed: far future for
    // half of the cases, in the past for the other half
    let far = dummy_deadline(n + m + a.len());
    let nontrivial = n > 0 && m > 0 && a[or.clone()] != b[nr.clone()];
    if nontrivial {
        out.nontrivial(&(focus.tag(), alg_name(alg), a, or.start, or.end, b, nr.start, nr.end));
    }
    // --- no deadline
    out.eval();
    let base = capture_once(alg, a, or.clone(), b, nr.clone(), entry, None, far);
    let base_ops = judge(focus, cfg, alg, a, &or, b, &nr, entry, None, &base, out);

    // a timeout too large to be added to `now` is "no deadline": still a valid script, same ops
    if focus == Focus::C02 && (n + m) % 4 == 0 && n <= 200 && m <= 200 && or.start == 0 && nr.start == 0 && or.end == a.len() && nr.end == b.len() {
        out.eval();
        let r = guard(|| {
            let sa: Vec<String> = a.iter().map(|x| format!("t{}\n", x)).collect();
            let sb: Vec<String> = b.iter().map(|x| format!("t{}\n", x)).collect();
            let ra: Vec<&str> = sa.iter().map(|s| s.as_str()).collect();
            let rb: Vec<&str> = sb.iter().map(|s| s.as_str()).collect();
            let d = if (n + m) % 8 == 0 { std::time::Duration::MAX } else { std::time::Duration::from_secs(u64::MAX) };
            TextDiff::configure().algorithm(alg).timeout(d).diff_slices(&ra, &rb).ops().to_vec()
        });
        let run = r.map(|ops| Run { ops, swaps: 0, probes: 0 });
        let got = judge(focus, cfg, alg, a, &or, b, &nr, 2, None, &run, out);
        if let (Some(g), Some(b0)) = (&got, &base_ops) {
            if g != b0 {
                out.violation("deadline.never_expiring_differs", format!("TextDiff with timeout(Duration::MAX / u64::MAX s) gives {} but no deadline gives {} | alg={} old={} new={}", fmt_ops(g), fmt_ops(b0), alg_name(alg), fmt_seq(a), fmt_seq(b)));
            }
        }
        out.count("huge_timeout_runs");
    }
    // the full pipeline around a hook object that has been used before must give the same ops
    if (n + m + or.start) % 3 == 0 {
        out.eval();
        out.count("reused_hook_stack_runs");
        let r = capture_once(alg, a, or.clone(), b, nr.clone(), 9, None, far);
        let got = judge(focus, cfg, alg, a, &or, b, &nr, 9, None, &r, out);
        if let (Some(g), Some(b0)) = (&got, &base_ops) {
            if g != b0 && focus == Focus::C02 {
                out.violation("ops.reused_stack_differs", format!("{} gives {} but a fresh stack gives {}", ctx(alg, a, &or, b, &nr, 9, None), fmt_ops(g), fmt_ops(b0)));
            }
        }
    }
    if focus == Focus::C03 {
        return;
    }
    if !focus.with_deadlines() {
        return;
    }
    // --- deadline present but never expiring: learn the number of checks P
    out.eval();
    let never = capture_once(alg, a, or.clone(), b, nr.clone(), entry, Some(vh::Clock::Fuel(u64::MAX)), far);
    let p = match &never {
        Ok(r) => r.probes,
        Err(_) => 0,
    };
    let never_ops = judge(focus, cfg, alg, a, &or, b, &nr, entry, Some(u64::MAX), &never, out);
    if focus == Focus::C02 {
        if let (Some(x), Some(y)) = (&base_ops, &never_ops) {
            if x != y {
                out.violation(
                    "deadline.never_expiring_differs",
                    format!(
                        "{}: a deadline that never expires gives {} but no deadline gives {}",
                        ctx(alg, a, &or, b, &nr, entry, Some(u64::MAX)),
                        fmt_ops(y),
                        fmt_ops(x)
                    ),
                );
            }
        }
    }
    out.max("deadline_checks_per_run", p as f64);
    // --- every expiry point
    let ks: Vec<u64> = if all_expiry_points && p <= 64 {
        (0..=p).collect()
    } else {
        let mut rng = Rng::for_case(cfg.seed, "captured.ks", (n * 1315423911 + m) as u64 ^ p);
        let mut ks = vec![0, 1, 2, p.saturating_sub(1), p];
        for _ in 0..7 {
            ks.push(rng.below(p as usize + 1) as u64);
        }
        ks.sort();
        ks.dedup();
        ks.retain(|k| *k <= p);
        ks
    };
    for k in &ks {
        out.eval();
        out.count("expiry_points_run");
        let r = capture_once(alg, a, or.clone(), b, nr.clone(), entry, Some(vh::Clock::Fuel(*k)), far);
        judge(focus, cfg, alg, a, &or, b, &nr, entry, Some(*k), &r, out);
    }
    // the capture hook WITHOUT the compaction stage (bare, or behind Replace only) is a captured op
    // list too: valid script (C02), exact positions behind Replace (C11); not in normal form, so not for C09
    if focus == Focus::C02 || focus == Focus::C11 {
        // (a bare Capture records the raw calls, whose carried positions may legitimately sit anywhere
        // inside their run of changes - C01 - so exact positions are only demanded behind Replace)
        let stack = if focus == Focus::C11 { 6 + ((n + m + or.start) % 3) as u8 } else { 5 + ((n + m + or.start) % 4) as u8 };
        out.eval();
        let r = capture_once(alg, a, or.clone(), b, nr.clone(), stack, None, far);
        judge(focus, cfg, alg, a, &or, b, &nr, stack, None, &r, out);
        let some: Vec<u64> = if all_expiry_points && p <= 64 { ks.clone() } else { ks.iter().copied().step_by(3).collect() };
        for k in some {
            out.eval();
            out.count("expiry_points_run_without_compaction");
            let r = capture_once(alg, a, or.clone(), b, nr.clone(), stack, Some(vh::Clock::Fuel(k)), far);
            judge(focus, cfg, alg, a, &or, b, &nr, stack, Some(k), &r, out);
        }
    }
}

fn ctx(alg: Algorithm, a: &[u32], or: &Range<usize>, b: &[u32], nr: &Range<usize>, entry: u8, fuel: Option<u64>) -> String {
    let full = *or == (0..a.len()) && *nr == (0..b.len());
    format!(
        "alg={} entry={} old={} range {:?} new={} range {:?} deadline={}",
        alg_name(alg),
        match if full || entry >= 5 { entry } else { 0 } {
            0 => "capture_diff(_deadline)",
            1 => "capture_diff_slices(_deadline)",
            10 => "Compact<Replace<&mut Capture>> (borrowed hook)",
            11 => "capture_diff through IdentifyDistinct lookups",
            12 => "Compact<Replace<Replace<Capture>>>",
            13 => "captured ops replayed via apply_to_hook into Replace<Capture>",
            14 => "Compact<&mut Replace<Capture>> (buffering adapter by reference)",
            4 => "algorithms::diff_slices(_deadline) into Compact<Replace<Capture>>",
            5 => "algorithms::diff_deadline into a bare Capture hook",
            6 => "algorithms::diff_deadline into Replace<Capture>",
            7 => "algorithms::diff_deadline into Replace<NoFinishHook<Capture>>",
            8 => "algorithms::diff_deadline into a long-lived Replace<Capture> that served the reverse diff before (drained with mem::take)",
            9 => "algorithms::diff_deadline into a fresh Compact around a long-lived &mut Replace<Capture> that served the reverse diff before",
            3 => "TextDiff::configure().diff_lines over a user-defined DiffableStr (OddStr: case-insensitive Eq, U+2028 line ends, char-indexed)",
            _ => "TextDiff::configure().diff_slices",
        },
        fmt_seq(a),
        or,
        fmt_seq(b),
        nr,
        match fuel {
            None => "none".to_string(),
            Some(u64::MAX) => "present, never expires".to_string(),
            Some(k) => format!("expires at deadline check #{}", k),
        }
    )
}

/// Judges one captured op list for the property in focus.  Returns the ops
/// when they could be obtained.
#[allow(clippy::too_many_arguments)]
fn judge(
    focus: Focus,
    cfg: &Config,
    alg: Algorithm,
    a: &[u32],
    or: &Range<usize>,
    b: &[u32],
    nr: &Range<usize>,
    entry: u8,
    fuel: Option<u64>,
    run: &Result<Run, String>,
    out: &mut Local,
) -> Option<Vec<DiffOp>> {
    let c = || ctx(alg, a, or, b, nr, entry, fuel);
    let run = match run {
        Err(p) => {
            // a panic is owned by C02 (no valid script was produced); the other
            // focuses count it but do not claim it, to keep attributions sharp
            if focus == Focus::C02 || focus == Focus::C03 {
                out.violation("panic", format!("capture panicked: {} | {}", p, c()));
            } else {
                out.count("panics_seen_owned_by_C02");
            }
            return None;
        }
        Ok(r) => r,
    };
    let ops = &run.ops;
    out.count_n("ops_observed", ops.len() as u64);
    out.count_n("swaps_observed", run.swaps);
    let eq = |o: usize, n: usize| a[o] == b[n];
    let v = check_ops(ops, &eq, or.clone(), nr.clone());
    match focus {
        Focus::C02 => {
            for (code, msg) in &v.script {
                out.violation(code, format!("{} | {} | ops={}", msg, c(), fmt_ops(ops)));
            }
            if v.script.is_empty() {
                // second formulation: really apply the ops (extracted slices, shifted ops)
                let shifted: Vec<DiffOp> = ops.iter().map(|op| shift_op(*op, or.start, nr.start)).collect();
                if let Err(e) = apply_ops(&shifted, &a[or.clone()], &b[nr.clone()]) {
                    out.violation("ops.apply", format!("{} | {} | ops={}", e, c(), fmt_ops(ops)));
                }
            }
            // identical inputs => only Equal ops, none for two empty inputs
            let n = or.len();
            let m = nr.len();
            let same = a[or.clone()] == b[nr.clone()];
            if same {
                out.count("identical_input_runs");
                if n == 0 && !ops.is_empty() {
                    out.violation("ops.identical_empty_inputs", format!("two empty inputs gave ops | {} | ops={}", c(), fmt_ops(ops)));
                }
                if ops.iter().any(|op| !matches!(op, DiffOp::Equal { .. })) {
                    out.violation("ops.identical_inputs_not_all_equal", format!("identical inputs gave a non-Equal op | {} | ops={}", c(), fmt_ops(ops)));
                }
            }
            // ratio
            let ratio = get_diff_ratio(ops, n, m);
            if !(0.0..=1.0).contains(&ratio) {
                out.violation("ratio.out_of_range", format!("ratio {} | {} | ops={}", ratio, c(), fmt_ops(ops)));
            }
            if (ratio == 1.0) != same {
                out.violation(
                    "ratio.one_iff_equal",
                    format!("ratio {} but inputs are {} | {} | ops={}", ratio, if same { "equal" } else { "different" }, c(), fmt_ops(ops)),
                );
            }
        }
        Focus::C03 => {
            for (code, msg) in &v.script {
                // validity is C02's; but a script that is not valid has no meaningful cost
                out.violation(code, format!("(cost undefined) {} | {} | ops={}", msg, c(), fmt_ops(ops)));
            }
            if v.script.is_empty() {
                minimality(alg, a, or, b, nr, &v, ops, &c, out);
            }
        }
        Focus::C09 => {
            for (code, msg) in &v.normal {
                out.violation(code, format!("{} | {} | ops={}", msg, c(), fmt_ops(ops)));
            }
            if !v.script.is_empty() {
                out.count("invalid_scripts_seen_owned_by_C02");
            }
            // within any run of changes all deleted items precede all inserted items:
            // implied by alternation + single op per run (a Replace lists old before new)
        }
        Focus::C11 => {
            if !v.script.is_empty() {
                // positions of Equal / Replace and the consuming side of Delete / Insert are
                // "both indices of every op" too; other validity failures stay with C02
                let mut claimed = false;
                for (code, msg) in &v.script {
                    if code.ends_with("_position") {
                        claimed = true;
                        out.violation(code, format!("{} | {} | ops={}", msg, c(), fmt_ops(ops)));
                    }
                }
                if !claimed {
                    out.count("invalid_scripts_seen_owned_by_C02");
                }
            } else if !v.carried.is_empty() {
                // attribution: is this exactly the listed known finding (KF1)?
                let mut is_kf1 = false;
                if cfg.is_known(KF1) && run.swaps > 0 {
                    vh::set_swap_repair(true);
                    let clock = fuel.map(vh::Clock::Fuel);
                    let rerun = capture_once(alg, a, or.clone(), b, nr.clone(), entry, clock, far_deadline());
                    vh::set_swap_repair(false);
                    if let Ok(r2) = rerun {
                        let v2 = check_ops(&r2.ops, &eq, or.clone(), nr.clone());
                        if v2.script.is_empty() && v2.carried.is_empty() {
                            is_kf1 = true;
                        }
                    }
                    // ... and the PINNED tree fails on this very input in this very way: the frozen copy of the
                    // pinned clean-up + Replace merging, fed the raw calls of the same algorithm run, yields
                    // exactly the ops that were observed (a clean-up that deviates from the pinned one - even
                    // through the same swap arms - is not the listed finding)
                    if is_kf1 && entry != 5 && entry != 6 && entry != 7 && entry != 8 {
                        let raw = capture_once(alg, a, or.clone(), b, nr.clone(), 5, clock, far_deadline());
                        match raw.ok().and_then(|r| crate::pinned::pinned_capture_pipeline(&r.ops, &eq)) {
                            Some(pinned) if pinned == *ops => out.count("kf1_matches_confirmed_by_the_frozen_pinned_cleanup"),
                            Some(pinned) => {
                                is_kf1 = false;
                                out.count("kf1_candidates_rejected_by_the_frozen_pinned_cleanup");
                                out.violation(
                                    "ops.deviates_from_pinned_cleanup",
                                    format!("stale carried index behind a Delete/Insert swap, but NOT the listed known finding: the pinned clean-up turns the raw calls of this run into {} while this tree captured {} | {}", fmt_ops(&pinned), fmt_ops(ops), c()),
                                );
                            }
                            None => {}
                        }
                    }
                }
                if is_kf1 {
                    out.known_finding(KF1, || format!("{} | {} | ops={}", v.carried[0].1, c(), fmt_ops(ops)));
                } else {
                    for (code, msg) in &v.carried {
                        out.violation(code, format!("{} | {} | ops={} | swaps in this run: {}", msg, c(), fmt_ops(ops), run.swaps));
                    }
                }
            } else {
                out.count("runs_with_exact_positions");
            }
        }
    }
    Some(ops.clone())
}

pub fn shift_op(op: DiffOp, os: usize, ns: usize) -> DiffOp {
    // subtracts the range starts (ops of a sub-range diff -> ops over the extracted slices)
    match op {
        DiffOp::Equal { old_index, new_index, len } => DiffOp::Equal {
            old_index: old_index.wrapping_sub(os),
            new_index: new_index.wrapping_sub(ns),
            len,
        },
        DiffOp::Delete { old_index, old_len, new_index } => DiffOp::Delete {
            old_index: old_index.wrapping_sub(os),
            old_len,
            new_index: new_index.wrapping_sub(ns),
        },
        DiffOp::Insert { old_index, new_index, new_len } => DiffOp::Insert {
            old_index: old_index.wrapping_sub(os),
            new_index: new_index.wrapping_sub(ns),
            new_len,
        },
        DiffOp::Replace { old_index, old_len, new_index, new_len } => DiffOp::Replace {
            old_index: old_index.wrapping_sub(os),
            old_len,
            new_index: new_index.wrapping_sub(ns),
            new_len,
        },
    }
}

#[allow(clippy::too_many_arguments)]
fn minimality(
    alg: Algorithm,
    a: &[u32],
    or: &Range<usize>,
    b: &[u32],
    nr: &Range<usize>,
    v: &OpsVerdict,
    ops: &[DiffOp],
    c: &dyn Fn() -> String,
    out: &mut Local,
) {
    let xa = &a[or.clone()];
    let xb = &b[nr.clone()];
    let (n, m) = (xa.len(), xb.len());
    let l = match KNOWN_OPTIMUM.with(|k| k.get()) {
        Some(opt) => {
            out.count("optimum_known_by_construction_runs");
            (n + m - opt) / 2
        }
        None => {
            out.count("dp_oracle_runs");
            lcs_len(xa, xb)
        }
    };
    let opt = n + m - 2 * l;
    if opt > 0 {
        out.count("runs_with_nonzero_distance");
    }
    if v.deleted + v.inserted != opt {
        out.violation(
            "minimal.captured_cost",
            format!("captured ops delete {} + insert {} items but the optimum is {} (LCS {}) | {} | ops={}", v.deleted, v.inserted, opt, l, c(), fmt_ops(ops)),
        );
    }
    if v.equal_len != l {
        out.violation("minimal.equal_total", format!("Equal ops total {} items but the LCS has {} | {} | ops={}", v.equal_len, l, c(), fmt_ops(ops)));
    }
    let ratio = get_diff_ratio(ops, n, m);
    let expect = if n + m == 0 { 1.0 } else { 2.0 * l as f32 / (n + m) as f32 };
    if ratio != expect {
        out.violation("minimal.ratio", format!("ratio {} but 2*LCS/(N+M) = {} | {} | ops={}", ratio, expect, c(), fmt_ops(ops)));
    }
    // raw stream
    let eq = |o: usize, nn: usize| a[o] == b[nn];
    out.eval();
    let r = traced(Entry::Dispatch, alg, a, or.clone(), b, nr.clone(), &eq, None, false);
    match r {
        Err(p) => out.violation("panic", format!("raw diff panicked: {} | {}", p, c())),
        Ok(mon) => {
            if mon.failures.is_empty() {
                if mon.cost() != opt {
                    out.violation(
                        "minimal.raw_cost",
                        format!("raw callbacks delete {} + insert {} items but the optimum is {} | {} | events={}", mon.deleted, mon.inserted, opt, c(), crate::mon::fmt_evs(&mon.evs)),
                    );
                }
            } else {
                out.count("invalid_raw_streams_seen_owned_by_C01");
            }
        }
    }
    // TextDiff::ratio on the same items (full ranges only)
    if or.start == 0 && nr.start == 0 && or.end == a.len() && nr.end == b.len() && a.len() <= 40 && b.len() <= 40 {
        let sa: Vec<String> = a.iter().map(|x| format!("t{}", x)).collect();
        let sb: Vec<String> = b.iter().map(|x| format!("t{}", x)).collect();
        let ra: Vec<&str> = sa.iter().map(|s| s.as_str()).collect();
        let rb: Vec<&str> = sb.iter().map(|s| s.as_str()).collect();
        let r = guard(|| TextDiff::configure().algorithm(alg).diff_slices(&ra, &rb).ratio());
        match r {
            Ok(r) => {
                if r != expect {
                    out.violation("minimal.text_ratio", format!("TextDiff::ratio {} but 2*LCS/(N+M) = {} | {}", r, expect, c()));
                }
            }
            Err(p) => out.violation("panic", format!("TextDiff panicked: {} | {}", p, c())),
        }
    }
}

fn tolerance_case(focus: Focus, cfg: &Config, a: &[u32], b: &[u32], out: &mut Local) {
    let tb: Vec<crate::mon::Tol> = b.iter().map(|x| crate::mon::Tol(*x)).collect();
    let eq = |o: usize, n: usize| tb[n] == a[o];
    for alg in ALGS {
        if focus == Focus::C03 && alg == Algorithm::Patience {
            continue;
        }
        let c = || format!("alg={} entry=capture_diff old(u32)={} new(Tol: equal iff |a-b|<=1)={}", alg_name(alg), fmt_seq(a), fmt_seq(b));
        out.eval();
        let swaps0 = vh::swaps();
        let r = guard(|| capture_diff(alg, a, 0..a.len(), &tb[..], 0..tb.len()));
        let swaps = vh::swaps() - swaps0;
        let ops = match r {
            Err(p) => {
                if focus == Focus::C02 || focus == Focus::C03 {
                    out.violation("panic", format!("capture panicked: {} | {}", p, c()));
                }
                continue;
            }
            Ok(o) => o,
        };
        out.count("tolerance_runs");
        if !a.is_empty() && !b.is_empty() {
            out.nontrivial(&(focus.tag(), "tol", alg_name(alg), a, b));
        }
        let v = check_ops(&ops, &eq, 0..a.len(), 0..b.len());
        match focus {
            Focus::C02 => {
                for (code, msg) in &v.script {
                    out.violation(code, format!("{} | {} | ops={}", msg, c(), fmt_ops(&ops)));
                }
            }
            Focus::C09 => {
                for (code, msg) in &v.normal {
                    out.violation(code, format!("{} | {} | ops={}", msg, c(), fmt_ops(&ops)));
                }
            }
            Focus::C03 => {
                if v.script.is_empty() {
                    let l = lcs_len(a, &tb[..]);
                    let opt = a.len() + b.len() - 2 * l;
                    if v.deleted + v.inserted != opt {
                        out.violation("minimal.captured_cost", format!("captured ops delete {} + insert {} items but the optimum under this comparison is {} | {} | ops={}", v.deleted, v.inserted, opt, c(), fmt_ops(&ops)));
                    }
                }
            }
            Focus::C11 => {
                if v.script.is_empty() && !v.carried.is_empty() {
                    let mut is_kf1 = false;
                    if cfg.is_known(KF1) && swaps > 0 {
                        vh::set_swap_repair(true);
                        let r2 = guard(|| capture_diff(alg, a, 0..a.len(), &tb[..], 0..tb.len()));
                        vh::set_swap_repair(false);
                        if let Ok(o2) = r2 {
                            let v2 = check_ops(&o2, &eq, 0..a.len(), 0..b.len());
                            is_kf1 = v2.script.is_empty() && v2.carried.is_empty();
                        }
                    }
                    if is_kf1 {
                        out.known_finding(KF1, || format!("{} | {} | ops={}", v.carried[0].1, c(), fmt_ops(&ops)));
                    } else {
                        for (code, msg) in &v.carried {
                            out.violation(code, format!("{} | {} | ops={}", msg, c(), fmt_ops(&ops)));
                        }
                    }
                }
            }
        }
    }
}
