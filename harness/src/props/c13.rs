//! C13 — expanding ops into changes and slices is faithful (R-EXPAND).

use similar::algorithms::{Capture, DiffHook};
use similar::{ChangeTag, DiffOp, TextDiff};

use crate::engine::{family, guard, Family, Local};
use crate::gen;
use crate::props::common::*;
use crate::rng::Rng;

type Row = (ChangeTag, Option<usize>, Option<usize>, u32);

/// R-EXPAND: one change per consumed item.
fn reference_changes(op: &DiffOp, old: &[u32], new: &[u32]) -> Vec<Row> {
    let mut v = Vec::new();
    match *op {
        DiffOp::Equal { old_index, new_index, len } => {
            for k in 0..len {
                v.push((ChangeTag::Equal, Some(old_index + k), Some(new_index + k), old[old_index + k]));
            }
        }
        DiffOp::Delete { old_index, old_len, .. } => {
            for k in 0..old_len {
                v.push((ChangeTag::Delete, Some(old_index + k), None, old[old_index + k]));
            }
        }
        DiffOp::Insert { new_index, new_len, .. } => {
            for k in 0..new_len {
                v.push((ChangeTag::Insert, None, Some(new_index + k), new[new_index + k]));
            }
        }
        DiffOp::Replace { old_index, old_len, new_index, new_len } => {
            for k in 0..old_len {
                v.push((ChangeTag::Delete, Some(old_index + k), None, old[old_index + k]));
            }
            for k in 0..new_len {
                v.push((ChangeTag::Insert, None, Some(new_index + k), new[new_index + k]));
            }
        }
    }
    v
}

fn reference_slices(op: &DiffOp, old: &[u32], new: &[u32]) -> Vec<(ChangeTag, Vec<u32>)> {
    match *op {
        DiffOp::Equal { old_index, len, .. } => vec![(ChangeTag::Equal, old[old_index..old_index + len].to_vec())],
        DiffOp::Delete { old_index, old_len, .. } => vec![(ChangeTag::Delete, old[old_index..old_index + old_len].to_vec())],
        DiffOp::Insert { new_index, new_len, .. } => vec![(ChangeTag::Insert, new[new_index..new_index + new_len].to_vec())],
        DiffOp::Replace { old_index, old_len, new_index, new_len } => vec![
            (ChangeTag::Delete, old[old_index..old_index + old_len].to_vec()),
            (ChangeTag::Insert, new[new_index..new_index + new_len].to_vec()),
        ],
    }
}

fn make_op(kind: usize, o: usize, ol: usize, n: usize, nl: usize) -> DiffOp {
    match kind {
        0 => DiffOp::Equal { old_index: o, new_index: n, len: ol.min(nl) },
        1 => DiffOp::Delete { old_index: o, old_len: ol, new_index: n },
        2 => DiffOp::Insert { old_index: o, new_index: n, new_len: nl },
        _ => DiffOp::Replace { old_index: o, old_len: ol, new_index: n, new_len: nl },
    }
}

fn check_op(op: &DiffOp, old: &[u32], new: &[u32], out: &mut Local) {
    let ctx = || format!("op={:?} old={} new={}", op, fmt_seq(old), fmt_seq(new));
    // item-wise
    out.eval();
    match guard(|| op.iter_changes(old, new).map(|c| (c.tag(), c.old_index(), c.new_index(), c.value())).collect::<Vec<Row>>()) {
        Err(p) => out.violation("panic", format!("iter_changes panicked: {} | {}", p, ctx())),
        Ok(got) => {
            out.count_n("changes_observed", got.len() as u64);
            let expect = reference_changes(op, old, new);
            if got != expect {
                out.violation("expand.iter_changes", format!("{} | got {:?} | expected {:?}", ctx(), got, expect));
            }
        }
    }
    // accessor forms of one change agree with each other; the op's own accessors agree
    out.eval();
    let acc = guard(|| {
        let mut fails: Vec<String> = Vec::new();
        for mut c in op.iter_changes(old, new) {
            if c.value() != *c.value_ref() {
                fails.push(format!("value() = {} but value_ref() = {}", c.value(), c.value_ref()));
            }
            let before = c.value();
            *c.value_mut() = before;
            if c.value() != before {
                fails.push("value_mut() does not address the value".to_string());
            }
            let by_tag = match c.tag() {
                ChangeTag::Equal => c.old_index().is_some() && c.new_index().is_some(),
                ChangeTag::Delete => c.old_index().is_some() && c.new_index().is_none(),
                ChangeTag::Insert => c.old_index().is_none() && c.new_index().is_some(),
            };
            if !by_tag {
                fails.push(format!("{:?} change carries indices {:?}/{:?}", c.tag(), c.old_index(), c.new_index()));
            }
        }
        let (t, o, n) = op.as_tag_tuple();
        if op.tag() != t || op.old_range() != o || op.new_range() != n {
            fails.push(format!("tag()/old_range()/new_range() = {:?}/{:?}/{:?} but as_tag_tuple() = {:?}", op.tag(), op.old_range(), op.new_range(), (t, o, n)));
        }
        fails
    });
    match acc {
        Err(p) => out.violation("panic", format!("change accessors panicked: {} | {}", p, ctx())),
        Ok(fails) => {
            if let Some(f) = fails.first() {
                out.violation("expand.accessors_disagree", format!("{} | {}", f, ctx()));
            }
        }
    }
    // the same expansion through the standard iterator adaptors (they may be specialised)
    out.eval();
    let expect_all = reference_changes(op, old, new);
    let adaptors = guard(|| {
        let row = |c: similar::Change<u32>| -> Row { (c.tag(), c.old_index(), c.new_index(), c.value()) };
        let mut fails: Vec<String> = Vec::new();
        let n = expect_all.len();
        for pre in 0..=n.min(3) {
            for k in 0..=(n - pre.min(n)).min(4) {
                // pre x next(), then nth(k)
                let mut it = op.iter_changes(old, new);
                for _ in 0..pre {
                    it.next();
                }
                let got = it.nth(k).map(row);
                let want = expect_all.get(pre + k).copied();
                if got != want {
                    fails.push(format!("after {} next(), nth({}) = {:?}, expected {:?}", pre, k, got, want));
                }
                let rest: Vec<Row> = it.map(row).collect();
                let want_rest: Vec<Row> = expect_all.iter().skip(pre + k + 1).copied().collect();
                if got.is_some() && rest != want_rest {
                    fails.push(format!("after {} next() and nth({}), the rest is {:?}, expected {:?}", pre, k, rest, want_rest));
                }
            }
            for step in 2..=3usize {
                let mut it = op.iter_changes(old, new);
                for _ in 0..pre {
                    it.next();
                }
                let got: Vec<Row> = it.step_by(step).map(row).collect();
                let want: Vec<Row> = expect_all.iter().skip(pre).step_by(step).copied().collect();
                if got != want {
                    fails.push(format!("after {} next(), step_by({}) = {:?}, expected {:?}", pre, step, got, want));
                }
            }
            let got: Vec<Row> = op.iter_changes(old, new).skip(pre).map(row).collect();
            let want: Vec<Row> = expect_all.iter().skip(pre).copied().collect();
            if got != want {
                fails.push(format!("skip({}) = {:?}, expected {:?}", pre, got, want));
            }
        }
        // consumers that are built on fold (an iterator may override it): after `pre` plain next() calls
        for pre in 0..=n.min(3) {
            let want: Vec<Row> = expect_all.iter().skip(pre).copied().collect();
            let advance = |it: &mut dyn Iterator<Item = similar::Change<u32>>| {
                for _ in 0..pre {
                    it.next();
                }
            };
            let mut it = op.iter_changes(old, new);
            advance(&mut it);
            let got: Vec<Row> = it.fold(Vec::new(), |mut v, c| {
                v.push(row(c));
                v
            });
            if got != want {
                fails.push(format!("after {} next(), fold() visits {:?}, expected {:?}", pre, got, want));
            }
            let mut it = op.iter_changes(old, new);
            advance(&mut it);
            let mut got: Vec<Row> = Vec::new();
            it.for_each(|c| got.push(row(c)));
            if got != want {
                fails.push(format!("after {} next(), for_each() visits {:?}, expected {:?}", pre, got, want));
            }
            let mut it = op.iter_changes(old, new);
            advance(&mut it);
            if it.last().map(row) != want.last().copied() {
                fails.push(format!("after {} next(), last() differs", pre));
            }
            let mut it = op.iter_changes(old, new);
            advance(&mut it);
            if it.count() != want.len() {
                fails.push(format!("after {} next(), count() differs", pre));
            }
            let mut it = op.iter_changes(old, new);
            advance(&mut it);
            let got = it.map(|c| c.old_index().unwrap_or(0) * 1000 + c.new_index().unwrap_or(0)).max();
            let want_max = want.iter().map(|r| r.1.unwrap_or(0) * 1000 + r.2.unwrap_or(0)).max();
            if got != want_max {
                fails.push(format!("after {} next(), map(indices).max() = {:?}, expected {:?}", pre, got, want_max));
            }
            let mut it = op.iter_changes(old, new);
            advance(&mut it);
            let got: Vec<Row> = it.by_ref().take(2).map(row).collect::<Vec<_>>().into_iter().chain(it.map(row)).collect();
            if got != want {
                fails.push(format!("after {} next(), by_ref().take(2) + rest = {:?}, expected {:?}", pre, got, want));
            }
        }
        if op.iter_changes(old, new).count() != n {
            fails.push(format!("count() = {}, expected {}", op.iter_changes(old, new).count(), n));
        }
        if op.iter_changes(old, new).last().map(row) != expect_all.last().copied() {
            fails.push("last() differs".to_string());
        }
        let (lo, hi) = op.iter_changes(old, new).size_hint();
        if lo > n || hi.map_or(false, |h| h < n) {
            fails.push(format!("size_hint() = ({}, {:?}) but the expansion has {} changes", lo, hi, n));
        }
        fails
    });
    match adaptors {
        Err(p) => out.violation("panic", format!("iterator adaptor panicked: {} | {}", p, ctx())),
        Ok(fails) => {
            if let Some(f) = fails.first() {
                out.violation("expand.iterator_adaptors", format!("{} ({} disagreements) | {}", f, fails.len(), ctx()));
            }
        }
    }
    // slice-wise
    out.eval();
    match guard(|| op.iter_slices(old, new).map(|(t, s)| (t, s.to_vec())).collect::<Vec<_>>()) {
        Err(p) => out.violation("panic", format!("iter_slices panicked: {} | {}", p, ctx())),
        Ok(got) => {
            let expect = reference_slices(op, old, new);
            if got != expect {
                out.violation("expand.iter_slices", format!("{} | got {:?} | expected {:?}", ctx(), got, expect));
            }
            // same items as the item-wise expansion
            let flat: Vec<(ChangeTag, u32)> = got.iter().flat_map(|(t, s)| s.iter().map(move |x| (*t, *x))).collect();
            let items: Vec<(ChangeTag, u32)> = reference_changes(op, old, new).iter().map(|r| (r.0, r.3)).collect();
            if flat != items {
                out.violation("expand.slices_vs_changes", format!("{} | slices flatten to {:?} but changes are {:?}", ctx(), flat, items));
            }
        }
    }
    // round trip through capturing hooks (owned, and through `&mut`)
    out.eval();
    match guard(|| {
        let mut c = Capture::new();
        op.apply_to_hook(&mut c).unwrap();
        let mut c2 = Capture::new();
        {
            let mut r = &mut c2;
            op.apply_to_hook(&mut r).unwrap();
            r.finish().unwrap();
        }
        // a capture that has been USED BEFORE: it completed a whole diff (the algorithm finished it), was
        // then explicitly finished once more, and now receives the op
        let mut c3 = Capture::new();
        similar::algorithms::diff_slices(similar::Algorithm::Myers, &mut c3, &[1u8, 2][..], &[1u8, 3, 2][..]).unwrap();
        c3.finish().unwrap();
        let before = c3.ops().len();
        op.apply_to_hook(&mut c3).unwrap();
        let used_before = c3.into_ops()[before..].to_vec();
        USED_CAPTURE.with(|u| *u.borrow_mut() = used_before);
        (c.into_ops(), c2.into_ops())
    }) {
        Err(p) => out.violation("panic", format!("apply_to_hook panicked: {} | {}", p, ctx())),
        Ok((owned, by_ref)) => {
            let used = USED_CAPTURE.with(|u| std::mem::take(&mut *u.borrow_mut()));
            if used != vec![*op] {
                out.violation("expand.apply_to_used_capture", format!("{} | re-applying to a Capture that completed another diff before appends {:?}", ctx(), used));
            }
            if owned != vec![*op] {
                out.violation("expand.apply_to_hook", format!("{} | re-applying to a Capture gives {:?}", ctx(), owned));
            }
            if by_ref != vec![*op] {
                out.violation("expand.apply_to_hook_mut_ref", format!("{} | re-applying to a &mut Capture gives {:?}", ctx(), by_ref));
            }
        }
    }
}

thread_local! {
    static USED_CAPTURE: std::cell::RefCell<Vec<DiffOp>> = std::cell::RefCell::new(Vec::new());
}

/// A sequence that lives in a window `base .. base + data.len()` of a huge index space (nothing is
/// allocated outside it; reads outside panic).
struct Virt {
    base: usize,
    data: Vec<u32>,
}

impl std::ops::Index<usize> for Virt {
    type Output = u32;
    fn index(&self, i: usize) -> &u32 {
        assert!(i >= self.base && i - self.base < self.data.len(), "read at index {} outside the sequence {}..+{}", i, self.base, self.data.len());
        &self.data[i - self.base]
    }
}

impl std::ops::Index<std::ops::Range<usize>> for Virt {
    type Output = [u32];
    fn index(&self, r: std::ops::Range<usize>) -> &[u32] {
        assert!(r.start >= self.base && r.end >= r.start && r.end - self.base <= self.data.len(), "read of {:?} outside the sequence {}..+{}", r, self.base, self.data.len());
        &self.data[r.start - self.base..r.end - self.base]
    }
}

/// R-EXPAND for ops whose positions lie anywhere in the index space (computed from the op's fields alone)
fn check_op_virtual(op: &DiffOp, old: &Virt, new: &Virt, out: &mut Local) {
    let ctx = || format!("op={:?} old = {} items at {}.. new = {} items at {}..", op, old.data.len(), old.base, new.data.len(), new.base);
    let (t, orange, nrange) = op.as_tag_tuple();
    let mut expect: Vec<Row> = Vec::new();
    use similar::DiffTag;
    match t {
        DiffTag::Equal => {
            for k in 0..orange.len() {
                expect.push((ChangeTag::Equal, Some(orange.start + k), Some(nrange.start + k), old.data[orange.start + k - old.base]));
            }
        }
        _ => {
            if t != DiffTag::Insert {
                for k in 0..orange.len() {
                    expect.push((ChangeTag::Delete, Some(orange.start + k), None, old.data[orange.start + k - old.base]));
                }
            }
            if t != DiffTag::Delete {
                for k in 0..nrange.len() {
                    expect.push((ChangeTag::Insert, None, Some(nrange.start + k), new.data[nrange.start + k - new.base]));
                }
            }
        }
    }
    out.eval();
    match guard(|| op.iter_changes(old, new).map(|c| (c.tag(), c.old_index(), c.new_index(), c.value())).collect::<Vec<Row>>()) {
        Err(p) => out.violation("panic", format!("iter_changes panicked: {} | {}", p, ctx())),
        Ok(got) => {
            out.count_n("changes_observed_in_huge_index_spaces", got.len() as u64);
            if got != expect {
                out.violation("expand.iter_changes", format!("{} | got {:?} | expected {:?}", ctx(), got, expect));
            }
        }
    }
    out.eval();
    match guard(|| op.iter_slices(old, new).map(|(t, s)| (t, s.to_vec())).collect::<Vec<_>>()) {
        Err(p) => out.violation("panic", format!("iter_slices panicked: {} | {}", p, ctx())),
        Ok(got) => {
            let flat: Vec<(ChangeTag, u32)> = got.iter().flat_map(|(t, s)| s.iter().map(move |x| (*t, *x))).collect();
            let items: Vec<(ChangeTag, u32)> = expect.iter().map(|r| (r.0, r.3)).collect();
            if flat != items {
                out.violation("expand.slices_vs_changes", format!("{} | slices flatten to {:?} but changes are {:?}", ctx(), flat, items));
            }
        }
    }
    let fails = iter_battery(&|| op.iter_changes(old, new), &|c| format!("{:?}", (c.tag(), c.old_index(), c.new_index(), c.value())), orange.start as u64 ^ nrange.end as u64);
    if let Some(f) = fails.first() {
        out.violation("expand.iterator_protocol", format!("{} | {}", f, ctx()));
    }
}

pub fn families() -> Vec<Box<dyn Family>> {
    vec![
        family(
            "huge_index_spaces",
            "ops whose positions lie near the top and around the powers of two of the index space: the old and the new sequence are windows of 8 items based at usize::MAX - 8 (the range end IS usize::MAX), usize::MAX - 9, 2^63 - 4, 2^32 - 4, 2^31 - 4, 2^16 - 4 and 0 (all 7 x 7 combinations) x every op kind x offsets / lengths 0..=4: item-wise and slice-wise expansion and the iterator battery through user-defined Index types",
            true,
            16,
            |_| 7 * 7 * 4 * 5 * 5 * 5 * 5,
            |idx, _cfg, out| {
                const BASES: [usize; 7] = [usize::MAX - 8, usize::MAX - 9, (1 << 63) - 4, (1 << 32) - 4, (1 << 31) - 4, (1 << 16) - 4, 0];
                let ob = BASES[(idx % 7) as usize];
                let nb = BASES[(idx / 7 % 7) as usize];
                let r = idx / 49;
                let kind = (r % 4) as usize;
                let o = ((r / 4) % 5) as usize;
                let ol = ((r / 20) % 5) as usize;
                let n = ((r / 100) % 5) as usize;
                let nl = ((r / 500) % 5) as usize;
                if o + ol > 8 || n + nl > 8 {
                    return;
                }
                let old = Virt { base: ob, data: (0..8).map(|i| 100 + i).collect() };
                let new = Virt { base: nb, data: (0..8).map(|i| 200 + i * 3).collect() };
                let op = make_op(kind, ob + o, ol, nb + n, nl);
                if op.old_range().is_empty() && op.new_range().is_empty() {
                    return;
                }
                out.nontrivial(&op);
                out.sample(|| format!("{:?}", op));
                check_op_virtual(&op, &old, &new, out);
            },
        ),
        family(
            "ops_exh",
            "exhaustive: every op kind x old offset/length and new offset/length in 0..=4 (in bounds; length 0 excluded for the consumed side) over two fixed sequences of 6 distinct items whose old/new values differ at every index",
            true,
            64,
            |_| 4 * 5 * 5 * 5 * 5,
            |idx, _cfg, out| {
                let old: Vec<u32> = (0..6).map(|i| 100 + i).collect();
                let new: Vec<u32> = (0..6).map(|i| 200 + i * 3).collect();
                let kind = (idx % 4) as usize;
                let o = ((idx / 4) % 5) as usize;
                let ol = ((idx / 20) % 5) as usize;
                let n = ((idx / 100) % 5) as usize;
                let nl = ((idx / 500) % 5) as usize;
                if o + ol > old.len() || n + nl > new.len() {
                    return;
                }
                let op = make_op(kind, o, ol, n, nl);
                if op.old_range().is_empty() && op.new_range().is_empty() {
                    return;
                }
                out.nontrivial(&op);
                out.sample(|| format!("{:?} over old={:?} new={:?}", op, old, new));
                check_op(&op, &old, &new, out);
            },
        ),
        family(
            "ops_rnd",
            "seeded random ops of all four kinds with arbitrary in-bounds offsets/lengths over random u32 sequences of different lengths (old and new values independent, so Equal ops over unequal items distinguish the old from the new side)",
            false,
            64,
            |cfg| cfg.n(150_000, 3_000_000),
            |idx, cfg, out| {
                let mut rng = Rng::for_case(cfg.seed, "c13.ops_rnd", idx);
                let lo = 1 + rng.below(if cfg.tiny { 4 } else { 30 });
                let ln = 1 + rng.below(if cfg.tiny { 4 } else { 30 });
                let old: Vec<u32> = (0..lo).map(|_| rng.below(1000) as u32).collect();
                let new: Vec<u32> = (0..ln).map(|_| 1000 + rng.below(1000) as u32).collect();
                let o = rng.below(lo + 1);
                let n = rng.below(ln + 1);
                let ol = rng.below(lo - o + 1);
                let nl = rng.below(ln - n + 1);
                let op = make_op(rng.below(4), o, ol, n, nl);
                if op.old_range().is_empty() && op.new_range().is_empty() {
                    return;
                }
                out.nontrivial(&(op, &old, &new));
                out.sample(|| format!("{:?} over old={} new={}", op, fmt_seq(&old), fmt_seq(&new)));
                check_op(&op, &old, &new, out);
            },
        ),
        family(
            "textdiff",
            "whole-diff iteration on real text diffs of seeded random token sequences x 3 algorithms: TextDiff::iter_all_changes == concatenation of TextDiff::iter_changes(op) == concatenation of the reference expansion of every op; UnifiedDiffHunk::iter_changes == same over the hunk's ops (radius from {0,1,3})",
            false,
            16,
            |cfg| cfg.n(10_000, 200_000),
            |idx, cfg, out| {
                let mut rng = Rng::for_case(cfg.seed, "c13.textdiff", idx);
                let (a, b) = gen::rand_pair(&mut rng, if cfg.tiny { 8 } else { 150 });
                let alg = ALGS[rng.below(3)];
                let radius = *rng.pick(&[0usize, 1, 3]);
                let sa: Vec<String> = a.iter().map(|x| format!("l{}\n", x)).collect();
                let sb: Vec<String> = b.iter().map(|x| format!("L{}\n", x)).collect();
                let ra: Vec<&str> = sa.iter().map(|s| s.as_str()).collect();
                let rb: Vec<&str> = sb.iter().map(|s| s.as_str()).collect();
                // make equal tokens really equal: same formatting for items present on both sides
                let sb2: Vec<String> = b.iter().map(|x| format!("l{}\n", x)).collect();
                let rb2: Vec<&str> = sb2.iter().map(|s| s.as_str()).collect();
                let _ = rb;
                out.sample(|| format!("alg={} radius={} old={} new={}", alg_name(alg), radius, fmt_seq(&a), fmt_seq(&b)));
                out.eval();
                let rng_bits = rng.below(4);
                let r = guard(|| {
                    let d = TextDiff::configure().algorithm(alg).diff_slices(&ra, &rb2);
                    type R<'x> = (ChangeTag, Option<usize>, Option<usize>, &'x str);
                    let all: Vec<R> = d.iter_all_changes().map(|c| (c.tag(), c.old_index(), c.new_index(), c.value())).collect();
                    let per_op: Vec<R> = d.ops().iter().flat_map(|op| d.iter_changes(op)).map(|c| (c.tag(), c.old_index(), c.new_index(), c.value())).collect();
                    let mut reference: Vec<R> = Vec::new();
                    for op in d.ops() {
                        match *op {
                            DiffOp::Equal { old_index, new_index, len } => {
                                for k in 0..len {
                                    reference.push((ChangeTag::Equal, Some(old_index + k), Some(new_index + k), ra[old_index + k]));
                                }
                            }
                            DiffOp::Delete { old_index, old_len, .. } => {
                                for k in 0..old_len {
                                    reference.push((ChangeTag::Delete, Some(old_index + k), None, ra[old_index + k]));
                                }
                            }
                            DiffOp::Insert { new_index, new_len, .. } => {
                                for k in 0..new_len {
                                    reference.push((ChangeTag::Insert, None, Some(new_index + k), rb2[new_index + k]));
                                }
                            }
                            DiffOp::Replace { old_index, old_len, new_index, new_len } => {
                                for k in 0..old_len {
                                    reference.push((ChangeTag::Delete, Some(old_index + k), None, ra[old_index + k]));
                                }
                                for k in 0..new_len {
                                    reference.push((ChangeTag::Insert, None, Some(new_index + k), rb2[new_index + k]));
                                }
                            }
                        }
                    }
                    let mut fails: Vec<(&'static str, String)> = Vec::new();
                    // whole-diff iteration through standard adaptors
                    fn rrow<'x>(c: similar::Change<&'x str>) -> (ChangeTag, Option<usize>, Option<usize>, &'x str) {
                        (c.tag(), c.old_index(), c.new_index(), c.value())
                    }
                    for pre in [0usize, 1, 2, 5] {
                        for k in [0usize, 1, 2, 3, 7] {
                            let mut it = d.iter_all_changes();
                            for _ in 0..pre {
                                it.next();
                            }
                            let got = it.nth(k).map(rrow);
                            let want = reference.get(pre + k).copied();
                            if got != want {
                                fails.push(("expand.iterator_adaptors", format!("iter_all_changes: after {} next(), nth({}) = {:?}, expected {:?}; ops {:?}", pre, k, got, want, d.ops())));
                            }
                        }
                        {
                            let mut it = d.iter_all_changes();
                            for _ in 0..pre {
                                it.next();
                            }
                            let got: Vec<R> = it.fold(Vec::new(), |mut v, c| {
                                v.push(rrow(c));
                                v
                            });
                            let want: Vec<R> = reference.iter().skip(pre).copied().collect();
                            if got != want {
                                fails.push(("expand.iterator_adaptors", format!("iter_all_changes: after {} next(), fold() visits {:?}, expected {:?}; ops {:?}", pre, got, want, d.ops())));
                            }
                        }
                        let got: Vec<R> = d.iter_all_changes().skip(pre).step_by(3).map(rrow).collect();
                        let want: Vec<R> = reference.iter().skip(pre).step_by(3).copied().collect();
                        if got != want {
                            fails.push(("expand.iterator_adaptors", format!("iter_all_changes: skip({}).step_by(3) differs; ops {:?}", pre, d.ops())));
                        }
                    }
                    if d.iter_all_changes().count() != reference.len() {
                        fails.push(("expand.iterator_adaptors", format!("iter_all_changes().count() = {} but {} changes expected", d.iter_all_changes().count(), reference.len())));
                    }
                    if d.iter_all_changes().last().map(rrow) != reference.last().copied() {
                        fails.push(("expand.iterator_adaptors", "iter_all_changes().last() differs".to_string()));
                    }
                    if all != reference {
                        fails.push(("expand.iter_all_changes", format!("iter_all_changes gives {:?} but the ops {:?} expand to {:?}", all, d.ops(), reference)));
                    }
                    if per_op != reference {
                        fails.push(("expand.textdiff_iter_changes", format!("per-op iter_changes gives {:?} but the ops {:?} expand to {:?}", per_op, d.ops(), reference)));
                    }
                    // hunks
                    let mut ud = d.unified_diff();
                    ud.context_radius(radius);
                    let mut nh = 0;
                    for h in ud.iter_hunks() {
                        nh += 1;
                        let got: Vec<R> = h.iter_changes().map(|c| (c.tag(), c.old_index(), c.new_index(), c.value())).collect();
                        let exp: Vec<R> = h.ops().iter().flat_map(|op| d.iter_changes(op)).map(|c| (c.tag(), c.old_index(), c.new_index(), c.value())).collect();
                        if got != exp {
                            fails.push(("expand.hunk_iter_changes", format!("hunk ops {:?}: iter_changes gives {:?}, per-op expansion {:?}", h.ops(), got, exp)));
                        }
                    }
                    // a hunk built by the caller from an arbitrary selection of the ops (public
                    // UnifiedDiffHunk::new): not contiguous, possibly out of order
                    {
                        let ops = d.ops();
                        let mut pick: Vec<similar::DiffOp> = ops.iter().copied().step_by(2).collect();
                        if rng_bits & 1 == 1 {
                            pick.reverse();
                        }
                        if rng_bits & 2 == 2 && ops.len() > 2 {
                            pick = vec![ops[ops.len() - 1], ops[0], ops[ops.len() / 2]];
                        }
                        let h = similar::udiff::UnifiedDiffHunk::new(pick.clone(), &d, true);
                        let got: Vec<R> = h.iter_changes().map(|c| (c.tag(), c.old_index(), c.new_index(), c.value())).collect();
                        let exp: Vec<R> = pick.iter().flat_map(|op| d.iter_changes(op)).map(|c| (c.tag(), c.old_index(), c.new_index(), c.value())).collect();
                        if got != exp {
                            fails.push(("expand.hunk_iter_changes", format!("UnifiedDiffHunk::new over the caller-chosen ops {:?}: iter_changes gives {:?}, per-op expansion {:?}", pick, got, exp)));
                        }
                        // and per-op expansion against the reference for these ops
                        let mut reference2: Vec<R> = Vec::new();
                        for op in &pick {
                            for c in op.iter_changes(&ra[..], &rb2[..]) {
                                reference2.push((c.tag(), c.old_index(), c.new_index(), c.value()));
                            }
                        }
                        if exp != reference2 {
                            fails.push(("expand.textdiff_iter_changes", "TextDiff::iter_changes(op) differs from DiffOp::iter_changes over the token slices".to_string()));
                        }
                    }
                    (fails, all.len(), nh)
                });
                match r {
                    Err(p) => out.violation("panic", format!("text diff iteration panicked: {} | old={} new={}", p, fmt_seq(&a), fmt_seq(&b))),
                    Ok((fails, nchanges, nh)) => {
                        out.count_n("changes_observed", nchanges as u64);
                        out.count_n("hunks_observed", nh as u64);
                        if nh > 0 {
                            out.nontrivial(&(alg_name(alg), &a, &b, radius));
                        }
                        for (code, msg) in fails {
                            out.violation(code, format!("{} | alg={} old={} new={}", msg, alg_name(alg), fmt_seq(&a), fmt_seq(&b)));
                        }
                    }
                }
            },
        ),
        family(
            "handbuilt_hunks",
            "UnifiedDiffHunk::new over ARBITRARY caller-built op lists (all four kinds with arbitrary in-bounds offsets and lengths, including Replace ops with ONE empty side, in any order) on a text diff of small token slices: hunk.iter_changes() - consumed by next(), by fold / for_each / last after a prefix of next() calls - must equal the concatenation of the reference expansion of every op",
            false,
            32,
            |cfg| cfg.n(40_000, 800_000),
            |idx, cfg, out| {
                let mut rng = Rng::for_case(cfg.seed, "c13.handbuilt_hunks", idx);
                let lo = 1 + rng.below(if cfg.tiny { 4 } else { 9 });
                let ln = 1 + rng.below(if cfg.tiny { 4 } else { 9 });
                // every third case: old and new tokens come from ONE small alphabet, so that caller-built Replace /
                // Delete / Insert ops may cover items that are equal by value (an op is what it says, not what it covers)
                let shared = idx % 3 == 1;
                let sa: Vec<String> = (0..lo).map(|i| if shared { format!("t{}\n", i % 2) } else { format!("old{}\n", i) }).collect();
                let sb: Vec<String> = (0..ln).map(|i| if shared { format!("t{}\n", i % 2) } else { format!("new{}\n", i) }).collect();
                let ra: Vec<&str> = sa.iter().map(|s| s.as_str()).collect();
                let rb: Vec<&str> = sb.iter().map(|s| s.as_str()).collect();
                let nops = 1 + rng.below(4);
                let mut ops: Vec<DiffOp> = Vec::new();
                for _ in 0..nops {
                    let o = rng.below(lo + 1);
                    let n = rng.below(ln + 1);
                    let ol = rng.below(lo - o + 1);
                    let nl = rng.below(ln - n + 1);
                    let op = make_op(rng.below(4), o, ol, n, nl);
                    // completely empty ops (they expand to nothing) are kept in every 4th case,
                    // also in last position
                    if op.old_range().is_empty() && op.new_range().is_empty() && idx % 4 != 3 {
                        continue;
                    }
                    ops.push(op);
                }
                // every 8th case: a run of CONTIGUOUS ops of one kind (what an uncompacted script looks like)
                if idx % 8 == 6 {
                    let kind = rng.below(3) + 1;
                    let (mut o, mut n) = (rng.below(lo), rng.below(ln));
                    ops.clear();
                    for _ in 0..2 + rng.below(2) {
                        let ol = if kind != 2 { 1.min(lo - o) } else { 0 };
                        let nl = if kind != 1 { 1.min(ln - n) } else { 0 };
                        if ol + nl == 0 {
                            break;
                        }
                        ops.push(make_op(kind, o, ol, n, nl));
                        o += ol;
                        n += nl;
                    }
                }
                if ops.is_empty() {
                    return;
                }
                let one_sided = ops.iter().any(|op| matches!(op, DiffOp::Replace { old_len, new_len, .. } if *old_len == 0 || *new_len == 0));
                out.sample(|| format!("hunk ops {:?} over {} / {} tokens", ops, lo, ln));
                out.nontrivial(&(&ops, lo, ln));
                if one_sided {
                    out.count("hunks_with_one_sided_replace");
                }
                out.eval();
                type R<'x> = (ChangeTag, Option<usize>, Option<usize>, &'x str);
                let r = guard(|| {
                    let d = TextDiff::from_slices(&ra, &rb);
                    let mut reference: Vec<R> = Vec::new();
                    for op in &ops {
                        let (_, orr, nrr) = op.as_tag_tuple();
                        match op {
                            DiffOp::Equal { old_index, new_index, len } => {
                                for k in 0..*len {
                                    reference.push((ChangeTag::Equal, Some(old_index + k), Some(new_index + k), ra[old_index + k]));
                                }
                            }
                            _ => {
                                if !matches!(op, DiffOp::Insert { .. }) {
                                    for i in orr.clone() {
                                        reference.push((ChangeTag::Delete, Some(i), None, ra[i]));
                                    }
                                }
                                if !matches!(op, DiffOp::Delete { .. }) {
                                    for j in nrr.clone() {
                                        reference.push((ChangeTag::Insert, None, Some(j), rb[j]));
                                    }
                                }
                            }
                        }
                    }
                    fn rrow<'x>(c: similar::Change<&'x str>) -> (ChangeTag, Option<usize>, Option<usize>, &'x str) {
                        (c.tag(), c.old_index(), c.new_index(), c.value())
                    }
                    let mut fails: Vec<String> = Vec::new();
                    // re-applying the whole list to ONE capturing hook reproduces the list, op by op
                    {
                        let mut c = Capture::new();
                        for op in &ops {
                            op.apply_to_hook(&mut c).unwrap();
                        }
                        c.finish().unwrap();
                        let back = c.into_ops();
                        if back != ops {
                            fails.push(format!("apply_to_hook of the ops one after the other into ONE Capture gives {:?}", back));
                        }
                    }
                    let h = similar::udiff::UnifiedDiffHunk::new(ops.clone(), &d, true);
                    let got: Vec<R> = h.iter_changes().map(rrow).collect();
                    if got != reference {
                        fails.push(format!("iter_changes() gives {:?} but the ops expand to {:?}", got, reference));
                    }
                    for pre in 0..=reference.len().min(3) {
                        let want: Vec<R> = reference.iter().skip(pre).copied().collect();
                        let mut it = h.iter_changes();
                        for _ in 0..pre {
                            it.next();
                        }
                        let got: Vec<R> = it.fold(Vec::new(), |mut v, c| {
                            v.push(rrow(c));
                            v
                        });
                        if got != want {
                            fails.push(format!("after {} next(), fold() visits {:?}, expected {:?}", pre, got, want));
                        }
                        let mut it = h.iter_changes();
                        for _ in 0..pre {
                            it.next();
                        }
                        if it.last().map(rrow) != want.last().copied() {
                            fails.push(format!("after {} next(), last() differs", pre));
                        }
                    }
                    fails
                });
                match r {
                    Err(p) => out.violation("panic", format!("hunk iteration panicked: {} | ops={:?} over {} / {} tokens", p, ops, lo, ln)),
                    Ok(fails) => {
                        out.count("handbuilt_hunks_observed");
                        if let Some(f) = fails.first() {
                            out.violation("expand.hunk_iter_changes", format!("UnifiedDiffHunk::new over caller-built ops {:?} ({} / {} tokens): {}", ops, lo, ln, f));
                        }
                    }
                }
            },
        ),

        family(
            "deep_many_ops",
            "STACK DEPTH: caller-built hunks with 100000..300000 consecutive EMPTY ops (zero-length Delete / Insert / Equal / one-sided Replace) in front of, between and behind real ops, and hunks / whole diffs with 100000+ one-item ops: UnifiedDiffHunk::iter_changes, TextDiff::iter_all_changes and DiffOp::iter_changes must deliver exactly the changes of the non-empty ops; run with the stack of an ordinary thread in the small-stack stage (an unoptimised build)",
            false,
            1,
            |cfg| if cfg.tiny { 1 } else { cfg.tier.pick(6, 18) },
            |idx, cfg, out| {
                let mut rng = Rng::for_case(cfg.seed, "c13.deep", idx);
                let n_empty = if cfg.tiny { 10 } else { rng.range(100_000, 300_000) };
                let sa: Vec<String> = (0..6).map(|i| format!("old{}\n", i)).collect();
                let sb: Vec<String> = (0..6).map(|i| format!("new{}\n", i)).collect();
                let ra: Vec<&str> = sa.iter().map(|s| s.as_str()).collect();
                let rb: Vec<&str> = sb.iter().map(|s| s.as_str()).collect();
                let mut ops: Vec<DiffOp> = Vec::with_capacity(n_empty + 8);
                let mut expect = 0usize;
                let real = [make_op(3, 0, 2, 0, 1), make_op(1, 2, 2, 1, 0), make_op(2, 4, 0, 1, 3), make_op(0, 4, 2, 4, 2)];
                let mut push_real = |ops: &mut Vec<DiffOp>, k: usize, expect: &mut usize| {
                    let op = real[k % 4];
                    *expect += if op.tag() == similar::DiffTag::Equal { op.old_range().len() } else { op.old_range().len() + op.new_range().len() };
                    ops.push(op);
                };
                if idx % 3 != 0 {
                    push_real(&mut ops, 0, &mut expect);
                }
                if idx % 2 == 0 {
                    for i in 0..n_empty {
                        ops.push(make_op(1 + (i + idx as usize) % 3, 2, 0, 1, 0));
                        if i == n_empty / 2 {
                            push_real(&mut ops, 1, &mut expect);
                        }
                    }
                } else {
                    // no empty ops: a very long list of one-item ops instead
                    for i in 0..n_empty {
                        let op = make_op(1 + i % 2, i % 6, 1, i % 6, 1);
                        expect += 1;
                        ops.push(op);
                    }
                }
                push_real(&mut ops, 2, &mut expect);
                push_real(&mut ops, 3, &mut expect);
                out.sample(|| format!("{} ops ({} of them empty), {} changes expected", ops.len(), if idx % 2 == 0 { n_empty } else { 0 }, expect));
                out.nontrivial(&("deep", ops.len(), idx));
                out.count("deep_cases");
                out.eval();
                let r = guard(|| {
                    let d = TextDiff::from_slices(&ra, &rb);
                    let h = similar::udiff::UnifiedDiffHunk::new(ops.clone(), &d, true);
                    let mut n = 0usize;
                    let mut it = h.iter_changes();
                    #[allow(clippy::while_let_on_iterator)]
                    while let Some(_c) = it.next() {
                        n += 1;
                    }
                    let n_fold = h.iter_changes().count();
                    let per_op: usize = ops.iter().map(|op| op.iter_changes(&ra[..], &rb[..]).count()).sum();
                    (n, n_fold, per_op)
                });
                match r {
                    Err(p) => out.violation("panic", format!("iterating a hunk of {} ops panicked: {}", ops.len(), p)),
                    Ok((n, n_fold, per_op)) => {
                        out.count_n("changes_observed", n as u64);
                        if n != expect || n_fold != expect || per_op != expect {
                            out.violation("expand.hunk_iter_changes", format!("a caller-built hunk of {} ops expands to {} changes by next(), {} by count(), {} op by op; expected {}", ops.len(), n, n_fold, per_op, expect));
                        }
                    }
                }
            },
        ),
    ]
}
