//! C08 — hook protocol: finish once and last; a hook error aborts the diff
//! unchanged.  Fault model: the k-th hook call (any kind, incl. finish)
//! returns Err(k); every k is enumerated for every input and adapter stack.

use std::cell::RefCell;
use std::rc::Rc;

use similar::algorithms::{diff, Compact, DiffHook, NoFinishHook, Replace};
use similar::Algorithm;

use crate::engine::{family, guard, Family, Local};
use crate::gen::{self, Step};
use crate::mon::{fmt_evs, Ev};
use crate::props::common::*;
use crate::rng::Rng;

#[derive(Default)]
struct Log {
    evs: Vec<Ev>,
    fail_at: Option<usize>,
    failed: bool,
    calls_after_error: usize,
    /// while set, calls are neither recorded nor failed (the warm-up diff of a re-used adapter)
    muted: bool,
}

impl Log {
    fn rec(&mut self, e: Ev) -> Result<(), usize> {
        if self.muted {
            return Ok(());
        }
        if self.failed {
            self.calls_after_error += 1;
        }
        let idx = self.evs.len();
        self.evs.push(e);
        if Some(idx) == self.fail_at {
            self.failed = true;
            return Err(idx);
        }
        Ok(())
    }
}

/// Recording hook that overrides `replace`.
#[derive(Clone)]
struct HookR(Rc<RefCell<Log>>);
/// Recording hook that does NOT override `replace` (uses the trait default).
#[derive(Clone)]
struct HookD(Rc<RefCell<Log>>);

impl DiffHook for HookR {
    type Error = usize;
    fn equal(&mut self, o: usize, n: usize, l: usize) -> Result<(), usize> {
        self.0.borrow_mut().rec(Ev::Eq(o, n, l))
    }
    fn delete(&mut self, o: usize, l: usize, n: usize) -> Result<(), usize> {
        self.0.borrow_mut().rec(Ev::Del(o, l, n))
    }
    fn insert(&mut self, o: usize, n: usize, l: usize) -> Result<(), usize> {
        self.0.borrow_mut().rec(Ev::Ins(o, n, l))
    }
    fn replace(&mut self, o: usize, ol: usize, n: usize, nl: usize) -> Result<(), usize> {
        self.0.borrow_mut().rec(Ev::Rep(o, ol, n, nl))
    }
    fn finish(&mut self) -> Result<(), usize> {
        self.0.borrow_mut().rec(Ev::Fin)
    }
}

impl DiffHook for HookD {
    type Error = usize;
    fn equal(&mut self, o: usize, n: usize, l: usize) -> Result<(), usize> {
        self.0.borrow_mut().rec(Ev::Eq(o, n, l))
    }
    fn delete(&mut self, o: usize, l: usize, n: usize) -> Result<(), usize> {
        self.0.borrow_mut().rec(Ev::Del(o, l, n))
    }
    fn insert(&mut self, o: usize, n: usize, l: usize) -> Result<(), usize> {
        self.0.borrow_mut().rec(Ev::Ins(o, n, l))
    }
    fn finish(&mut self) -> Result<(), usize> {
        self.0.borrow_mut().rec(Ev::Fin)
    }
}

pub const STACKS: [&str; 15] = [
    "H",
    "Replace<H>",
    "Compact<H>",
    "Compact<Replace<H>>",
    "NoFinishHook<H>",
    "&mut H",
    "Replace<&mut H>",
    "Compact<Replace<&mut H>>",
    "Replace<NoFinishHook<H>>",
    "Compact<NoFinishHook<H>>",
    "NoFinishHook<&mut H>",
    "Replace<NoFinishHook<&mut H>>",
    "Replace<Compact<H>>",
    "Replace<H> RE-USED (the same adapter object completed another diff before)",
    "Replace<NoFinishHook<H>> RE-USED (the same adapter object completed another diff before)",
];

fn has_no_finish(stack: usize) -> bool {
    matches!(stack, 4 | 8 | 9 | 10 | 11 | 14)
}

/// the owned-hook stack whose event list this stack must reproduce
/// (modulo the finish call for NoFinishHook stacks)
fn reference_stack(stack: usize) -> usize {
    match stack {
        4 | 5 | 10 => 0,
        6 | 8 | 11 | 13 => 1,
        14 => 8,
        9 => 2,
        7 => 3,
        s => s,
    }
}

/// What drives the stack: an algorithm, or a script replayed by hand (with
/// `replace` calls when `with_replace_calls`).
enum Driver<'a> {
    Alg(Algorithm),
    /// other public entry points: 1 = diff_slices, 2 = diff_slices_deadline(None), 3 = <alg>::diff, 4 = <alg>::diff_deadline(None)
    AlgEntry(Algorithm, u8),
    /// algorithm with a deadline that the virtual clock lets expire at its k-th check
    AlgDeadline(Algorithm, u64),
    Script(&'a [Ev]),
}

fn drive<D: DiffHook<Error = usize>>(d: &mut D, drv: &Driver, a: &[u8], b: &[u8]) -> Result<(), usize> {
    match drv {
        Driver::Alg(alg) => diff(*alg, d, a, 0..a.len(), b, 0..b.len()),
        Driver::AlgEntry(alg, e) => match (*e, *alg) {
            (1, _) => similar::algorithms::diff_slices(*alg, d, a, b),
            (2, _) => similar::algorithms::diff_slices_deadline(*alg, d, a, b, None),
            (3, Algorithm::Myers) => similar::algorithms::myers::diff(d, a, 0..a.len(), b, 0..b.len()),
            (3, Algorithm::Patience) => similar::algorithms::patience::diff(d, a, 0..a.len(), b, 0..b.len()),
            (3, Algorithm::Lcs) => similar::algorithms::lcs::diff(d, a, 0..a.len(), b, 0..b.len()),
            (_, Algorithm::Myers) => similar::algorithms::myers::diff_deadline(d, a, 0..a.len(), b, 0..b.len(), None),
            (_, Algorithm::Patience) => similar::algorithms::patience::diff_deadline(d, a, 0..a.len(), b, 0..b.len(), None),
            (_, Algorithm::Lcs) => similar::algorithms::lcs::diff_deadline(d, a, 0..a.len(), b, 0..b.len(), None),
        },
        Driver::AlgDeadline(alg, _) => similar::algorithms::diff_deadline(*alg, d, a, 0..a.len(), b, 0..b.len(), Some(far_deadline())),
        Driver::Script(evs) => {
            for e in evs.iter() {
                match *e {
                    Ev::Eq(o, n, l) => d.equal(o, n, l)?,
                    Ev::Del(o, l, n) => d.delete(o, l, n)?,
                    Ev::Ins(o, n, l) => d.insert(o, n, l)?,
                    Ev::Rep(o, ol, n, nl) => d.replace(o, ol, n, nl)?,
                    Ev::Fin => d.finish()?,
                }
            }
            Ok(())
        }
    }
}

/// A successful diff through `d` that the recording hook does not see (it is muted meanwhile): the
/// adapter object has then been used before.  Which diff: the reverse one, an identical pair, or a
/// fixed small pair - so that the warm-up ends at other positions than the measured diff starts.
fn warm_up<D: DiffHook<Error = usize>>(d: &mut D, log: &Rc<RefCell<Log>>, a: &[u8], b: &[u8]) {
    log.borrow_mut().muted = true;
    let alg = ALGS[(a.len() + 2 * b.len()) % 3];
    let r = match (a.len() + b.len()) % 3 {
        0 => diff(alg, d, b, 0..b.len(), a, 0..a.len()),
        1 => diff(alg, d, a, 0..a.len(), a, 0..a.len()),
        _ => diff(alg, d, &[1u8, 2, 3][..], 0..3, &[1u8, 2, 3, 4][..], 0..4),
    };
    log.borrow_mut().muted = false;
    assert!(r.is_ok(), "harness: the muted warm-up diff cannot fail");
}

fn run_stack<H: DiffHook<Error = usize> + Clone>(stack: usize, h: &H, log: &Rc<RefCell<Log>>, drv: &Driver, a: &[u8], b: &[u8]) -> Result<(), usize> {
    let mut h = h.clone();
    match stack {
        13 => {
            let mut r = Replace::new(h);
            warm_up(&mut r, log, a, b);
            drive(&mut r, drv, a, b)
        }
        14 => {
            let mut r = Replace::new(NoFinishHook::new(h));
            warm_up(&mut r, log, a, b);
            drive(&mut r, drv, a, b)
        }
        0 => drive(&mut h, drv, a, b),
        1 => drive(&mut Replace::new(h), drv, a, b),
        2 => drive(&mut Compact::new(h, a, b), drv, a, b),
        3 => drive(&mut Compact::new(Replace::new(h), a, b), drv, a, b),
        4 => drive(&mut NoFinishHook::new(h), drv, a, b),
        5 => {
            let mut r = &mut h;
            drive(&mut r, drv, a, b)
        }
        6 => drive(&mut Replace::new(&mut h), drv, a, b),
        7 => drive(&mut Compact::new(Replace::new(&mut h), a, b), drv, a, b),
        8 => drive(&mut Replace::new(NoFinishHook::new(h)), drv, a, b),
        9 => drive(&mut Compact::new(NoFinishHook::new(h), a, b), drv, a, b),
        10 => drive(&mut NoFinishHook::new(&mut h), drv, a, b),
        11 => drive(&mut Replace::new(NoFinishHook::new(&mut h)), drv, a, b),
        _ => drive(&mut Replace::new(Compact::new(h, a, b)), drv, a, b),
    }
}

struct Outcome {
    result: Result<(), usize>,
    evs: Vec<Ev>,
    calls_after_error: usize,
}

fn execute(stack: usize, with_replace_override: bool, fail_at: Option<usize>, drv: &Driver, a: &[u8], b: &[u8]) -> Result<Outcome, String> {
    let log = Rc::new(RefCell::new(Log {
        fail_at,
        ..Default::default()
    }));
    let l2 = log.clone();
    let l3 = log.clone();
    if let Driver::AlgDeadline(_, k) = drv {
        similar::verif_hooks::set_clock(similar::verif_hooks::Clock::Fuel(*k));
    }
    let r = guard(move || {
        if with_replace_override {
            run_stack(stack, &HookR(l2), &l3, drv, a, b)
        } else {
            run_stack(stack, &HookD(l2), &l3, drv, a, b)
        }
    });
    similar::verif_hooks::set_clock(similar::verif_hooks::Clock::Off);
    let log = log.borrow();
    r.map(|result| Outcome {
        result,
        evs: log.evs.clone(),
        calls_after_error: log.calls_after_error,
    })
}

fn expand_replace(evs: &[Ev]) -> Vec<Ev> {
    let mut v = Vec::with_capacity(evs.len());
    for e in evs {
        if let Ev::Rep(o, ol, n, nl) = *e {
            v.push(Ev::Del(o, ol, n));
            v.push(Ev::Ins(o, n, nl));
        } else {
            v.push(*e);
        }
    }
    v
}

fn without_finish(evs: &[Ev]) -> Vec<Ev> {
    evs.iter().copied().filter(|e| *e != Ev::Fin).collect()
}

fn check_case(drv: &Driver, drv_name: &str, a: &[u8], b: &[u8], stacks: &[usize], out: &mut Local) {
    check_case_opt(drv, drv_name, a, b, stacks, true, out)
}

fn check_case_opt(drv: &Driver, drv_name: &str, a: &[u8], b: &[u8], stacks: &[usize], enumerate_faults: bool, out: &mut Local) {
    let mut clean: Vec<Option<Vec<Ev>>> = vec![None; STACKS.len()];
    for &stack in stacks {
        for with_rep in [true, false] {
            let ctx = |evs: &[Ev]| {
                format!(
                    "driver={} stack={} hook {} replace | old={:?} new={:?} | hook saw {}",
                    drv_name,
                    STACKS[stack],
                    if with_rep { "overrides" } else { "does not override" },
                    a,
                    b,
                    fmt_evs(evs)
                )
            };
            out.eval();
            let c = match execute(stack, with_rep, None, drv, a, b) {
                Err(p) => {
                    out.violation("panic", format!("{} | {}", p, ctx(&[])));
                    continue;
                }
                Ok(c) => c,
            };
            out.count_n("hook_calls_observed", c.evs.len() as u64);
            if c.result.is_err() {
                out.violation("hook.spurious_error", format!("clean run returned {:?} | {}", c.result, ctx(&c.evs)));
            }
            let fins = c.evs.iter().filter(|e| **e == Ev::Fin).count();
            let script_has_finish = match drv {
                Driver::Alg(_) | Driver::AlgDeadline(..) | Driver::AlgEntry(..) => true,
                Driver::Script(evs) => evs.last() == Some(&Ev::Fin),
            };
            if has_no_finish(stack) {
                if fins != 0 {
                    out.violation("hook.nofinish_forwarded_finish", format!("finish reached the hook {} times through NoFinishHook | {}", fins, ctx(&c.evs)));
                }
            } else if script_has_finish && (fins != 1 || c.evs.last() != Some(&Ev::Fin)) {
                out.violation("hook.finish_once_and_last", format!("finish was called {} times / is not the last call | {}", fins, ctx(&c.evs)));
            }
            if with_rep {
                clean[stack] = Some(c.evs.clone());
                // forwarding wrappers are transparent
                let r = reference_stack(stack);
                if r != stack {
                    if let Some(reference) = &clean[r] {
                        let expect = if has_no_finish(stack) { without_finish(reference) } else { reference.clone() };
                        if c.evs != expect {
                            out.violation(
                                "hook.forwarding_differs",
                                format!("{} must forward exactly the calls of {}{}: expected {} | {}", STACKS[stack], STACKS[r], if has_no_finish(stack) { " except finish" } else { "" }, fmt_evs(&expect), ctx(&c.evs)),
                            );
                        }
                    }
                }
            } else if let Some(with) = &clean[stack] {
                // default replace == delete followed by insert
                let expect = expand_replace(with);
                if c.evs != expect {
                    out.violation(
                        "hook.default_replace",
                        format!("a hook that does not override replace must see delete+insert for each replace: expected {} | {}", fmt_evs(&expect), ctx(&c.evs)),
                    );
                }
                if with.iter().any(|e| matches!(e, Ev::Rep(..))) {
                    out.count("default_replace_expansions_checked");
                }
            }
            // fault enumeration: every k (for the huge inputs: first, last and three in between)
            let total = c.evs.len();
            let ks: Vec<usize> = if enumerate_faults { (0..total).collect() } else { vec![0, total / 3, total / 2, total.saturating_sub(2), total.saturating_sub(1)].into_iter().filter(|k| *k < total).collect() };
            for k in ks {
                out.eval();
                out.count("failing_runs");
                match execute(stack, with_rep, Some(k), drv, a, b) {
                    Err(p) => out.violation("panic", format!("with hook call #{} failing: {} | {}", k, p, ctx(&[]))),
                    Ok(f) => {
                        if f.result != Err(k) {
                            out.violation("hook.error_not_returned", format!("hook call #{} returned Err({}) but the diff returned {:?} | {}", k, k, f.result, ctx(&f.evs)));
                        }
                        if f.calls_after_error > 0 || f.evs.len() != k + 1 {
                            out.violation(
                                "hook.call_after_error",
                                format!("hook call #{} failed but {} further call(s) were made | {}", k, f.evs.len().saturating_sub(k + 1), ctx(&f.evs)),
                            );
                        }
                        let upto = (k + 1).min(f.evs.len()).min(c.evs.len());
                        if f.evs[..upto] != c.evs[..upto] {
                            out.violation(
                                "hook.prefix_differs",
                                format!("calls before the failing one differ from the clean run {} | {}", fmt_evs(&c.evs), ctx(&f.evs)),
                            );
                        }
                    }
                }
            }
        }
    }
}

pub fn families() -> Vec<Box<dyn Family>> {
    let all_stacks: Vec<usize> = (0..STACKS.len()).collect();
    let s1 = all_stacks.clone();
    let s2 = all_stacks.clone();
    let s3 = all_stacks;
    vec![
        family(
            "alg_exh",
            "every ordered pair over {0,1,2} with length <= 4 (quick) / <= 5 (thorough) x 3 algorithms x 13 adapter stacks (owned and &mut; NoFinishHook inside Replace/Compact; Replace around Compact); entry points algorithms::diff, diff_slices, diff_slices_deadline, <alg>::diff, <alg>::diff_deadline x hook with/without replace override x EVERY k = index of the failing hook call; non-trivial = pair different and both non-empty",
            true,
            4,
            |cfg| {
                let n = gen::all_seqs(3, if cfg.tiny { 2 } else { cfg.tier.pick(4, 5) }).len() as u64;
                n * n
            },
            move |idx, cfg, out| {
                let seqs = gen::all_seqs(3, if cfg.tiny { 2 } else { cfg.tier.pick(4, 5) });
                let (a, b) = gen::pair_of(seqs, idx);
                out.sample(|| format!("old={:?} new={:?} x 3 algorithms x 12 stacks x 2 hook kinds x every failing call index", a, b));
                for alg in ALGS {
                    if !a.is_empty() && !b.is_empty() && a != b {
                        out.nontrivial(&(alg_name(alg), a, b));
                    }
                    check_case(&Driver::Alg(alg), alg_name(alg), a, b, &s1, out);
                    // the other public entry points (slice shortcuts, per-algorithm modules)
                    for e in 1..=4u8 {
                        let name = format!("{} via {}", alg_name(alg), ["", "diff_slices", "diff_slices_deadline(None)", "<alg>::diff", "<alg>::diff_deadline(None)"][e as usize]);
                        check_case(&Driver::AlgEntry(alg, e), &name, a, b, &[0, 1, 3, 4], out);
                    }
                }
            },
        ),
        family(
            "alg_deadline_exh",
            "two fault dimensions combined: every ordered pair over {0,1,2} with length <= 3 (quick) / <= 4 (thorough) x 3 algorithms x deadline expiring at check #0 / #1 / #2 (virtual clock) x 12 stacks x hook kinds x EVERY failing call index — reaches the deadline fallback branches with a failing hook",
            true,
            4,
            |cfg| {
                let n = gen::all_seqs(3, if cfg.tiny { 2 } else { cfg.tier.pick(3, 4) }).len() as u64;
                n * n
            },
            {
                let s = (0..STACKS.len()).collect::<Vec<usize>>();
                move |idx, cfg, out| {
                    let seqs = gen::all_seqs(3, if cfg.tiny { 2 } else { cfg.tier.pick(3, 4) });
                    let (a, b) = gen::pair_of(seqs, idx);
                    out.sample(|| format!("old={:?} new={:?} x 3 algorithms x expiry at check 0/1/2 x 12 stacks x every failing call index", a, b));
                    for alg in ALGS {
                        for k in [0u64, 1, 2] {
                            if !a.is_empty() && !b.is_empty() && a != b {
                                out.nontrivial(&(alg_name(alg), a, b, k));
                            }
                            let name = format!("{} with deadline expiring at check #{}", alg_name(alg), k);
                            check_case(&Driver::AlgDeadline(alg, k), &name, a, b, &s, out);
                        }
                    }
                }
            },
        ),
        family(
            "alg_deadline_rnd",
            "seeded random pairs up to 40 items x one algorithm x deadline expiring at a random check x 12 stacks x every failing call index",
            false,
            4,
            |cfg| cfg.n(1_000, 30_000),
            {
                let s = (0..STACKS.len()).collect::<Vec<usize>>();
                move |idx, cfg, out| {
                    let mut rng = Rng::for_case(cfg.seed, "c08.alg_deadline_rnd", idx);
                    let (a, b) = gen::rand_pair(&mut rng, if cfg.tiny { 3 } else { 40 });
                    let a: Vec<u8> = a.iter().map(|x| (*x % 251) as u8).collect();
                    let b: Vec<u8> = b.iter().map(|x| (*x % 251) as u8).collect();
                    let alg = ALGS[rng.below(3)];
                    let k = rng.below(6) as u64;
                    out.sample(|| format!("alg={} expiry at check #{} old={} new={}", alg_name(alg), k, fmt_seq(&a), fmt_seq(&b)));
                    if a != b {
                        out.nontrivial(&(alg_name(alg), &a, &b, k));
                    }
                    let name = format!("{} with deadline expiring at check #{}", alg_name(alg), k);
                    check_case(&Driver::AlgDeadline(alg, k), &name, &a, &b, &s, out);
                }
            },
        ),
        family(
            "alg_huge",
            "protocol on huge inputs (clean run + 5 failing call indices): LCS on two unrelated sequences of about 4200 x 4100 items, Myers / Patience on 20000-item near-identical and on 3000 x 3000 unrelated inputs, through H, Replace<H>, Compact<Replace<H>> — finish exactly once and last also when internal size limits could apply",
            false,
            1,
            |cfg| if cfg.tiny { 1 } else { cfg.tier.pick(5, 20) },
            |idx, cfg, out| {
                let mut rng = Rng::for_case(cfg.seed, "c08.alg_huge", idx);
                let (a, b, alg) = if cfg.tiny {
                    (vec![1u8, 2, 3], vec![1u8, 3], Algorithm::Lcs)
                } else if idx % 5 == 0 {
                    // bytes 0..=250 cycle: unrelated sequences built from disjoint alphabets
                    let n = rng.range(4100, 4300);
                    let m = rng.range(4100, 4300);
                    ((0..n).map(|i| (i % 120) as u8).collect::<Vec<u8>>(), (0..m).map(|i| 128 + (i % 120) as u8).collect::<Vec<u8>>(), Algorithm::Lcs)
                } else if idx % 5 <= 2 {
                    let n = 20_000;
                    let a: Vec<u8> = (0..n).map(|i| ((i * 7 + i / 251) % 251) as u8).collect();
                    let mut b = a.clone();
                    for _ in 0..4 {
                        let i = rng.below(b.len());
                        b[i] = 255;
                    }
                    (a, b, if idx % 5 == 1 { Algorithm::Myers } else { Algorithm::Patience })
                } else {
                    let n = 3000;
                    ((0..n).map(|i| (i % 120) as u8).collect::<Vec<u8>>(), (0..n).map(|i| 128 + (i % 120) as u8).collect::<Vec<u8>>(), if idx % 5 == 3 { Algorithm::Myers } else { Algorithm::Patience })
                };
                out.sample(|| format!("alg={} N={} M={}", alg_name(alg), a.len(), b.len()));
                out.nontrivial(&(alg_name(alg), a.len(), b.len(), idx));
                out.count("huge_protocol_cases");
                check_case_opt(&Driver::Alg(alg), alg_name(alg), &a, &b, &[0, 1, 3], false, out);
            },
        ),
        family(
            "patience_gaps",
            "a few items that are unique on both sides (anchors) separated by LONG GAPS: 0..160 non-matching filler items on each side in front of every anchor (fillers from two small alphabets that are disjoint or overlap, so the gaps hold nothing / little in common) x 3 algorithms x {H, Replace<H>, Compact<Replace<H>>, Replace<NoFinishHook<H>>, re-used Replace<H>}: clean run + failing call indices",
            false,
            1,
            |cfg| cfg.n(120, 3_000),
            |idx, cfg, out| {
                let mut rng = Rng::for_case(cfg.seed, "c08.patience_gaps", idx);
                let anchors = 1 + rng.below(4);
                let max_gap = if cfg.tiny { 3 } else { *rng.pick(&[10usize, 70, 100, 160]) };
                let overlap = rng.chance(1, 3);
                let (mut a, mut b) = (Vec::new(), Vec::new());
                for k in 0..anchors {
                    for _ in 0..rng.below(max_gap + 1) {
                        a.push(1 + rng.below(3) as u8);
                    }
                    for _ in 0..rng.below(max_gap + 1) {
                        b.push(if overlap { 2 + rng.below(3) as u8 } else { 11 + rng.below(3) as u8 });
                    }
                    a.push(200 + k as u8);
                    b.push(200 + k as u8);
                }
                if rng.chance(1, 2) {
                    for _ in 0..rng.below(max_gap + 1) {
                        a.push(1 + rng.below(3) as u8);
                    }
                    b.push(11);
                }
                let alg = if idx % 4 == 3 { ALGS[rng.below(3)] } else { Algorithm::Patience };
                out.sample(|| format!("alg={} old={} new={}", alg_name(alg), fmt_seq(&a), fmt_seq(&b)));
                out.nontrivial(&(alg_name(alg), &a, &b));
                out.count("long_gap_cases");
                check_case_opt(&Driver::Alg(alg), alg_name(alg), &a, &b, &[0, 1, 3, 8, 13], a.len() + b.len() <= 60, out);
            },
        ),
        family(
            "alg_rnd",
            "seeded random pairs up to 40 items x one algorithm x 12 stacks x every failing call index",
            false,
            4,
            |cfg| cfg.n(1_500, 40_000),
            move |idx, cfg, out| {
                let mut rng = Rng::for_case(cfg.seed, "c08.alg_rnd", idx);
                let (a, b) = gen::rand_pair(&mut rng, if cfg.tiny { 3 } else { 40 });
                let a: Vec<u8> = a.iter().map(|x| (*x % 251) as u8).collect();
                let b: Vec<u8> = b.iter().map(|x| (*x % 251) as u8).collect();
                let alg = ALGS[rng.below(3)];
                out.sample(|| format!("alg={} old={} new={}", alg_name(alg), fmt_seq(&a), fmt_seq(&b)));
                if a != b {
                    out.nontrivial(&(alg_name(alg), &a, &b));
                }
                check_case(&Driver::Alg(alg), alg_name(alg), &a, &b, &s2, out);
            },
        ),
        family(
            "script_rnd",
            "adapters driven by hand with random valid scripts that also contain replace calls (delete+insert pairs fused), followed by finish, x 12 stacks x every failing call index — reaches replace forwarding of NoFinishHook / &mut D / Replace",
            false,
            8,
            |cfg| cfg.n(4_000, 100_000),
            move |idx, cfg, out| {
                let mut rng = Rng::for_case(cfg.seed, "c08.script_rnd", idx);
                let alpha = 1 + rng.below(3);
                let la = rng.below(if cfg.tiny { 3 } else { 9 });
                let lb = rng.below(if cfg.tiny { 3 } else { 9 });
                let a: Vec<u8> = (0..la).map(|_| rng.below(alpha) as u8).collect();
                let b: Vec<u8> = (0..lb).map(|_| rng.below(alpha) as u8).collect();
                let steps = gen::rand_script(&mut rng, &a, &b);
                // fuse adjacent delete+insert into a replace call half of the time
                let mut evs: Vec<Ev> = Vec::new();
                let mut i = 0;
                while i < steps.len() {
                    // a replace call is only fused from an isolated delete+insert pair (equal
                    // calls or the script boundary on both sides): the adapters are only
                    // specified for replace calls that do not touch other pending changes
                    let isolated = (i == 0 || matches!(steps[i - 1], Step::Eq(..))) && (i + 2 >= steps.len() || matches!(steps[i + 2], Step::Eq(..)));
                    match (steps[i], steps.get(i + 1).copied()) {
                        (Step::Del(o, ol, n), Some(Step::Ins(_, n2, nl))) if n2 == n && isolated && rng.chance(2, 3) => {
                            evs.push(Ev::Rep(o, ol, n, nl));
                            i += 2;
                        }
                        (Step::Eq(o, n, l), _) => {
                            evs.push(Ev::Eq(o, n, l));
                            i += 1;
                        }
                        (Step::Del(o, l, n), _) => {
                            evs.push(Ev::Del(o, l, n));
                            i += 1;
                        }
                        (Step::Ins(o, n, l), _) => {
                            evs.push(Ev::Ins(o, n, l));
                            i += 1;
                        }
                    }
                }
                evs.push(Ev::Fin);
                out.sample(|| format!("old={:?} new={:?} calls={}", a, b, fmt_evs(&evs)));
                if evs.iter().any(|e| matches!(e, Ev::Rep(..))) {
                    out.nontrivial(&(&a, &b, &evs));
                }
                check_case(&Driver::Script(&evs), "hand-driven script", &a, &b, &s3, out);
                // the same script with ZERO-LENGTH events sprinkled in (a caller-written differ may emit them): the
                // forwarding wrappers must pass on every call except finish, whatever its lengths
                if idx % 3 == 0 {
                    let mut evs0: Vec<Ev> = Vec::new();
                    let (mut o, mut n) = (0usize, 0usize);
                    for e in &evs {
                        if rng.chance(1, 3) && *e != Ev::Fin {
                            evs0.push(match rng.below(3) {
                                0 => Ev::Eq(o, n, 0),
                                1 => Ev::Del(o, 0, n),
                                _ => Ev::Ins(o, n, 0),
                            });
                        }
                        match *e {
                            Ev::Eq(_, _, l) => {
                                o += l;
                                n += l;
                            }
                            Ev::Del(_, l, _) => o += l,
                            Ev::Ins(_, _, l) => n += l,
                            Ev::Rep(_, ol, _, nl) => {
                                o += ol;
                                n += nl;
                            }
                            Ev::Fin => {}
                        }
                        evs0.push(*e);
                    }
                    if evs0.len() > evs.len() {
                        out.count("scripts_with_zero_length_events");
                        check_case(&Driver::Script(&evs0), "hand-driven script with zero-length events", &a, &b, &[0, 4, 5, 10], out);
                    }
                }
            },
        ),
    ]
}
