//! C20 — diffs are deterministic and depend only on the equality pattern.

use std::collections::HashSet;

use similar::verif_hooks as vh;
use similar::{capture_diff, capture_diff_slices, Algorithm, DiffOp, TextDiff};

use crate::engine::{digest, family, guard, Family, Local};
use crate::gen;
use crate::mon::{fmt_ops, CollidingElem, Rec};
use crate::props::common::*;
use crate::rng::Rng;
use crate::text_gen;

fn note_digest(out: &mut Local, idx: u64, what: &str, ops: &[DiffOp]) {
    let d = digest(&(idx, what, ops));
    out.count_n("result_digest_sum_lo32", d & 0xffff_ffff);
    out.count_n("result_digest_sum_hi32", d >> 32);
}

fn seq_case(idx: u64, alg: Algorithm, a: &[u32], b: &[u32], threads: bool, tiny: bool, out: &mut Local) {
    let ctx = || format!("alg={} old={} new={}", alg_name(alg), fmt_seq(a), fmt_seq(b));
    // reference result
    out.eval();
    vh::record_unique_orders(true);
    let _ = vh::take_unique_orders();
    let base = match guard(|| capture_diff_slices(alg, a, b)) {
        Ok(o) => o,
        Err(p) => {
            vh::record_unique_orders(false);
            out.violation("panic", format!("capture_diff_slices panicked: {} | {}", p, ctx()));
            return;
        }
    };
    note_digest(out, idx, alg_name(alg), &base);
    let mut orders: HashSet<Vec<(u64, bool)>> = HashSet::new();
    let mut unsorted_seen = false;
    let first = vh::take_unique_orders();
    unsorted_seen |= first.iter().any(|x| !x.1);
    orders.insert(first);
    // (a) repeated calls: fresh randomly seeded hash maps every time
    for rep in 0..3 {
        out.eval();
        match guard(|| capture_diff_slices(alg, a, b)) {
            Ok(o) => {
                if o != base {
                    out.violation("determinism.repeated_call", format!("call #{} returned {} but the first call returned {} | {}", rep + 2, fmt_ops(&o), fmt_ops(&base), ctx()));
                }
            }
            Err(p) => out.violation("panic", format!("{} | {}", p, ctx())),
        }
        let o = vh::take_unique_orders();
        unsorted_seen |= o.iter().any(|x| !x.1);
        orders.insert(o);
    }
    vh::record_unique_orders(false);
    // no state may leak from one call into the next on the same thread: diff other inputs in
    // between (the reversed pair, a shifted pair, an expired-deadline diff) and ask again
    {
        let _ = guard(|| capture_diff_slices(alg, b, a));
        let shifted: Vec<u32> = a.iter().map(|x| x.wrapping_add(1)).collect();
        let _ = guard(|| capture_diff_slices(alg, &shifted, b));
        let past = std::time::Instant::now().checked_sub(std::time::Duration::from_secs(1));
        let _ = guard(|| similar::capture_diff_slices_deadline(alg, a, b, past));
        out.evals_add(4);
        match guard(|| capture_diff_slices(alg, a, b)) {
            Ok(o) => {
                if o != base {
                    out.violation(
                        "determinism.depends_on_previous_calls",
                        format!("after diffing other inputs (and one diff with an expired deadline) on the same thread the same call returns {} instead of {} | {}", fmt_ops(&o), fmt_ops(&base), ctx()),
                    );
                }
            }
            Err(p) => out.violation("panic", format!("{} | {}", p, ctx())),
        }
    }
    // the same holds for a diff that runs against a REAL deadline that has already passed: every
    // deadline check sees "expired", so the cut-short result is a function of the inputs too
    {
        let past = std::time::Instant::now().checked_sub(std::time::Duration::from_secs(1));
        out.evals_add(4);
        let first = guard(|| similar::capture_diff_slices_deadline(alg, a, b, past));
        let again = guard(|| similar::capture_diff_slices_deadline(alg, a, b, past));
        let third = guard(|| similar::capture_diff_slices_deadline(alg, a, b, past));
        let other_thread = if tiny {
            guard(|| similar::capture_diff_slices_deadline(alg, a, b, past))
        } else {
            std::thread::scope(|s| s.spawn(|| guard(|| similar::capture_diff_slices_deadline(alg, a, b, past))).join().unwrap_or_else(|_| Err("thread panicked".into())))
        };
        match (&first, &again, &third, &other_thread) {
            (Ok(x), Ok(y), Ok(z), Ok(w)) => {
                out.count("expired_real_deadline_repeats");
                if x != y || x != z {
                    out.violation("determinism.repeated_call", format!("with a real deadline in the past, repeated calls return {} / {} / {} | {}", fmt_ops(x), fmt_ops(y), fmt_ops(z), ctx()));
                }
                if x != w {
                    out.violation("determinism.across_threads", format!("with a real deadline in the past, a fresh thread returns {} instead of {} | {}", fmt_ops(w), fmt_ops(x), ctx()));
                }
            }
            _ => out.violation("panic", format!("diff with an expired deadline panicked | {}", ctx())),
        }
    }
    // ... nor may hook errors leave anything behind: many diffs aborted by a failing hook (at
    // varying call indices), then the same question again, compared with a fresh thread
    if idx % 4 == 1 && a.len() + b.len() >= 4 && a.len() + b.len() <= 600 {
        struct FailAt(u64, u64);
        impl similar::algorithms::DiffHook for FailAt {
            type Error = ();
            fn equal(&mut self, _: usize, _: usize, _: usize) -> Result<(), ()> {
                self.0 += 1;
                if self.0 > self.1 { Err(()) } else { Ok(()) }
            }
            fn delete(&mut self, _: usize, _: usize, _: usize) -> Result<(), ()> {
                self.0 += 1;
                if self.0 > self.1 { Err(()) } else { Ok(()) }
            }
            fn insert(&mut self, _: usize, _: usize, _: usize) -> Result<(), ()> {
                self.0 += 1;
                if self.0 > self.1 { Err(()) } else { Ok(()) }
            }
        }
        // (Miri stage: an interpreter is ~10^4 times slower; a handful of aborted diffs there)
        let aborted = if tiny { 4u64 } else { 120 };
        for k in 0..aborted {
            let _ = guard(|| {
                let mut h = FailAt(0, k % 7);
                let _ = similar::algorithms::diff_slices(alg, &mut h, a, b);
                let mut h2 = similar::algorithms::Compact::new(similar::algorithms::Replace::new(FailAt(0, k % 5)), a, b);
                let _ = similar::algorithms::diff_slices(alg, &mut h2, a, b);
            });
        }
        out.evals_add(2 * aborted + 1);
        out.count_n("aborted_diffs_interleaved", 2 * aborted);
        match guard(|| capture_diff_slices(alg, a, b)) {
            Ok(o) => {
                if o != base {
                    out.violation(
                        "determinism.depends_on_previous_calls",
                        format!("after {} diffs on the same thread that were aborted by a failing hook, the same call returns {} instead of {} | {}", 2 * aborted, fmt_ops(&o), fmt_ops(&base), ctx()),
                    );
                }
            }
            Err(p) => out.violation("panic", format!("{} | {}", p, ctx())),
        }
    }
    // ... nor may results depend on WHERE the inputs live: one buffer whose contents are replaced
    // in place (same address, same length, different items) between calls
    if a.len() == b.len() || idx % 3 == 0 {
        let n = a.len().max(b.len());
        let mut bo: Vec<u32> = Vec::with_capacity(n);
        let mut bn: Vec<u32> = Vec::with_capacity(n);
        // first tenant: all-unique items of the same lengths
        bo.extend((0..a.len() as u32).map(|i| 9_000_000 + i));
        bn.extend((0..b.len() as u32).map(|i| 9_000_000 + (b.len() as u32 - i)));
        let _ = guard(|| capture_diff_slices(alg, &bo, &bn));
        // second tenant at the same addresses: the real inputs
        bo.clear();
        bo.extend_from_slice(a);
        bn.clear();
        bn.extend_from_slice(b);
        out.evals_add(2);
        match guard(|| capture_diff_slices(alg, &bo, &bn)) {
            Ok(o) => {
                out.count("buffer_reuse_runs");
                if o != base {
                    out.violation(
                        "determinism.depends_on_previous_calls",
                        format!("inputs written into buffers that held OTHER items (same address and length) during an earlier diff give {} instead of {} | {}", fmt_ops(&o), fmt_ops(&base), ctx()),
                    );
                }
            }
            Err(p) => out.violation("panic", format!("{} | {}", p, ctx())),
        }
    }
    if alg == Algorithm::Patience {
        out.count("patience_inputs");
        if orders.len() >= 2 {
            out.count("patience_inputs_where_hash_iteration_order_varied");
        }
        if unsorted_seen {
            out.count("patience_inputs_where_presort_order_was_not_sorted");
        }
    }
    // (b) concurrently on other threads
    if threads {
        let results: Vec<Result<Vec<DiffOp>, String>> = std::thread::scope(|s| {
            let hs: Vec<_> = (0..3).map(|_| s.spawn(|| guard(|| capture_diff_slices(alg, a, b)))).collect();
            hs.into_iter().map(|h| h.join().unwrap_or_else(|_| Err("thread panicked".into()))).collect()
        });
        for r in results {
            out.eval();
            out.count("concurrent_thread_runs");
            match r {
                Ok(o) => {
                    if o != base {
                        out.violation("determinism.across_threads", format!("another thread returned {} instead of {} | {}", fmt_ops(&o), fmt_ops(&base), ctx()));
                    }
                }
                Err(p) => out.violation("panic", format!("{} | {}", p, ctx())),
            }
        }
    }
    // (d) order-preserving injective relabellings
    let sa: Vec<String> = a.iter().map(|x| format!("{:010}", (*x as u64) * 7 + 3)).collect();
    let sb: Vec<String> = b.iter().map(|x| format!("{:010}", (*x as u64) * 7 + 3)).collect();
    out.eval();
    match guard(|| capture_diff_slices(alg, &sa, &sb)) {
        Ok(o) => {
            if o != base {
                out.violation("determinism.relabel_strings", format!("relabelled to strings: {} instead of {} | {}", fmt_ops(&o), fmt_ops(&base), ctx()));
            }
        }
        Err(p) => out.violation("panic", format!("{} | {}", p, ctx())),
    }
    let ua: Vec<u64> = a.iter().map(|x| (*x as u64) * 1_000_003 + (1 << 40)).collect();
    let ub: Vec<u64> = b.iter().map(|x| (*x as u64) * 1_000_003 + (1 << 40)).collect();
    out.eval();
    match guard(|| capture_diff_slices(alg, &ua, &ub)) {
        Ok(o) => {
            if o != base {
                out.violation("determinism.relabel_u64", format!("relabelled to u64: {} instead of {} | {}", fmt_ops(&o), fmt_ops(&base), ctx()));
            }
        }
        Err(p) => out.violation("panic", format!("{} | {}", p, ctx())),
    }
    for c in [1u64, 7, 1000] {
        let ra: Vec<u64> = a.iter().map(|x| (*x as u64) * 3 + c).collect();
        let rb: Vec<u64> = b.iter().map(|x| (*x as u64) * 3 + c).collect();
        out.eval();
        match guard(|| capture_diff_slices(alg, &ra, &rb)) {
            Ok(o) => {
                if o != base {
                    out.violation("determinism.relabel_u64", format!("relabelled x -> 3x+{}: {} instead of {} | {}", c, fmt_ops(&o), fmt_ops(&base), ctx()));
                }
            }
            Err(p) => out.violation("panic", format!("{} | {}", p, ctx())),
        }
    }
    // (e) same values, every hash colliding (a legal Hash implementation)
    let ca: Vec<CollidingElem> = a.iter().map(|x| CollidingElem(*x)).collect();
    let cb: Vec<CollidingElem> = b.iter().map(|x| CollidingElem(*x)).collect();
    out.eval();
    match guard(|| capture_diff_slices(alg, &ca, &cb)) {
        Ok(o) => {
            if o != base {
                out.violation("determinism.colliding_hashes", format!("items with a constant hash: {} instead of {} | {}", fmt_ops(&o), fmt_ops(&base), ctx()));
            }
        }
        Err(p) => out.violation("panic", format!("{} | {}", p, ctx())),
    }
    // (e2) only the NEW side relabelled to ANOTHER TYPE that compares by value with the old side's u32 but
    // hashes differently (legal: only `New::Output: PartialEq<Old::Output>` relates the two sides): same
    // equalities, so the same ops
    {
        use crate::mon::WideId;
        let wb: Vec<WideId> = b.iter().map(|x| WideId(*x as u64)).collect();
        out.eval();
        out.count("heterogeneous_relabellings");
        match guard(|| similar::capture_diff(alg, a, 0..a.len(), &wb[..], 0..wb.len())) {
            Ok(o) => {
                if o != base {
                    out.violation("determinism.relabel_new_side_type", format!("new side relabelled to another item type (same values, another Hash): {} instead of {} | {}", fmt_ops(&o), fmt_ops(&base), ctx()));
                }
            }
            Err(p) => out.violation("panic", format!("{} | {}", p, ctx())),
        }
    }
    // (f) the crate's own integer mapping as a relabelling.  First relabel by rank of first
    // occurrence (old, then new); IdentifyDistinct then hands out exactly those ranks, i.e. it is
    // the identity on the values - an order-preserving injective relabelling by construction.
    {
        let mut rank: std::collections::HashMap<u32, u32> = std::collections::HashMap::new();
        let mut rk = |x: u32| -> u32 {
            let n = rank.len() as u32;
            *rank.entry(x).or_insert(n)
        };
        let ra: Vec<u32> = a.iter().map(|x| rk(*x)).collect();
        let rb: Vec<u32> = b.iter().map(|x| rk(*x)).collect();
        out.evals_add(2);
        let direct = guard(|| capture_diff_slices(alg, &ra, &rb));
        let mapped = guard(|| {
            let h = similar::algorithms::IdentifyDistinct::<u32>::new(&ra[..], 0..ra.len(), &rb[..], 0..rb.len());
            capture_diff(alg, h.old_lookup(), h.old_range(), h.new_lookup(), h.new_range())
        });
        match (&direct, &mapped) {
            (Ok(d), Ok(m)) => {
                out.count("identify_distinct_relabellings");
                if d != m {
                    out.violation(
                        "determinism.relabel_identify_distinct",
                        format!("items relabelled by IdentifyDistinct::<u32> (ids = ranks of first occurrence = the values themselves): {} but the direct diff gives {} | alg={} old={} new={}", fmt_ops(m), fmt_ops(d), alg_name(alg), fmt_seq(&ra), fmt_seq(&rb)),
                    );
                }
            }
            (Err(p), _) | (_, Err(p)) => out.violation("panic", format!("{} | {}", p, ctx())),
        }
    }
    // (g) relabelled to LINE TOKENS of a text diff: zero-padded str lines, and lines of a
    // user-defined text type whose equal tokens differ in bytes (per-occurrence letter case)
    if a.len() + b.len() > 0 && (a.len().max(b.len()) > 100 || idx % 4 == 0) {
        use crate::odd_str::{recase, OddStr};
        let ta: String = a.iter().map(|x| format!("tok{:010}\n", (*x as u64) * 7 + 3)).collect();
        let tb: String = b.iter().map(|x| format!("tok{:010}\n", (*x as u64) * 7 + 3)).collect();
        let oa: String = a.iter().enumerate().map(|(i, x)| recase(&format!("tok{:010}\n", (*x as u64) * 7 + 3), i as u64 * 2 + 1)).collect();
        let ob: String = b.iter().enumerate().map(|(i, x)| recase(&format!("tok{:010}\n", (*x as u64) * 7 + 3), i as u64 * 2 + 2)).collect();
        out.evals_add(2);
        let plain = guard(|| TextDiff::configure().algorithm(alg).diff_lines(&ta, &tb).ops().to_vec());
        let odd = guard(|| TextDiff::configure().algorithm(alg).diff_lines(OddStr::new(&oa), OddStr::new(&ob)).ops().to_vec());
        for (r, what) in [(&plain, "str lines"), (&odd, "lines of a user-defined DiffableStr (case-insensitive Eq, per-occurrence letter case)")] {
            match r {
                Ok(o) => {
                    out.count("text_line_relabellings");
                    if *o != base {
                        out.violation("determinism.relabel_text_lines", format!("relabelled to {}: {} instead of {} | {}", what, fmt_ops(o), fmt_ops(&base), ctx()));
                    }
                }
                Err(p) => out.violation("panic", format!("{} | {}", p, ctx())),
            }
        }
    }
    // aliasing must not matter: old and new as two views of ONE buffer with a common start
    // (prefix vs whole) give the ops of the same items held in separate vectors
    {
        let k = a.len().min(b.len());
        let (short, long) = if a.len() <= b.len() { (&a[..], &b[..]) } else { (&b[..], &a[..]) };
        if short == &long[..k] {
            // already prefix-shaped: compare directly
        }
        let buf: Vec<u32> = long.to_vec();
        let cut = if buf.is_empty() { 0 } else { (idx as usize * 7 + 3) % (buf.len() + 1) };
        let copy_short: Vec<u32> = buf[..cut].to_vec();
        out.evals_add(4);
        let aliased = guard(|| capture_diff_slices(alg, &buf[..cut], &buf[..]));
        let separate = guard(|| capture_diff_slices(alg, &copy_short[..], &buf[..]));
        let aliased_rev = guard(|| capture_diff_slices(alg, &buf[..], &buf[..cut]));
        let separate_rev = guard(|| capture_diff_slices(alg, &buf[..], &copy_short[..]));
        for (x, y, what) in [(&aliased, &separate, "prefix vs whole"), (&aliased_rev, &separate_rev, "whole vs prefix")] {
            match (x, y) {
                (Ok(x), Ok(y)) => {
                    if x != y {
                        out.violation(
                            "determinism.aliased_inputs",
                            format!("{}: two views of one buffer give {} but the same items in separate vectors give {} | buffer={} cut={}", what, fmt_ops(x), fmt_ops(y), fmt_seq(&buf), cut),
                        );
                    }
                }
                (Err(p), _) | (_, Err(p)) => out.violation("panic", format!("{} | {}", p, ctx())),
            }
        }
    }
    // capture_diff on the full range and the raw stream are the same computation
    out.eval();
    match guard(|| capture_diff(alg, a, 0..a.len(), b, 0..b.len())) {
        Ok(o) => {
            if o != base {
                out.violation("determinism.entry_points", format!("capture_diff gives {} but capture_diff_slices {} | {}", fmt_ops(&o), fmt_ops(&base), ctx()));
            }
        }
        Err(p) => out.violation("panic", format!("{} | {}", p, ctx())),
    }
    let raw = |x: &[u32], y: &[u32]| {
        let mut r = Rec::default();
        similar::algorithms::diff_slices(alg, &mut r, x, y).ok();
        r.0
    };
    out.eval();
    if let (Ok(r1), Ok(r2)) = (guard(|| raw(a, b)), guard(|| raw(a, b))) {
        if r1 != r2 {
            out.violation("determinism.raw_stream", format!("two raw runs differ | {}", ctx()));
        }
    }
}

pub fn families() -> Vec<Box<dyn Family>> {
    vec![
        family(
            "seq_rnd",
            "seeded random pairs (G-RND up to 150 items; plus 'few letters + scattered unique items' inputs that make Patience's unique() matter) x 3 algorithms: same ops (a) on 4 repeated calls, (b) on 3 other threads (every 8th case), (d) under order-preserving injective relabelling to zero-padded Strings and to u64, (e) with constant-hash items, and through capture_diff vs capture_diff_slices; result digests are summed for the cross-process comparison; non-trivial = both sides non-empty and different",
            false,
            16,
            |cfg| cfg.n(20_000, 400_000),
            |idx, cfg, out| {
                let mut rng = Rng::for_case(cfg.seed, "c20.seq_rnd", idx);
                let (a, b) = if rng.chance(1, 2) {
                    gen::rand_pair(&mut rng, if cfg.tiny { 8 } else { 150 })
                } else {
                    let letters = 1 + rng.below(4);
                    let la = rng.below(if cfg.tiny { 6 } else { 30 });
                    let lb = rng.below(if cfg.tiny { 6 } else { 30 });
                    let mut a: Vec<u32> = (0..la).map(|_| rng.below(letters) as u32).collect();
                    let mut b: Vec<u32> = (0..lb).map(|_| rng.below(letters) as u32).collect();
                    for u in 0..rng.below(10) {
                        let pa = rng.below(a.len() + 1);
                        a.insert(pa, 1000 + u as u32);
                        if rng.chance(3, 4) {
                            let pb = rng.below(b.len() + 1);
                            b.insert(pb, 1000 + u as u32);
                        }
                    }
                    (a, b)
                };
                out.sample(|| format!("old={} new={}", fmt_seq(&a), fmt_seq(&b)));
                for alg in ALGS {
                    if alg == Algorithm::Lcs && a.len().max(b.len()) > 100 {
                        continue;
                    }
                    if !a.is_empty() && !b.is_empty() && a != b {
                        out.nontrivial(&(alg_name(alg), &a, &b));
                    }
                    seq_case(idx, alg, &a, &b, idx % 8 == 0 && !cfg.tiny, cfg.tiny, out);
                }
            },
        ),
        family(
            "concurrent_diffs",
            "the same diff while OTHER THREADS are diffing at the same moment: 2..4 threads released by a barrier run LCS (tables of 1.2 .. 6 million cells each: mid-sized unrelated inputs sharing landmarks), Myers and Patience diffs of their own inputs simultaneously, several rounds; every result must equal what the same call returns when nothing else is running (no process-wide state, budget or cache may leak into the ops)",
            false,
            1,
            |cfg| if cfg.tiny { 1 } else { cfg.tier.pick(6, 40) },
            |idx, cfg, out| {
                let mut rng = Rng::for_case(cfg.seed, "c20.concurrent", idx);
                let nthreads = 2 + rng.below(3);
                let inputs: Vec<(Algorithm, Vec<u32>, Vec<u32>)> = (0..nthreads)
                    .map(|t| {
                        let alg = if t < 2 || rng.chance(1, 2) { Algorithm::Lcs } else { ALGS[rng.below(2)] };
                        let (n, m) = if cfg.tiny { (6, 7) } else { (rng.range(1100, 2400), rng.range(1100, 2400)) };
                        let k = rng.range(1, 40);
                        let (a, b) = gen::landmark_pair(&mut rng, n, m, k, 1);
                        (alg, a, b)
                    })
                    .collect();
                out.sample(|| format!("{} threads: {:?}", nthreads, inputs.iter().map(|(alg, a, b)| format!("{} {}x{}", alg_name(*alg), a.len(), b.len())).collect::<Vec<_>>()));
                out.nontrivial(&("concurrent", idx, nthreads));
                // reference: each diff on its own
                let alone: Vec<Result<Vec<DiffOp>, String>> = inputs.iter().map(|(alg, a, b)| guard(|| capture_diff_slices(*alg, a, b))).collect();
                for round in 0..3 {
                    let barrier = std::sync::Barrier::new(nthreads);
                    let together: Vec<Result<Vec<DiffOp>, String>> = std::thread::scope(|s| {
                        let hs: Vec<_> = inputs
                            .iter()
                            .map(|(alg, a, b)| {
                                let barrier = &barrier;
                                s.spawn(move || {
                                    barrier.wait();
                                    guard(|| capture_diff_slices(*alg, a, b))
                                })
                            })
                            .collect();
                        hs.into_iter().map(|h| h.join().unwrap_or_else(|_| Err("thread panicked".into()))).collect()
                    });
                    for (t, (x, y)) in alone.iter().zip(together.iter()).enumerate() {
                        out.eval();
                        out.count("diffs_run_while_other_threads_were_diffing");
                        match (x, y) {
                            (Ok(x), Ok(y)) => {
                                if x != y {
                                    out.violation(
                                        "determinism.depends_on_other_threads",
                                        format!("round {}: {} diff of {} x {} items run while {} other threads were diffing gives {} ops {} but run alone {} ops {}", round, alg_name(inputs[t].0), inputs[t].1.len(), inputs[t].2.len(), nthreads - 1, y.len(), fmt_ops(y), x.len(), fmt_ops(x)),
                                    );
                                }
                            }
                            (_, Err(p)) | (Err(p), _) => out.violation("panic", format!("concurrent diff: {}", p)),
                        }
                    }
                }
            },
        ),
        family(
            "seq_big",
            "long sequences of mostly unique items (2100..9000 items; thorough up to 70000) with 20..80 swapped / moved blocks so that the choice of Patience anchors matters: repeated calls, another thread, relabelling to u64 — all three algorithms where affordable (LCS: windowed edits only)",
            false,
            1,
            |cfg| if cfg.tiny { 1 } else { cfg.tier.pick(24, 120) },
            |idx, cfg, out| {
                let mut rng = Rng::for_case(cfg.seed, "c20.seq_big", idx);
                let n = if cfg.tiny { 12 } else { *rng.pick(&[600usize, 1000, 2100, 4200, 6000, cfg.tier.pick(9000, 70_000)]) };
                let a: Vec<u32> = (0..n as u32).map(|i| if rng.chance(1, 10) { i % 7 } else { 100 + i }).collect();
                let mut b = a.clone();
                let swaps = if cfg.tiny { 1 } else { rng.range(20, 80) };
                for _ in 0..swaps {
                    let l = 1 + rng.below(20.min(n / 4));
                    let i = rng.below(n - 2 * l);
                    let j = i + l + rng.below((n - i - 2 * l).min(60) + 1);
                    for k in 0..l {
                        b.swap(i + k, j + k);
                    }
                }
                // unmatched unique items on both sides (a few percent), so that the set of anchors
                // is not simply "everything"
                let mut a = a;
                for _ in 0..n / 25 {
                    let i = rng.below(b.len());
                    b[i] = 5_000_000 + rng.below(1_000_000) as u32;
                    let j = rng.below(a.len());
                    a[j] = 7_000_000 + rng.below(1_000_000) as u32;
                }
                out.sample(|| format!("N={} with {} swapped blocks and {} replaced items per side", n, swaps, n / 25));
                out.count("big_cases");
                for alg in [Algorithm::Patience, Algorithm::Myers] {
                    out.nontrivial(&(alg_name(alg), &a, &b));
                    seq_case(idx, alg, &a, &b, idx % 2 == 0, cfg.tiny, out);
                }
            },
        ),
        family(
            "seq_exh",
            "every ordered pair over {0,1,2} with length <= 4 (thorough <= 5) x 3 algorithms x the same determinism / relabelling checks",
            true,
            64,
            |cfg| {
                let n = gen::all_seqs(if cfg.tiny { 2 } else { 3 }, if cfg.tiny { 2 } else { cfg.tier.pick(4, 5) }).len() as u64;
                n * n
            },
            |idx, cfg, out| {
                let seqs = gen::all_seqs(if cfg.tiny { 2 } else { 3 }, if cfg.tiny { 2 } else { cfg.tier.pick(4, 5) });
                let (a, b) = gen::pair_of(seqs, idx);
                let a: Vec<u32> = a.iter().map(|x| *x as u32).collect();
                let b: Vec<u32> = b.iter().map(|x| *x as u32).collect();
                out.sample(|| format!("old={:?} new={:?}", a, b));
                for alg in ALGS {
                    if !a.is_empty() && !b.is_empty() && a != b {
                        out.nontrivial(&(alg_name(alg), &a, &b));
                    }
                    seq_case(idx, alg, &a, &b, false, cfg.tiny, out);
                }
            },
        ),
        family(
            "text_str_vs_bytes",
            "G-TXT valid UTF-8 text pairs (all whitespace kinds incl. VT/NEL/NBSP/U+2028/U+3000, CR/LF/CRLF mixes, multi-byte, combining marks): TextDiff of the str input and of the same bytes as [u8] must have identical ops for the line, word and char tokenizers x 3 algorithms; also repeated calls",
            false,
            16,
            |cfg| cfg.n(15_000, 300_000),
            |idx, cfg, out| {
                let mut rng = Rng::for_case(cfg.seed, "c20.text", idx);
                let (a, b) = text_gen::text_pair(&mut rng, if cfg.tiny { 3 } else { 12 }, false);
                let sa = String::from_utf8(a.clone()).expect("generator yields valid UTF-8");
                let sb = String::from_utf8(b.clone()).expect("generator yields valid UTF-8");
                out.sample(|| format!("old={:?} new={:?}", sa, sb));
                if sa != sb && !sa.is_empty() && !sb.is_empty() {
                    out.nontrivial(&(&sa, &sb));
                }
                // the byte inputs are views at EVERY ALIGNMENT of their buffers (start address = 8-byte aligned
                // allocation + 0..7): the result may not depend on where the bytes happen to live
                let (ka, kb) = ((idx % 8) as usize, (idx / 8 % 8) as usize);
                let mut bufa = vec![b'#'; ka];
                bufa.extend_from_slice(&a);
                let mut bufb = vec![b'#'; kb];
                bufb.extend_from_slice(&b);
                let (a, b) = (&bufa[ka..], &bufb[kb..]);
                if ka + kb > 0 && a.len() >= 64 {
                    out.count("misaligned_byte_inputs_of_64_bytes_or_more");
                }
                for alg in ALGS {
                    for tok in 0..3 {
                        out.evals_add(2);
                        let r = guard(|| {
                            let mut c = TextDiff::configure();
                            c.algorithm(alg);
                            let (s, by) = match tok {
                                0 => (c.diff_lines(&sa, &sb).ops().to_vec(), c.diff_lines(&a[..], &b[..]).ops().to_vec()),
                                1 => (c.diff_words(&sa, &sb).ops().to_vec(), c.diff_words(&a[..], &b[..]).ops().to_vec()),
                                _ => (c.diff_chars(&sa, &sb).ops().to_vec(), c.diff_chars(&a[..], &b[..]).ops().to_vec()),
                            };
                            let again = match tok {
                                0 => c.diff_lines(&sa, &sb).ops().to_vec(),
                                1 => c.diff_words(&sa, &sb).ops().to_vec(),
                                _ => c.diff_chars(&sa, &sb).ops().to_vec(),
                            };
                            (s, by, again)
                        });
                        let tname = ["lines", "words", "chars"][tok];
                        match r {
                            Err(p) => out.violation("panic", format!("text diff panicked: {} | tokenizer={} old={:?} new={:?}", p, tname, sa, sb)),
                            Ok((s, by, again)) => {
                                note_digest(out, idx, tname, &s);
                                if s != by {
                                    out.violation(
                                        "determinism.str_vs_bytes",
                                        format!("tokenizer={} alg={}: str gives {} but the same bytes give {} | old={:?} new={:?}", tname, alg_name(alg), fmt_ops(&s), fmt_ops(&by), sa, sb),
                                    );
                                }
                                if s != again {
                                    out.violation("determinism.repeated_call", format!("tokenizer={} alg={}: two calls differ | old={:?} new={:?}", tname, alg_name(alg), sa, sb));
                                }
                            }
                        }
                    }
                }
            },
        ),
    ]
}
