//! C10 — Compact and Replace preserve meaning and cost of ANY valid script
//! (also serves C09: normal form of arbitrary scripts through Compact+Replace).

use similar::algorithms::{Capture, Compact, DiffHook, Replace};
use similar::DiffOp;

use crate::engine::{family, guard, Family, Local};
use crate::gen::{self, Step};
use crate::mon::{check_ops, fmt_ops, StrictLookup};
use crate::props::common::fmt_seq;
use crate::rng::Rng;

#[derive(Clone, Copy, PartialEq, Eq)]
pub enum Focus {
    C10,
    C09,
}

pub fn families(focus: Focus) -> Vec<Box<dyn Family>> {
    vec![
        family(
            "scripts_exh",
            "G-SCRIPT exhaustive: EVERY valid edit script (equal runs may be split, delete/insert runs of any length in any interleaving) of EVERY pair of binary sequences with length <= 4 (thorough: also ternary <= 4 in family scripts_exh3 and binary <= 5) driven through Compact<Capture>, Replace<Capture>, Compact<Replace<Capture>> via DiffOp::apply_to_hook + finish; non-trivial = script has a change adjacent to an Equal whose boundary item repeats (a slide is possible)",
            true,
            1,
            |cfg| {
                let n = gen::all_seqs(2, if cfg.tiny { 2 } else { cfg.tier.pick(4, 5) }).len() as u64;
                n * n
            },
            move |idx, cfg, out| {
                let seqs = gen::all_seqs(2, if cfg.tiny { 2 } else { cfg.tier.pick(4, 5) });
                let (a, b) = gen::pair_of(seqs, idx);
                exh_pair(focus, a, b, out);
            },
        ),
        family(
            "scripts_exh3",
            "G-SCRIPT exhaustive over {0,1,2}, length <= 3 (quick) / <= 4 (thorough)",
            true,
            1,
            |cfg| {
                let n = gen::all_seqs(3, if cfg.tiny { 2 } else { cfg.tier.pick(3, 4) }).len() as u64;
                n * n
            },
            move |idx, cfg, out| {
                let seqs = gen::all_seqs(3, if cfg.tiny { 2 } else { cfg.tier.pick(3, 4) });
                let (a, b) = gen::pair_of(seqs, idx);
                exh_pair(focus, a, b, out);
            },
        ),
        family(
            "scripts_rnd",
            "G-SCRIPT random walks in the edit graph of seeded random pairs (length <= 14, alphabets 1..4 and edited copies up to 40 items), embedded at random non-zero offsets inside larger buffers and read through red-zone lookups",
            false,
            64,
            |cfg| cfg.n(300_000, 6_000_000),
            move |idx, cfg, out| {
                let mut rng = Rng::for_case(cfg.seed, "c10.scripts_rnd", idx);
                let (a, b): (Vec<u32>, Vec<u32>) = if rng.chance(3, 4) {
                    let alpha = 1 + rng.below(4);
                    let la = rng.below(15);
                    let lb = rng.below(15);
                    (
                        (0..la).map(|_| rng.below(alpha) as u32).collect(),
                        (0..lb).map(|_| rng.below(alpha) as u32).collect(),
                    )
                } else {
                    gen::rand_pair(&mut rng, 40)
                };
                let script = gen::rand_script(&mut rng, &a, &b);
                let (po, pn) = if rng.chance(1, 2) { (0, 0) } else { (rng.below(5), rng.below(5)) };
                out.sample(|| format!("old={} new={} offsets=({},{}) script={:?}", fmt_seq(&a), fmt_seq(&b), po, pn, script));
                run_script(focus, &a, &b, &script, po, pn, out);
            },
        ),
        family(
            "scripts_tolerance",
            "scripts over pairs whose cross comparison is a NON-TRANSITIVE tolerance (old u32, new Tol: equal iff |a-b| <= 1): every valid script (valid under that comparison) of every pair over {0..3} with length <= 3 (thorough <= 4), plus random walks on pairs up to 14 items over {0..6}",
            true,
            1,
            |cfg| {
                let n = gen::all_seqs(4, if cfg.tiny { 2 } else { cfg.tier.pick(3, 4) }).len() as u64;
                n * n
            },
            move |idx, cfg, out| {
                use crate::mon::Tol;
                let seqs = gen::all_seqs(4, if cfg.tiny { 2 } else { cfg.tier.pick(3, 4) });
                let (a8, b8) = gen::pair_of(seqs, idx);
                let a: Vec<u32> = a8.iter().map(|x| *x as u32).collect();
                let b: Vec<Tol> = b8.iter().map(|x| Tol(*x as u32)).collect();
                let mut n = 0u64;
                gen::for_each_script_by(a.len(), b.len(), &|i, j| b[j] == a[i], &mut |script| {
                    n += 1;
                    run_script_typed::<Tol>(focus, &a, &b, Tol(8888), &[Tol(6666), Tol(6666)], script, 0, 0, out);
                });
                out.count_n("tolerance_scripts_enumerated", n);
                out.sample(|| format!("old={:?} new(Tol)={:?}: all {} scripts valid under |a-b|<=1", a, b8, n));
                // random longer ones
                if idx % 4 == 0 {
                    let mut rng = Rng::for_case(cfg.seed, "c10.scripts_tolerance", idx);
                    for _ in 0..8 {
                        let la = rng.below(if cfg.tiny { 4 } else { 15 });
                        let lb = rng.below(if cfg.tiny { 4 } else { 15 });
                        let a: Vec<u32> = (0..la).map(|_| rng.below(7) as u32).collect();
                        let b: Vec<Tol> = (0..lb).map(|_| Tol(rng.below(7) as u32)).collect();
                        let script = gen::rand_script_by(&mut rng, la, lb, &|i, j| b[j] == a[i]);
                        let (po, pn) = (rng.below(3), rng.below(3));
                        run_script_typed::<Tol>(focus, &a, &b, Tol(8888), &[Tol(6666), Tol(6666)], &script, po, pn, out);
                    }
                }
            },
        ),
        family(
            "scripts_long",
            "long scripts: (a) an insertion / deletion next to a run of 1100..9000 identical items split into equal calls of random lengths (the clean-up must slide the edit across the whole run), (b) scripts with MORE than 65536 calls (delete(1) equal(1) repeated, then insert(1) equal(2)), (c) random-walk scripts of near-identical pairs of 300..3000 items",
            false,
            1,
            |cfg| if cfg.tiny { 2 } else { cfg.tier.pick(24, 160) },
            move |idx, cfg, out| {
                let mut rng = Rng::for_case(cfg.seed, "c10.scripts_long", idx);
                let kind = if cfg.tiny { idx % 2 } else { idx % 6 };
                let (a, b, script): (Vec<u32>, Vec<u32>, Vec<Step>) = if kind == 1 && !cfg.tiny {
                    // > 65536 calls
                    let n = 33_000 + rng.below(3000);
                    let mut a = Vec::with_capacity(2 * n + 2);
                    let mut b = Vec::with_capacity(n + 3);
                    let mut script = Vec::with_capacity(2 * n + 2);
                    for i in 0..n {
                        script.push(Step::Del(a.len(), 1, b.len()));
                        a.push(1_000_000 + i as u32);
                        script.push(Step::Eq(a.len(), b.len(), 1));
                        a.push(5);
                        b.push(5);
                    }
                    // an insertion that can slide down over two equal items
                    script.push(Step::Ins(a.len(), b.len(), 1));
                    b.push(7);
                    script.push(Step::Eq(a.len(), b.len(), 2));
                    a.extend_from_slice(&[7, 7]);
                    b.extend_from_slice(&[7, 7]);
                    (a, b, script)
                } else if kind % 2 == 0 {
                    // long run of identical items
                    let run = if cfg.tiny { 5 } else { *rng.pick(&[1100usize, 2100, 4200, 9000]) };
                    let x = 7u32;
                    let mut a = vec![3u32];
                    a.extend(std::iter::repeat(x).take(run));
                    a.push(4);
                    let mut b = a.clone();
                    let at = 1 + rng.below(run + 1);
                    let ins_len = 1 + rng.below(3);
                    for _ in 0..ins_len {
                        b.insert(at, x);
                    }
                    // script: equal up to `at` in random pieces, insert, equal rest in random pieces
                    let mut script = Vec::new();
                    let (mut i, mut j) = (0usize, 0usize);
                    while i < at {
                        let l = (1 + rng.below(700)).min(at - i);
                        script.push(Step::Eq(i, j, l));
                        i += l;
                        j += l;
                    }
                    script.push(Step::Ins(i, j, ins_len));
                    j += ins_len;
                    while i < a.len() {
                        let l = (1 + rng.below(700)).min(a.len() - i);
                        script.push(Step::Eq(i, j, l));
                        i += l;
                        j += l;
                    }
                    if rng.chance(1, 2) {
                        // the mirrored deletion
                        let flipped: Vec<Step> = script
                            .iter()
                            .map(|s| match *s {
                                Step::Eq(o, n, l) => Step::Eq(n, o, l),
                                Step::Ins(o, n, l) => Step::Del(n, l, o),
                                Step::Del(o, l, n) => Step::Ins(n, o, l),
                            })
                            .collect();
                        (b, a, flipped)
                    } else {
                        (a, b, script)
                    }
                } else {
                    let (a, b) = gen::big_pair(&mut rng, if cfg.tiny { 5 } else { 300 }, if cfg.tiny { 9 } else { 3000 });
                    let script = gen::rand_script(&mut rng, &a, &b);
                    (a, b, script)
                };
                out.sample(|| format!("N={} M={} script of {} calls", a.len(), b.len(), script.len()));
                out.count("long_scripts");
                if script.len() > 65_536 {
                    out.count("scripts_with_more_than_65536_calls");
                }
                run_script(focus, &a, &b, &script, 0, 0, out);
            },
        ),
    ]
}

fn exh_pair(focus: Focus, a: &[u8], b: &[u8], out: &mut Local) {
    let a: Vec<u32> = a.iter().map(|x| *x as u32).collect();
    let b: Vec<u32> = b.iter().map(|x| *x as u32).collect();
    let a8: Vec<u8> = a.iter().map(|x| *x as u8).collect();
    let b8: Vec<u8> = b.iter().map(|x| *x as u8).collect();
    let mut n = 0u64;
    gen::for_each_script(&a8, &b8, &mut |script| {
        n += 1;
        run_script(focus, &a, &b, script, 0, 0, out);
    });
    out.count_n("scripts_enumerated", n);
    out.sample(|| format!("old={:?} new={:?}: all {} valid scripts", a, b, n));
}

fn slide_possible(aeq: &dyn Fn(usize, usize) -> bool, beq: &dyn Fn(usize, usize) -> bool, script: &[Step]) -> bool {
    // a change next to an Equal whose boundary item equals the boundary item of the change
    for w in script.windows(2) {
        match (w[0], w[1]) {
            (Step::Eq(o, _, l), Step::Del(d, dl, _)) => {
                if aeq(o + l - 1, d + dl - 1) {
                    return true;
                }
            }
            (Step::Eq(_, n, l), Step::Ins(_, i, il)) => {
                if beq(n + l - 1, i + il - 1) {
                    return true;
                }
            }
            (Step::Del(d, _, _), Step::Eq(o, _, _)) => {
                if aeq(d, o) {
                    return true;
                }
            }
            (Step::Ins(_, i, _), Step::Eq(_, n, _)) => {
                if beq(i, n) {
                    return true;
                }
            }
            _ => {}
        }
    }
    false
}

/// a user hook that implements only equal / delete / insert: `replace` and `finish` are the
/// trait's provided methods
#[derive(Default)]
struct PlainHook(Vec<DiffOp>);

impl DiffHook for PlainHook {
    type Error = ();
    fn equal(&mut self, old_index: usize, new_index: usize, len: usize) -> Result<(), ()> {
        self.0.push(DiffOp::Equal { old_index, new_index, len });
        Ok(())
    }
    fn delete(&mut self, old_index: usize, old_len: usize, new_index: usize) -> Result<(), ()> {
        self.0.push(DiffOp::Delete { old_index, old_len, new_index });
        Ok(())
    }
    fn insert(&mut self, old_index: usize, new_index: usize, new_len: usize) -> Result<(), ()> {
        self.0.push(DiffOp::Insert { old_index, new_index, new_len });
        Ok(())
    }
}

fn run_script(focus: Focus, a: &[u32], b: &[u32], script: &[Step], po: usize, pn: usize, out: &mut Local) {
    run_script_typed::<u32>(focus, a, b, 8888, &[6666, 6666], script, po, pn, out)
}

/// `NT` is the new-side item type; only `NT: PartialEq<u32>` relates the two sides.
#[allow(clippy::too_many_arguments)]
fn run_script_typed<NT>(focus: Focus, a: &[u32], b: &[NT], fill: NT, tail: &[NT], script: &[Step], po: usize, pn: usize, out: &mut Local)
where
    NT: PartialEq<u32> + Copy + std::fmt::Debug + PartialEq + std::hash::Hash,
{
    // embed at offsets (po, pn) inside larger buffers; reads outside the pair hit the red zone
    let mut bufa = vec![9999u32; po];
    bufa.extend_from_slice(a);
    bufa.extend_from_slice(&[7777, 7777]);
    let mut bufb: Vec<NT> = vec![fill; pn];
    bufb.extend_from_slice(b);
    bufb.extend_from_slice(tail);
    let or = po..po + a.len();
    let nr = pn..pn + b.len();
    let old = StrictLookup { data: &bufa, allowed: or.clone(), base: 0 };
    let new = StrictLookup { data: &bufb, allowed: nr.clone(), base: 0 };
    let ops_in: Vec<DiffOp> = script
        .iter()
        .map(|s| match *s {
            Step::Eq(o, n, l) => Step::Eq(o + po, n + pn, l),
            Step::Del(o, l, n) => Step::Del(o + po, l, n + pn),
            Step::Ins(o, n, l) => Step::Ins(o + po, n + pn, l),
        })
        .map(|s| s.to_op())
        .collect();
    let eq = |o: usize, n: usize| bufb[n] == bufa[o];
    let (mut d0, mut i0) = (0usize, 0usize);
    for s in script {
        match *s {
            Step::Del(_, l, _) => d0 += l,
            Step::Ins(_, _, l) => i0 += l,
            _ => {}
        }
    }
    if slide_possible(&|i: usize, j: usize| a[i] == a[j], &|i: usize, j: usize| b[i] == b[j], script) {
        out.nontrivial(&(a, b, script, po, pn));
    }
    let ctx = || format!("old={} new({})={} offsets=({},{}) script={}", fmt_seq(a), std::any::type_name::<NT>().rsplit("::").next().unwrap_or(""), fmt_seq(b), po, pn, fmt_ops(&ops_in));

    // the same script in an index space that straddles 2^63 (old side) and ends just below usize::MAX
    // (new side): Compact / Compact+Replace must give the ops of the low-index run, shifted
    if focus == Focus::C10 {
        let bo = (isize::MAX as usize) - po - a.len() / 2;
        let bn = usize::MAX - pn - b.len() - 3;
        let hold = StrictLookup { data: &bufa, allowed: bo + or.start..bo + or.end, base: bo };
        let hnew = StrictLookup { data: &bufb, allowed: bn + nr.start..bn + nr.end, base: bn };
        let hi_ops: Vec<DiffOp> = ops_in.iter().map(|op| crate::props::captured::shift_op(*op, 0usize.wrapping_sub(bo), 0usize.wrapping_sub(bn))).collect();
        for with_replace in [false, true] {
            out.eval();
            let low = guard(|| {
                if with_replace {
                    let mut c = Compact::new(Replace::new(Capture::new()), &old, &new);
                    for op in &ops_in {
                        op.apply_to_hook(&mut c).unwrap();
                    }
                    c.finish().unwrap();
                    c.into_inner().into_inner().into_ops()
                } else {
                    let mut c = Compact::new(Capture::new(), &old, &new);
                    for op in &ops_in {
                        op.apply_to_hook(&mut c).unwrap();
                    }
                    c.finish().unwrap();
                    c.into_inner().into_ops()
                }
            });
            let high = guard(|| {
                if with_replace {
                    let mut c = Compact::new(Replace::new(Capture::new()), &hold, &hnew);
                    for op in &hi_ops {
                        op.apply_to_hook(&mut c).unwrap();
                    }
                    c.finish().unwrap();
                    c.into_inner().into_inner().into_ops()
                } else {
                    let mut c = Compact::new(Capture::new(), &hold, &hnew);
                    for op in &hi_ops {
                        op.apply_to_hook(&mut c).unwrap();
                    }
                    c.finish().unwrap();
                    c.into_inner().into_ops()
                }
            });
            let name = if with_replace { "Compact<Replace<Capture>>" } else { "Compact<Capture>" };
            match (low, high) {
                (Ok(l), Ok(h)) => {
                    out.count("high_index_space_runs");
                    let back: Vec<DiffOp> = h.iter().map(|op| crate::props::captured::shift_op(*op, bo, bn)).collect();
                    if back != l {
                        out.violation("adapter.depends_on_index_space", format!("{}: with old indices around 2^63 and new indices ending below usize::MAX the output is {} (shifted back) but {} at low indices | {}", name, fmt_ops(&back), fmt_ops(&l), ctx()));
                    }
                }
                (Ok(_), Err(p)) => out.violation("panic", format!("{} panicked in an index space straddling 2^63 / ending below usize::MAX (old base {}, new base {}): {} | {}", name, bo, bn, p, ctx())),
                _ => {}
            }
        }
    }

    // 3/4: the same adapters around a BORROWED capture hook; 5: one Replace object used for two
    // scripts in a row (everything must have been flushed by the time finish returned)
    // 6: a doubled Replace (the inner one RECEIVES replace calls), 7: Replace in front of a user hook that
    // only implements equal/delete/insert (the trait's provided `replace` runs), 8: Replace in front of Compact
    // 9 / 10: the compaction stage (with / without Replace behind it) is fed `replace` CALLS for some of the
    // adjacent delete/insert pairs of the script (a caller-written differ may report a changed item that way;
    // for Compact the provided `replace` - delete, then insert - applies), also right next to other changes
    let ops_fused: Vec<DiffOp> = {
        let mut v: Vec<DiffOp> = Vec::with_capacity(ops_in.len());
        let mut i = 0;
        while i < ops_in.len() {
            let fuse = (i * 7 + ops_in.len() + po + a.len()) % 3 != 0;
            match (ops_in[i], ops_in.get(i + 1).copied()) {
                (DiffOp::Delete { old_index, old_len, new_index }, Some(DiffOp::Insert { new_len, .. })) if fuse => {
                    v.push(DiffOp::Replace { old_index, old_len, new_index, new_len });
                    i += 2;
                }
                (DiffOp::Insert { old_index, new_index, new_len }, Some(DiffOp::Delete { old_len, .. })) if fuse => {
                    v.push(DiffOp::Replace { old_index, old_len, new_index, new_len });
                    i += 2;
                }
                (op, _) => {
                    v.push(op);
                    i += 1;
                }
            }
        }
        v
    };
    let has_fused = ops_fused.len() != ops_in.len();
    let stacks: &[u8] = if focus == Focus::C09 { &[2, 4, 9] } else { &[0, 1, 2, 3, 4, 5, 6, 7, 8, 9, 10] };
    for &stack in stacks {
        if stack >= 9 && !has_fused {
            continue;
        }
        out.eval();
        if stack >= 9 {
            out.count("scripts_with_replace_calls_into_compact");
        }
        let r = guard(|| -> (Vec<DiffOp>, usize) {
            match stack {
                9 => {
                    let mut c = Compact::new(Replace::new(Capture::new()), &old, &new);
                    for op in &ops_fused {
                        op.apply_to_hook(&mut c).unwrap();
                    }
                    c.finish().unwrap();
                    (c.into_inner().into_inner().into_ops(), 0)
                }
                10 => {
                    let mut c = Compact::new(Capture::new(), &old, &new);
                    for op in &ops_fused {
                        op.apply_to_hook(&mut c).unwrap();
                    }
                    c.finish().unwrap();
                    (c.into_inner().into_ops(), 0)
                }
                0 => {
                    let mut c = Compact::new(Capture::new(), &old, &new);
                    for op in &ops_in {
                        op.apply_to_hook(&mut c).unwrap();
                    }
                    let before = c.as_ref().ops().len();
                    c.finish().unwrap();
                    (c.into_inner().into_ops(), before)
                }
                1 => {
                    let mut c = Replace::new(Capture::new());
                    for op in &ops_in {
                        op.apply_to_hook(&mut c).unwrap();
                    }
                    let before = c.as_ref().ops().len();
                    c.finish().unwrap();
                    (c.into_inner().into_ops(), before)
                }
                2 => {
                    let mut c = Compact::new(Replace::new(Capture::new()), &old, &new);
                    for op in &ops_in {
                        op.apply_to_hook(&mut c).unwrap();
                    }
                    let before = c.as_ref().as_ref().ops().len();
                    c.finish().unwrap();
                    (c.into_inner().into_inner().into_ops(), before)
                }
                3 => {
                    let mut cap = Capture::new();
                    {
                        let mut c = Replace::new(&mut cap);
                        for op in &ops_in {
                            op.apply_to_hook(&mut c).unwrap();
                        }
                        c.finish().unwrap();
                    }
                    (cap.into_ops(), 0)
                }
                4 => {
                    let mut cap = Capture::new();
                    {
                        let mut c = Compact::new(Replace::new(&mut cap), &old, &new);
                        for op in &ops_in {
                            op.apply_to_hook(&mut c).unwrap();
                        }
                        c.finish().unwrap();
                    }
                    (cap.into_ops(), 0)
                }
                6 => {
                    let mut c = Replace::new(Replace::new(Capture::new()));
                    for op in &ops_in {
                        op.apply_to_hook(&mut c).unwrap();
                    }
                    c.finish().unwrap();
                    (c.into_inner().into_inner().into_ops(), 0)
                }
                7 => {
                    let mut c = Replace::new(PlainHook::default());
                    for op in &ops_in {
                        op.apply_to_hook(&mut c).unwrap();
                    }
                    c.finish().unwrap();
                    (c.into_inner().0, 0)
                }
                8 => {
                    let mut c = Replace::new(Compact::new(Capture::new(), &old, &new));
                    for op in &ops_in {
                        op.apply_to_hook(&mut c).unwrap();
                    }
                    c.finish().unwrap();
                    (c.into_inner().into_inner().into_ops(), 0)
                }
                _ => {
                    // the script twice through ONE Replace object: the second half of what the inner
                    // capture holds must be what a fresh adapter produces
                    let mut c = Replace::new(Capture::new());
                    for op in &ops_in {
                        op.apply_to_hook(&mut c).unwrap();
                    }
                    c.finish().unwrap();
                    let first = c.as_ref().ops().len();
                    for op in &ops_in {
                        op.apply_to_hook(&mut c).unwrap();
                    }
                    c.finish().unwrap();
                    let all = c.into_inner().into_ops();
                    (all[first..].to_vec(), first)
                }
            }
        });
        let name = [
            "Compact<Capture>",
            "Replace<Capture>",
            "Compact<Replace<Capture>>",
            "Replace<&mut Capture>",
            "Compact<Replace<&mut Capture>>",
            "Replace<Capture> re-used after finish",
            "Replace<Replace<Capture>>",
            "Replace<user hook without its own replace>",
            "Replace<Compact<Capture>>",
            "Compact<Replace<Capture>> fed replace calls for some adjacent delete/insert pairs",
            "Compact<Capture> fed replace calls for some adjacent delete/insert pairs",
        ][stack as usize];
        match r {
            Err(p) => {
                if focus == Focus::C10 {
                    out.violation("panic", format!("{} panicked: {} | {}", name, p, ctx()));
                }
            }
            Ok((ops, buffered_before_finish)) => {
                out.count_n("ops_out", ops.len() as u64);
                out.count_n("ops_already_forwarded_before_finish", buffered_before_finish as u64);
                if ops != ops_in {
                    out.count("scripts_rewritten");
                }
                let v = check_ops(&ops, &eq, or.clone(), nr.clone());
                match focus {
                    Focus::C10 => {
                        for (code, msg) in &v.script {
                            out.violation(code, format!("{}: {} | {} | out={}", name, msg, ctx(), fmt_ops(&ops)));
                        }
                        if v.script.is_empty() && (v.deleted, v.inserted) != (d0, i0) {
                            out.violation(
                                "adapter.cost_changed",
                                format!("{}: script deletes {} / inserts {} items, output deletes {} / inserts {} | {} | out={}", name, d0, i0, v.deleted, v.inserted, ctx(), fmt_ops(&ops)),
                            );
                        }
                        if stack == 1 || stack == 3 || stack == 5 || stack == 6 {
                            for (code, msg) in &v.carried {
                                out.violation(code, format!("{}: {} | {} | out={}", name, msg, ctx(), fmt_ops(&ops)));
                            }
                        }
                        if stack == 2 || stack == 4 || stack == 9 {
                            for (code, msg) in &v.normal {
                                out.violation(code, format!("{}: {} | {} | out={}", name, msg, ctx(), fmt_ops(&ops)));
                            }
                        }
                    }
                    Focus::C09 => {
                        for (code, msg) in &v.normal {
                            out.violation(code, format!("{}: {} | {} | out={}", name, msg, ctx(), fmt_ops(&ops)));
                        }
                    }
                }
            }
        }
    }
}
