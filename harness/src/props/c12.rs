//! C12 — grouping keeps every change once, in order, with exactly n items of
//! context.  Reference model R-GROUP is an independent formulation (clusters
//! of changes separated by equal runs longer than 2n).

use similar::algorithms::{Capture, DiffHook};
use similar::{group_diff_ops, DiffOp, DiffTag, TextDiff};

use crate::engine::{family, guard, Family, Local};
use crate::gen;
use crate::mon::fmt_ops;
use crate::props::common::*;
use crate::rng::Rng;

pub const NS: [usize; 14] = [0, 1, 2, 3, 4, 5, 6, 7, 13, 100, usize::MAX / 2, usize::MAX / 2 + 1, usize::MAX - 1, usize::MAX];

fn eq_op(o: usize, n: usize, len: usize) -> DiffOp {
    DiffOp::Equal {
        old_index: o,
        new_index: n,
        len,
    }
}

/// R-GROUP: independent reference grouping (no zero-length Equal ops).
pub fn reference_groups(ops: &[DiffOp], n: usize) -> Vec<Vec<DiffOp>> {
    let mut groups: Vec<Vec<DiffOp>> = Vec::new();
    let mut i = 0;
    let two_n = n.checked_mul(2);
    while i < ops.len() {
        // find the next change
        if ops[i].tag() == DiffTag::Equal {
            i += 1;
            continue;
        }
        // a cluster starts at change i; extend while the separating equal run is <= 2n
        let start = i;
        let mut end = i; // index of the last change in the cluster
        let mut j = i + 1;
        while j < ops.len() {
            if ops[j].tag() == DiffTag::Equal {
                let len = ops[j].old_range().len();
                let joins = match two_n {
                    Some(t) => len <= t,
                    None => true,
                };
                // an equal run only joins two changes if there IS a change after it
                if joins && j + 1 < ops.len() && ops[j + 1].tag() != DiffTag::Equal {
                    j += 1;
                    continue;
                }
                break;
            } else {
                end = j;
                j += 1;
            }
        }
        let mut g = Vec::new();
        if start > 0 {
            if let DiffOp::Equal { old_index, new_index, len } = ops[start - 1] {
                let k = n.min(len);
                if k > 0 {
                    g.push(eq_op(old_index + (len - k), new_index + (len - k), k));
                }
            }
        }
        g.extend_from_slice(&ops[start..=end]);
        if end + 1 < ops.len() {
            if let DiffOp::Equal { old_index, new_index, len } = ops[end + 1] {
                let k = n.min(len);
                if k > 0 {
                    g.push(eq_op(old_index, new_index, k));
                }
            }
        }
        groups.push(g);
        i = end + 1;
    }
    groups
}

fn strip_empty_equal(groups: &[Vec<DiffOp>]) -> Vec<Vec<DiffOp>> {
    groups
        .iter()
        .map(|g| g.iter().copied().filter(|op| !(op.tag() == DiffTag::Equal && op.old_range().is_empty())).collect())
        .collect()
}

fn fmt_groups(g: &[Vec<DiffOp>]) -> String {
    let mut s = String::from("[");
    for (i, x) in g.iter().enumerate() {
        if i > 0 {
            s.push_str(", ");
        }
        s.push_str(&fmt_ops(x));
    }
    s.push(']');
    s
}

/// Direct assertions of the property on the returned groups (second formulation).
fn direct_checks(ops: &[DiffOp], n: usize, groups: &[Vec<DiffOp>]) -> Vec<(&'static str, String)> {
    let mut fails = Vec::new();
    let changes_in: Vec<DiffOp> = ops.iter().copied().filter(|o| o.tag() != DiffTag::Equal).collect();
    let mut changes_out = Vec::new();
    for (gi, g) in groups.iter().enumerate() {
        if g.is_empty() {
            fails.push(("group.empty", format!("group #{} is empty", gi)));
            continue;
        }
        if g.iter().all(|o| o.tag() == DiffTag::Equal) {
            fails.push(("group.equal_only", format!("group #{} consists of Equal ops only", gi)));
        }
        // contiguity on both sides (input ops carry exact positions)
        for w in g.windows(2) {
            let (a, b) = (w[0], w[1]);
            if a.old_range().end != b.old_range().start || a.new_range().end != b.new_range().start {
                fails.push(("group.not_contiguous", format!("group #{}: {:?} is not followed contiguously by {:?}", gi, a, b)));
            }
        }
        for (k, op) in g.iter().enumerate() {
            if op.tag() != DiffTag::Equal {
                changes_out.push(*op);
            } else {
                let len = op.old_range().len();
                let edge = k == 0 || k + 1 == g.len();
                if edge && len > n {
                    fails.push(("group.context_too_long", format!("group #{}: edge context {:?} is longer than n={}", gi, op, n)));
                }
                if !edge {
                    if let Some(t) = n.checked_mul(2) {
                        if len > t {
                            fails.push(("group.interior_too_long", format!("group #{}: interior equal run {:?} is longer than 2n={}", gi, op, t)));
                        }
                    }
                }
                // context must be a sub-run of an input Equal op
                let inside = ops.iter().any(|x| {
                    x.tag() == DiffTag::Equal
                        && x.old_range().start <= op.old_range().start
                        && op.old_range().end <= x.old_range().end
                        && x.new_range().start <= op.new_range().start
                        && op.new_range().end <= x.new_range().end
                        && (op.old_range().start - x.old_range().start) == (op.new_range().start - x.new_range().start)
                });
                if !inside && len > 0 {
                    fails.push(("group.context_not_from_equal_run", format!("group #{}: context {:?} is not part of an input Equal run", gi, op)));
                }
            }
        }
    }
    if changes_in != changes_out {
        fails.push((
            "group.changes_not_preserved",
            format!("non-Equal ops of the input {} are not exactly the non-Equal ops of the groups {}", fmt_ops(&changes_in), fmt_ops(&changes_out)),
        ));
    }
    if changes_in.is_empty() && !groups.is_empty() {
        fails.push(("group.no_changes_but_groups", "the input has no changes but groups were returned".to_string()));
    }
    fails
}

fn check_grouping(what: &str, ops: &[DiffOp], n: usize, got: Result<Vec<Vec<DiffOp>>, String>, out: &mut Local) {
    let ctx = || format!("{} n={} ops={}", what, n, fmt_ops(ops));
    match got {
        Err(p) => out.violation("panic", format!("{} | {}", p, ctx())),
        Ok(groups) => {
            out.count_n("groups_observed", groups.len() as u64);
            let expect = reference_groups(ops, n);
            let got_s = strip_empty_equal(&groups);
            if got_s != expect {
                out.violation(
                    "group.differs_from_reference",
                    format!("{} | got {} | reference {}", ctx(), fmt_groups(&groups), fmt_groups(&expect)),
                );
            }
            for (code, msg) in direct_checks(ops, n, &got_s) {
                out.violation(code, format!("{} | {} | got {}", msg, ctx(), fmt_groups(&groups)));
            }
            if groups.len() > 1 {
                out.count("runs_with_several_groups");
            }
        }
    }
}

thread_local! {
    static HUNK_ITER_FAILS: std::cell::RefCell<Vec<String>> = std::cell::RefCell::new(Vec::new());
}

pub fn families() -> Vec<Box<dyn Family>> {
    vec![
        family(
            "oplists",
            "G-OPS: seeded random valid alternating op lists (0..=9 ops, equal runs from {1,2,3,4,5,6,7,9,13}, change runs 1..=3, optional leading/trailing Equal, independent non-zero start offsets on both sides) x EVERY n in {0,1,2,3,4,5,6,7,13,100,MAX/2,MAX/2+1,MAX-1,MAX} x {group_diff_ops, Capture::into_grouped_ops}; non-trivial = list has >= 2 changes and an equal run > 1",
            false,
            64,
            |cfg| cfg.n(60_000, 1_500_000),
            |idx, cfg, out| {
                let mut rng = Rng::for_case(cfg.seed, "c12.oplists", idx);
                let ops = gen::rand_oplist(&mut rng);
                out.sample(|| format!("ops={} x 14 radii", fmt_ops(&ops)));
                let changes = ops.iter().filter(|o| o.tag() != DiffTag::Equal).count();
                if changes >= 2 {
                    out.nontrivial(&ops);
                }
                for n in NS {
                    out.eval();
                    let o2 = ops.clone();
                    check_grouping("group_diff_ops", &ops, n, guard(move || group_diff_ops(o2, n)), out);
                    if idx % 4 == 0 {
                        out.eval();
                        let o3 = ops.clone();
                        let r = guard(move || {
                            let mut c = Capture::new();
                            for op in &o3 {
                                op.apply_to_hook(&mut c).unwrap();
                            }
                            c.finish().unwrap();
                            c.into_grouped_ops(n)
                        });
                        check_grouping("Capture::into_grouped_ops", &ops, n, r, out);
                    }
                }
            },
        ),
        family(
            "oplists_adjacent_changes",
            "valid op lists that are NOT alternating: a change may be followed directly by another change (what a bare Capture records for a substitution: Insert next to Delete; any order and kind) x every n of the radius list x {group_diff_ops, Capture::into_grouped_ops}: changes separated by ZERO equal items belong to one group; and the raw calls of a real diff (algorithms::diff into a bare Capture) grouped with into_grouped_ops",
            false,
            64,
            |cfg| cfg.n(30_000, 600_000),
            |idx, cfg, out| {
                let mut rng = Rng::for_case(cfg.seed, "c12.oplists_adjacent", idx);
                let ops = if idx % 4 == 3 {
                    let (a, b) = gen::rand_pair(&mut rng, if cfg.tiny { 6 } else { 30 });
                    let alg = ALGS[rng.below(3)];
                    let mut c = Capture::new();
                    match guard(|| {
                        similar::algorithms::diff(alg, &mut c, &a[..], 0..a.len(), &b[..], 0..b.len()).unwrap();
                        c.into_ops()
                    }) {
                        Ok(ops) => {
                            // adjacent Equal calls are merged into one run (the property speaks about equal RUNS;
                            // grouping works per op), adjacent changes stay as the algorithm reported them
                            let mut merged: Vec<DiffOp> = Vec::new();
                            for op in ops {
                                if let (Some(DiffOp::Equal { len: l0, .. }), DiffOp::Equal { len, .. }) = (merged.last_mut(), op) {
                                    *l0 += len;
                                } else {
                                    merged.push(op);
                                }
                            }
                            merged
                        }
                        Err(_) => return, // owned by C01
                    }
                } else {
                    gen::rand_oplist_with(&mut rng, true)
                };
                out.sample(|| format!("ops={} x 14 radii", fmt_ops(&ops)));
                if ops.windows(2).any(|w| w[0].tag() != DiffTag::Equal && w[1].tag() != DiffTag::Equal) {
                    out.nontrivial(&ops);
                    out.count("lists_with_adjacent_changes");
                }
                for n in NS {
                    out.eval();
                    let o2 = ops.clone();
                    check_grouping("group_diff_ops", &ops, n, guard(move || group_diff_ops(o2, n)), out);
                    if idx % 2 == 0 {
                        out.eval();
                        let o3 = ops.clone();
                        let r = guard(move || {
                            let mut c = Capture::new();
                            for op in &o3 {
                                op.apply_to_hook(&mut c).unwrap();
                            }
                            c.finish().unwrap();
                            c.into_grouped_ops(n)
                        });
                        check_grouping("Capture::into_grouped_ops", &ops, n, r, out);
                    }
                }
            },
        ),
        family(
            "textdiff_small_exh",
            "EVERY radius against every small text: all ordered pairs of token sequences over {0,1,2} with length <= 4 x 3 algorithms x n in 0..=6: TextDiff::grouped_ops(n) and UnifiedDiff::context_radius(n).iter_hunks() must equal the reference grouping of the diff's ops (radii exactly at / next to the lengths of the texts and of their common parts)",
            true,
            16,
            |cfg| {
                let n = gen::all_seqs(3, if cfg.tiny { 2 } else { 4 }).len() as u64;
                n * n
            },
            |idx, cfg, out| {
                let seqs = gen::all_seqs(3, if cfg.tiny { 2 } else { 4 });
                let (a, b) = gen::pair_of(seqs, idx);
                // two token maps: distinct lines, and CALLER-SUPPLIED tokens whose concatenations can coincide
                // with different boundaries ("a" + "b" against "ab"): the bytes of a hunk say nothing about its ops
                let map = |x: &u8| -> String {
                    if idx % 2 == 0 {
                        format!("l{}\n", x)
                    } else {
                        ["a", "b", "ab"][*x as usize % 3].to_string()
                    }
                };
                let sa: Vec<String> = a.iter().map(map).collect();
                let sb: Vec<String> = b.iter().map(map).collect();
                let ra: Vec<&str> = sa.iter().map(|s| s.as_str()).collect();
                let rb: Vec<&str> = sb.iter().map(|s| s.as_str()).collect();
                out.sample(|| format!("old={:?} new={:?} x algorithms x radii 0..=6", a, b));
                for alg in ALGS {
                    for n in 0..=6usize {
                        out.eval();
                        let r = guard(|| {
                            let d = TextDiff::configure().algorithm(alg).diff_slices(&ra, &rb);
                            let hunks: Vec<Vec<DiffOp>> = d.unified_diff().context_radius(n).iter_hunks().map(|h| h.ops().to_vec()).collect();
                            (d.ops().to_vec(), d.grouped_ops(n), hunks)
                        });
                        match r {
                            Err(p) => out.violation("panic", format!("TextDiff::grouped_ops panicked: {} | old={:?} new={:?}", p, a, b)),
                            Ok((ops, groups, hunks)) => {
                                let expect = reference_groups(&ops, n);
                                if strip_empty_equal(&groups) != expect {
                                    out.violation("group.differs_from_reference", format!("TextDiff::grouped_ops({}) alg={} old={:?} new={:?} ops={} | got {} | reference {}", n, alg_name(alg), a, b, fmt_ops(&ops), fmt_groups(&groups), fmt_groups(&expect)));
                                }
                                if strip_empty_equal(&hunks) != expect {
                                    out.violation("group.hunks_differ_from_reference", format!("context_radius({}).iter_hunks() alg={} old={:?} new={:?} ops={} | hunks {} | reference {}", n, alg_name(alg), a, b, fmt_ops(&ops), fmt_groups(&hunks), fmt_groups(&expect)));
                                }
                                if groups.len() > 1 {
                                    out.nontrivial(&(a, b, n));
                                }
                            }
                        }
                    }
                }
            },
        ),
        family(
            "huge_runs",
            "hand-built valid op lists whose EQUAL RUNS are astronomically long (usize::MAX/2 - 1, MAX/2, MAX/2 + 1, MAX/2 + 7, 3 * 2^62, 2^32 + 1 next to runs of 1, 2, 5; the lengths of one list sum to less than usize::MAX) with 1..3 changes at every position relative to the long run x EVERY n of the radius list (0..13, 100, MAX/2, MAX/2+1, MAX-1, MAX): radius and run length are both beyond MAX/2 in many combinations",
            true,
            4,
            |cfg| if cfg.tiny { 8 } else { 6 * 4 * 3 * 4 },
            |idx, _cfg, out| {
                let half = usize::MAX / 2;
                let bigs = [half - 1, half, half + 1, half + 7, 3usize << 62, (1usize << 32) + 1];
                let smalls = [1usize, 2, 5, (1usize << 32) + 1];
                let big = bigs[(idx % 6) as usize];
                let small = smalls[(idx / 6 % 4) as usize];
                let layout = idx / 24 % 3; // where the long run sits: leading / between two changes / trailing
                let kind = idx / 72 % 4;
                let change = |o: usize, n: usize| -> (DiffOp, usize, usize) {
                    match kind {
                        0 => (DiffOp::Delete { old_index: o, old_len: 1, new_index: n }, 1, 0),
                        1 => (DiffOp::Insert { old_index: o, new_index: n, new_len: 2 }, 0, 2),
                        2 => (DiffOp::Replace { old_index: o, old_len: 1, new_index: n, new_len: 1 }, 1, 1),
                        _ => (DiffOp::Replace { old_index: o, old_len: 2, new_index: n, new_len: 3 }, 2, 3),
                    }
                };
                // runs in order; a 0 means "no equal run here"
                let runs: [usize; 3] = match layout {
                    0 => [big, small, 0],
                    1 => [small, big, small],
                    _ => [0, small, big],
                };
                // keep the total below usize::MAX
                if runs.iter().fold(0usize, |acc, x| acc.saturating_add(*x)).saturating_add(64) == usize::MAX {
                    return;
                }
                let (mut o, mut n) = (3usize, 1usize);
                let mut ops: Vec<DiffOp> = Vec::new();
                for (i, r) in runs.iter().enumerate() {
                    if *r > 0 {
                        ops.push(eq_op(o, n, *r));
                        o += *r;
                        n += *r;
                    }
                    if i < 2 {
                        let (op, dl, il) = change(o, n);
                        ops.push(op);
                        o += dl;
                        n += il;
                    }
                }
                out.sample(|| format!("ops={} x 14 radii", fmt_ops(&ops)));
                out.nontrivial(&ops);
                out.count("huge_run_lists");
                for nn in NS {
                    out.eval();
                    let o2 = ops.clone();
                    check_grouping("group_diff_ops", &ops, nn, guard(move || group_diff_ops(o2, nn)), out);
                    out.eval();
                    let o3 = ops.clone();
                    let r = guard(move || {
                        let mut c = Capture::new();
                        for op in &o3 {
                            op.apply_to_hook(&mut c).unwrap();
                        }
                        c.finish().unwrap();
                        c.into_grouped_ops(nn)
                    });
                    check_grouping("Capture::into_grouped_ops", &ops, nn, r, out);
                }
            },
        ),
        family(
            "oplists_exh",
            "exhaustive small op lists: every alternating list of up to 5 ops with equal runs in {1,2,3} (quick) / {1,2,3,4,5} x up to 6 ops (thorough) and change kinds {Delete 1, Insert 1, Replace 1/2}, starting with either kind x n in {0,1,2,3}",
            true,
            16,
            |cfg| exh_count(cfg.tier.pick(5, 6), cfg.tier.pick(3, 5)),
            |idx, cfg, out| {
                let ops = exh_oplist(idx, cfg.tier.pick(5, 6), cfg.tier.pick(3, 5));
                out.sample(|| format!("ops={} x n in 0..=3", fmt_ops(&ops)));
                if ops.iter().filter(|o| o.tag() != DiffTag::Equal).count() >= 2 {
                    out.nontrivial(&ops);
                }
                for n in 0..=3usize {
                    out.eval();
                    let o2 = ops.clone();
                    check_grouping("group_diff_ops", &ops, n, guard(move || group_diff_ops(o2, n)), out);
                }
            },
        ),
        family(
            "textdiff",
            "TextDiff::grouped_ops(n) on real diffs of seeded random token sequences (n from the same list) must equal the reference grouping of TextDiff::ops(); carried indices of real ops may be stale (KF1), so only the reference comparison modulo carried indices of Delete/Insert is used here",
            false,
            16,
            |cfg| cfg.n(6_000, 120_000),
            |idx, cfg, out| {
                let mut rng = Rng::for_case(cfg.seed, "c12.textdiff", idx);
                let (a, b) = gen::rand_pair(&mut rng, if cfg.tiny { 8 } else { 150 });
                // every 16th case: IDENTICAL non-empty texts (no changes means no groups, for every radius)
                let b = if idx % 16 == 5 && !a.is_empty() { a.clone() } else { b };
                let alg = ALGS[rng.below(3)];
                let sa: Vec<String> = a.iter().map(|x| format!("l{}\n", x)).collect();
                let sb: Vec<String> = b.iter().map(|x| format!("l{}\n", x)).collect();
                let ra: Vec<&str> = sa.iter().map(|s| s.as_str()).collect();
                let rb: Vec<&str> = sb.iter().map(|s| s.as_str()).collect();
                out.sample(|| format!("alg={} old={} new={}", alg_name(alg), fmt_seq(&a), fmt_seq(&b)));
                let r = guard(|| {
                    let d = TextDiff::configure().algorithm(alg).diff_slices(&ra, &rb);
                    let ops = d.ops().to_vec();
                    // radii: the list, plus values that only differ from small ones above bit 16 / 31 / 32
                    let n = if idx % 16 == 5 {
                        [usize::MAX, 0, usize::MAX - 1, 3][(idx / 16 % 4) as usize]
                    } else if idx % 5 == 0 {
                        *Rng::for_case(cfg.seed, "c12.textdiff.n", idx).pick(&[(1usize << 32), (1 << 32) + 1, (1 << 32) + 2, (1 << 16) + 1, (1 << 31) + 3, (1 << 63) + 2, (1 << 33) + 1, u32::MAX as usize, u32::MAX as usize + 3])
                    } else {
                        *Rng::for_case(cfg.seed, "c12.textdiff.n", idx).pick(&NS)
                    };
                    // the same diff object is asked several times with other radii first
                    let _ = d.grouped_ops(NS[(idx % 14) as usize]);
                    let _ = d.grouped_ops(1);
                    // the unified-diff formatter groups with its context radius; one formatter object
                    // is re-configured between two uses
                    let mut u = d.unified_diff();
                    u.context_radius(NS[(idx % 7) as usize]);
                    let _ = u.iter_hunks().count();
                    u.context_radius(n);
                    // the other formatter options, set AFTER the radius in any order (some twice), do not regroup
                    let mut srng = Rng::for_case(cfg.seed, "c12.textdiff.setters", idx);
                    for _ in 0..srng.below(4) {
                        match srng.below(3) {
                            0 => {
                                u.missing_newline_hint(srng.chance(1, 2));
                            }
                            1 => {
                                u.header("a/file", "b/file");
                            }
                            _ => {
                                let _ = u.iter_hunks().next();
                            }
                        }
                    }
                    let hunks: Vec<Vec<DiffOp>> = {
                        let mut v = Vec::new();
                        let mut it = u.iter_hunks();
                        #[allow(clippy::while_let_on_iterator)]
                        while let Some(h) = it.next() {
                            v.push(h.ops().to_vec());
                        }
                        v
                    };
                    // every other way of consuming the hunk iterator delivers the same hunks
                    let battery = if hunks.len() <= 40 && idx % 4 == 0 {
                        iter_battery(&|| u.iter_hunks(), &|h| format!("{:?}", h.ops()), idx.wrapping_mul(2654435761))
                    } else {
                        Vec::new()
                    };
                    HUNK_ITER_FAILS.with(|f| *f.borrow_mut() = battery);
                    (ops, n, d.grouped_ops(n), hunks)
                });
                for f in HUNK_ITER_FAILS.with(|f| std::mem::take(&mut *f.borrow_mut())) {
                    out.violation("group.hunk_iterator_protocol", format!("UnifiedDiff::iter_hunks(): {} | alg={} old={} new={}", f, alg_name(alg), fmt_seq(&a), fmt_seq(&b)));
                }
                if idx % 4 == 0 {
                    out.count("hunk_iterator_batteries");
                }
                // two sub-slices of ONE token buffer with a common start (aliased inputs), and the
                // one-call helper udiff::unified_diff against the builder
                {
                    let k = rng.below(ra.len() + 1);
                    let m = rng.below(ra.len() + 1);
                    let n2 = *rng.pick(&NS);
                    out.eval();
                    let r2 = guard(|| {
                        let d = TextDiff::configure().algorithm(alg).diff_slices(&ra[..k], &ra[..m]);
                        (d.ops().to_vec(), d.grouped_ops(n2))
                    });
                    match r2 {
                        Err(p) => out.violation("panic", format!("TextDiff over aliased slices panicked: {}", p)),
                        Ok((ops, groups)) => {
                            let expect = reference_groups(&ops, n2);
                            if strip_empty_equal(&groups) != expect {
                                out.violation(
                                    "group.differs_from_reference",
                                    format!("TextDiff::grouped_ops({}) over two sub-slices [..{}] / [..{}] of one token buffer: ops={} | got {} | reference {}", n2, k, m, fmt_ops(&ops), fmt_groups(&groups), fmt_groups(&expect)),
                                );
                            }
                        }
                    }
                    let ta: String = sa.concat();
                    let tb: String = sb.concat();
                    let n3 = *rng.pick(&[0usize, 1, 2, 3, 5]);
                    out.eval();
                    let r3 = guard(|| {
                        let helper_plain = similar::udiff::unified_diff(alg, &ta, &tb, n3, None);
                        let helper_hdr = similar::udiff::unified_diff(alg, &ta, &tb, n3, Some(("a", "b")));
                        let d = TextDiff::configure().algorithm(alg).diff_lines(&ta, &tb);
                        let builder_plain = d.unified_diff().context_radius(n3).to_string();
                        let builder_hdr = d.unified_diff().context_radius(n3).header("a", "b").to_string();
                        let hunks_builder = d.unified_diff().context_radius(n3).iter_hunks().count();
                        (helper_plain == builder_plain, helper_hdr == builder_hdr, helper_plain.matches("\n@@ -").count() + helper_plain.starts_with("@@ -") as usize, hunks_builder)
                    });
                    match r3 {
                        Err(p) => out.violation("panic", format!("udiff::unified_diff panicked: {}", p)),
                        Ok((p1, p2, nh_helper, nh_builder)) => {
                            if !p1 || !p2 {
                                out.violation(
                                    "group.helper_groups_differently",
                                    format!("udiff::unified_diff(alg, old, new, {}, header {}) does not render the groups of context_radius({}): {} vs {} hunks | alg={} old={} new={}", n3, if !p1 { "None" } else { "Some" }, n3, nh_helper, nh_builder, alg_name(alg), fmt_seq(&a), fmt_seq(&b)),
                                );
                            }
                        }
                    }
                }
                out.eval();
                match r {
                    Err(p) => out.violation("panic", format!("TextDiff::grouped_ops panicked: {} | old={} new={}", p, fmt_seq(&a), fmt_seq(&b))),
                    Ok((ops, n, groups, hunks)) => {
                        let expect = reference_groups(&ops, n);
                        if strip_empty_equal(&hunks) != expect {
                            out.violation(
                                "group.hunks_differ_from_reference",
                                format!("UnifiedDiff::iter_hunks with context_radius({}) (set after an earlier use with another radius) ops={} | hunks {} | reference {}", n, fmt_ops(&ops), fmt_groups(&hunks), fmt_groups(&expect)),
                            );
                        }
                        let got = strip_empty_equal(&groups);
                        if got != expect {
                            out.violation(
                                "group.differs_from_reference",
                                format!("TextDiff::grouped_ops n={} ops={} | got {} | reference {}", n, fmt_ops(&ops), fmt_groups(&groups), fmt_groups(&expect)),
                            );
                        }
                        if groups.len() > 1 {
                            out.nontrivial(&(&a, &b, n));
                        }
                    }
                }
            },
        ),
        family(
            "huge_textdiff",
            "a text diff of 2^23 + k identical tokens with a single insertion (f32 ratio rounds to 1.0 there) — grouped_ops(n) must still return the change; and repeated grouped_ops calls with different n on ONE diff object",
            false,
            1,
            |cfg| if cfg.tiny { 0 } else { cfg.tier.pick(1, 2) },
            |idx, _cfg, out| {
                // N even and >= 2^23: 2N and 2N+1 are the same f32, the similarity ratio of this diff is exactly 1.0
                let n_tokens = (1usize << 23) + 4 + 4 * idx as usize;
                let old: Vec<&str> = vec!["x\n"; n_tokens];
                let mut new = old.clone();
                new.push("y\n");
                out.eval();
                out.nontrivial(&("huge", idx));
                out.sample(|| format!("{} identical tokens + one inserted token", n_tokens));
                let r = guard(|| {
                    let d = TextDiff::from_slices(&old, &new);
                    let ops = d.ops().to_vec();
                    let g3 = d.grouped_ops(3);
                    let g0 = d.grouped_ops(0);
                    (ops, g3, g0)
                });
                match r {
                    Err(p) => out.violation("panic", format!("huge TextDiff panicked: {}", p)),
                    Ok((ops, g3, g0)) => {
                        for (n, g) in [(3usize, g3), (0, g0)] {
                            let expect = reference_groups(&ops, n);
                            if strip_empty_equal(&g) != expect {
                                out.violation("group.differs_from_reference", format!("TextDiff::grouped_ops({}) on {} tokens: ops={} got {} reference {}", n, n_tokens, fmt_ops(&ops), fmt_groups(&g), fmt_groups(&expect)));
                            }
                        }
                        out.count("huge_textdiff_cases");
                    }
                }
            },
        ),

        family(
            "deep_many_ops",
            "STACK DEPTH: valid alternating op lists of 100000..300000 ops (one-item changes separated by equal runs of 1..4 items) grouped with radius 0, 1 and 3 - tens of thousands of groups; reference grouping; run with the stack of an ordinary thread in the small-stack stage (an unoptimised build)",
            false,
            1,
            |cfg| if cfg.tiny { 1 } else { cfg.tier.pick(3, 9) },
            |idx, cfg, out| {
                let mut rng = Rng::for_case(cfg.seed, "c12.deep", idx);
                let n_ops = if cfg.tiny { 12 } else { rng.range(100_000, 300_000) };
                let mut ops: Vec<DiffOp> = Vec::with_capacity(n_ops);
                let (mut o, mut n) = (0usize, 0usize);
                for i in 0..n_ops {
                    if i % 2 == 0 {
                        let l = 1 + (i / 2 + idx as usize) % 4;
                        ops.push(DiffOp::Equal { old_index: o, new_index: n, len: l });
                        o += l;
                        n += l;
                    } else if i % 4 == 1 {
                        ops.push(DiffOp::Delete { old_index: o, old_len: 1, new_index: n });
                        o += 1;
                    } else {
                        ops.push(DiffOp::Insert { old_index: o, new_index: n, new_len: 1 });
                        n += 1;
                    }
                }
                out.sample(|| format!("{} ops", ops.len()));
                out.nontrivial(&("deep", ops.len(), idx));
                out.count("deep_cases");
                for radius in [0usize, 1, 3] {
                    out.eval();
                    let o2 = ops.clone();
                    match guard(move || group_diff_ops(o2, radius)) {
                        Err(p) => out.violation("panic", format!("group_diff_ops on {} ops panicked: {}", ops.len(), p)),
                        Ok(groups) => {
                            out.count_n("groups_observed", groups.len() as u64);
                            let expect = reference_groups(&ops, radius);
                            if strip_empty_equal(&groups) != expect {
                                out.violation("group.differs_from_reference", format!("group_diff_ops(n={}) on {} ops: {} groups, reference {} groups", radius, ops.len(), groups.len(), expect.len()));
                            }
                        }
                    }
                }
            },
        ),
    ]
}

// exhaustive small op lists -------------------------------------------------

fn exh_count(max_ops: u32, max_eq: u64) -> u64 {
    // lists of length 0..=max_ops, alternating, first kind free; per Equal: max_eq choices, per change: 4 choices
    let mut total = 0u64;
    for len in 0..=max_ops {
        for first_eq in [true, false] {
            if len == 0 && !first_eq {
                continue;
            }
            let mut c = 1u64;
            let mut eq = first_eq;
            for _ in 0..len {
                c *= if eq { max_eq } else { 4 };
                eq = !eq;
            }
            total += c;
        }
    }
    total
}

fn exh_oplist(mut idx: u64, max_ops: u32, max_eq: u64) -> Vec<DiffOp> {
    for len in 0..=max_ops {
        for first_eq in [true, false] {
            if len == 0 && !first_eq {
                continue;
            }
            let mut c = 1u64;
            let mut eq = first_eq;
            for _ in 0..len {
                c *= if eq { max_eq } else { 4 };
                eq = !eq;
            }
            if idx < c {
                let mut ops = Vec::new();
                let (mut o, mut n) = (2usize, 5usize);
                let mut eq = first_eq;
                for _ in 0..len {
                    if eq {
                        let l = (idx % max_eq) as usize + 1;
                        idx /= max_eq;
                        ops.push(eq_op(o, n, l));
                        o += l;
                        n += l;
                    } else {
                        let k = idx % 4;
                        idx /= 4;
                        match k {
                            0 => {
                                ops.push(DiffOp::Delete { old_index: o, old_len: 1, new_index: n });
                                o += 1;
                            }
                            1 => {
                                ops.push(DiffOp::Insert { old_index: o, new_index: n, new_len: 1 });
                                n += 1;
                            }
                            2 => {
                                ops.push(DiffOp::Replace { old_index: o, old_len: 1, new_index: n, new_len: 2 });
                                o += 1;
                                n += 2;
                            }
                            _ => {
                                ops.push(DiffOp::Replace { old_index: o, old_len: 2, new_index: n, new_len: 1 });
                                o += 2;
                                n += 1;
                            }
                        }
                    }
                    eq = !eq;
                }
                return ops;
            }
            idx -= c;
        }
    }
    Vec::new()
}
