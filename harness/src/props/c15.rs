//! C15 — Patience keeps a maximum in-order set of unique common items
//! (reference R-ANCH: LCS of the orders of the items that occur exactly once
//! on each side).

use std::collections::HashMap;
use std::ops::Range;

use similar::{capture_diff, Algorithm, DiffOp, TextDiff};

use crate::engine::{family, guard, Family, Local};
use crate::gen;
use crate::mon::{fmt_evs, fmt_ops, lcs_len, Ev};
use crate::props::common::*;
use crate::rng::Rng;

/// items occurring exactly once in a[or] and exactly once in b[nr]:
/// returns (positions in old order, k = LCS of the two orders)
fn anchors(a: &[u32], or: &Range<usize>, b: &[u32], nr: &Range<usize>) -> (Vec<(usize, usize)>, usize) {
    let mut ca: HashMap<u32, (usize, usize)> = HashMap::new();
    for i in or.clone() {
        let e = ca.entry(a[i]).or_insert((0, i));
        e.0 += 1;
    }
    let mut cb: HashMap<u32, (usize, usize)> = HashMap::new();
    for j in nr.clone() {
        let e = cb.entry(b[j]).or_insert((0, j));
        e.0 += 1;
    }
    let mut both: Vec<(usize, usize)> = Vec::new();
    for (item, (cnt, i)) in &ca {
        if *cnt == 1 {
            if let Some((1, j)) = cb.get(item) {
                both.push((*i, *j));
            }
        }
    }
    both.sort();
    // LCS of the orders = longest increasing subsequence of new positions in old order
    let old_order: Vec<usize> = both.iter().map(|p| p.1).collect();
    let mut new_order = old_order.clone();
    new_order.sort();
    let k = lcs_len(&old_order, &new_order);
    (both, k)
}

fn judge(what: &str, pairs_equal: &[(usize, usize)], a: &[u32], or: &Range<usize>, b: &[u32], nr: &Range<usize>, shown: &dyn Fn() -> String, out: &mut Local) {
    let (both, k) = anchors(a, or, b, nr);
    let anchored = pairs_equal.iter().filter(|(o, n)| both.iter().any(|(i, j)| i == o && j == n)).count();
    // an anchored item paired with anything but its unique counterpart
    let mispaired = pairs_equal
        .iter()
        .filter(|(o, n)| both.iter().any(|(i, j)| (i == o) != (j == n)))
        .count();
    out.count_n("both_unique_items_seen", both.len() as u64);
    // crossing anchors: the interesting inputs
    if k < both.len() && k >= 1 {
        out.nontrivial(&(a, or.start, or.end, b, nr.start, nr.end));
        out.count("cases_with_crossing_anchors");
    }
    if anchored < k {
        out.violation(
            "anchors.fewer_than_maximum",
            format!(
                "{}: only {} of the items that are unique on both sides are reported Equal, but {} of them appear in the same relative order on both sides | old={} range {:?} new={} range {:?} | {}",
                what, anchored, k, fmt_seq(a), or, fmt_seq(b), nr, shown()
            ),
        );
    }
    if mispaired > 0 {
        out.violation(
            "anchors.matched_to_other_occurrence",
            format!("{}: a both-unique item is paired with a position that is not its unique counterpart | old={} new={} | {}", what, fmt_seq(a), fmt_seq(b), shown()),
        );
    }
}

fn case(a: &[u32], or: Range<usize>, b: &[u32], nr: Range<usize>, out: &mut Local) {
    let eq = |o: usize, n: usize| a[o] == b[n];
    // raw
    for entry in [Entry::Module, Entry::Dispatch] {
        out.eval();
        let r = traced(entry, Algorithm::Patience, a, or.clone(), b, nr.clone(), &eq, None, false);
        match r {
            Err(p) => out.violation("panic", format!("patience::diff panicked: {} | old={} new={}", p, fmt_seq(a), fmt_seq(b))),
            Ok(mon) => {
                if !mon.failures.is_empty() {
                    out.count("invalid_raw_streams_seen_owned_by_C01");
                    continue;
                }
                let mut pairs = Vec::new();
                for e in &mon.evs {
                    if let Ev::Eq(o, n, l) = *e {
                        for k in 0..l {
                            pairs.push((o + k, n + k));
                        }
                    }
                }
                let evs = mon.evs.clone();
                judge(if entry == Entry::Module { "patience::diff" } else { "algorithms::diff(Patience)" }, &pairs, a, &or, b, &nr, &|| format!("events={}", fmt_evs(&evs)), out);
            }
        }
    }
    // captured
    out.eval();
    match guard(|| capture_diff(Algorithm::Patience, a, or.clone(), b, nr.clone())) {
        Err(p) => out.violation("panic", format!("capture_diff(Patience) panicked: {} | old={} new={}", p, fmt_seq(a), fmt_seq(b))),
        Ok(ops) => {
            let mut pairs = Vec::new();
            for op in &ops {
                if let DiffOp::Equal { old_index, new_index, len } = *op {
                    for k in 0..len {
                        if old_index + k < a.len() && new_index + k < b.len() && a[old_index + k] == b[new_index + k] {
                            pairs.push((old_index + k, new_index + k));
                        }
                    }
                }
            }
            judge("capture_diff(Patience)", &pairs, a, &or, b, &nr, &|| format!("ops={}", fmt_ops(&ops)), out);
        }
    }
    // old and new are two ranges of ONE buffer; and lookups whose index space straddles 2^32
    {
        let mut buf: Vec<u32> = a.to_vec();
        buf.extend_from_slice(b);
        let nr2 = a.len() + nr.start..a.len() + nr.end;
        out.eval();
        match guard(|| capture_diff(Algorithm::Patience, &buf[..], or.clone(), &buf[..], nr2.clone())) {
            Err(p) => out.violation("panic", format!("capture_diff(Patience) on a shared buffer panicked: {} | old={} new={}", p, fmt_seq(a), fmt_seq(b))),
            Ok(ops) => {
                let mut pairs = Vec::new();
                for op in &ops {
                    if let DiffOp::Equal { old_index, new_index, len } = *op {
                        for k in 0..len {
                            let (o, n) = (old_index + k, (new_index + k).wrapping_sub(a.len()));
                            if o < a.len() && n < b.len() && a[o] == b[n] {
                                pairs.push((o, n));
                            }
                        }
                    }
                }
                judge("capture_diff(Patience) on two ranges of ONE shared buffer", &pairs, a, &or, b, &nr, &|| format!("ops={}", fmt_ops(&ops)), out);
                out.count("shared_buffer_runs");
            }
        }
        if usize::BITS >= 64 && a.len() <= 1000 && b.len() <= 1000 {
            let pivot = (1usize << 32) - 1;
            let base_o = pivot - or.start - (or.len().saturating_sub(1)) / 2;
            let base_n = pivot - nr.start - (nr.len().saturating_sub(1)) / 3;
            let sa = crate::mon::StrictLookup { data: a, allowed: base_o + or.start..base_o + or.end, base: base_o };
            let sb = crate::mon::StrictLookup { data: b, allowed: base_n + nr.start..base_n + nr.end, base: base_n };
            out.eval();
            match guard(|| capture_diff(Algorithm::Patience, &sa, base_o + or.start..base_o + or.end, &sb, base_n + nr.start..base_n + nr.end)) {
                Err(p) => out.violation("panic", format!("capture_diff(Patience) through lookups around 2^32 panicked: {} | old={} new={}", p, fmt_seq(a), fmt_seq(b))),
                Ok(ops) => {
                    let mut pairs = Vec::new();
                    for op in &ops {
                        if let DiffOp::Equal { old_index, new_index, len } = *op {
                            for k in 0..len {
                                let (o, n) = ((old_index + k).wrapping_sub(base_o), (new_index + k).wrapping_sub(base_n));
                                if o < a.len() && n < b.len() && a[o] == b[n] {
                                    pairs.push((o, n));
                                }
                            }
                        }
                    }
                    judge("capture_diff(Patience) through lookups whose index space straddles 2^32", &pairs, a, &or, b, &nr, &|| format!("ops={}", fmt_ops(&ops)), out);
                }
            }
        }
    }
    // old items u32, new items of another type with a different Hash
    let wb: Vec<crate::mon::WideId> = b.iter().map(|x| crate::mon::WideId(*x as u64)).collect();
    out.eval();
    match guard(|| capture_diff(Algorithm::Patience, a, or.clone(), &wb[..], nr.clone())) {
        Err(p) => out.violation("panic", format!("capture_diff(Patience) over [u32] / [WideId] panicked: {} | old={} new={}", p, fmt_seq(a), fmt_seq(b))),
        Ok(ops) => {
            let mut pairs = Vec::new();
            for op in &ops {
                if let DiffOp::Equal { old_index, new_index, len } = *op {
                    for k in 0..len {
                        if old_index + k < a.len() && new_index + k < b.len() && a[old_index + k] == b[new_index + k] {
                            pairs.push((old_index + k, new_index + k));
                        }
                    }
                }
            }
            judge("capture_diff(Patience) with old [u32] / new [WideId] (different Hash)", &pairs, a, &or, b, &nr, &|| format!("ops={}", fmt_ops(&ops)), out);
            out.count("heterogeneous_item_type_runs");
        }
    }
}

pub fn families() -> Vec<Box<dyn Family>> {
    vec![
        family(
            "exh3",
            "every ordered pair over {0,1,2} with length <= 6 (quick) / <= 7 (thorough), full ranges, raw (patience::diff, algorithms::diff) and captured; non-trivial = at least two both-unique items that cross",
            true,
            256,
            |cfg| {
                let n = gen::all_seqs(3, if cfg.tiny { 3 } else { cfg.tier.pick(6, 7) }).len() as u64;
                n * n
            },
            |idx, cfg, out| {
                let seqs = gen::all_seqs(3, if cfg.tiny { 3 } else { cfg.tier.pick(6, 7) });
                let (a, b) = gen::pair_of(seqs, idx);
                let a: Vec<u32> = a.iter().map(|x| *x as u32).collect();
                let b: Vec<u32> = b.iter().map(|x| *x as u32).collect();
                out.sample(|| format!("old={:?} new={:?}", a, b));
                case(&a, 0..a.len(), &b, 0..b.len(), out);
            },
        ),
        family(
            "exh4",
            "every ordered pair over {0,1,2,3} with length <= 5 (thorough: <= 6)",
            true,
            256,
            |cfg| {
                let n = gen::all_seqs(4, if cfg.tiny { 2 } else { cfg.tier.pick(5, 6) }).len() as u64;
                n * n
            },
            |idx, cfg, out| {
                let seqs = gen::all_seqs(4, if cfg.tiny { 2 } else { cfg.tier.pick(5, 6) });
                let (a, b) = gen::pair_of(seqs, idx);
                let a: Vec<u32> = a.iter().map(|x| *x as u32).collect();
                let b: Vec<u32> = b.iter().map(|x| *x as u32).collect();
                out.sample(|| format!("old={:?} new={:?}", a, b));
                case(&a, 0..a.len(), &b, 0..b.len(), out);
            },
        ),
        family(
            "rnd",
            "seeded random: a background of few letters repeated 1..=5 times each (odd and even counts) plus 1..=6 unique items scattered independently on both sides, lengths up to 40, random sub-ranges for a third of the cases; and G-RND pairs up to 150; also through TextDiff lines with > 100 tokens",
            false,
            32,
            |cfg| cfg.n(120_000, 2_500_000),
            |idx, cfg, out| {
                let mut rng = Rng::for_case(cfg.seed, "c15.rnd", idx);
                let (a, b) = if rng.chance(3, 4) {
                    let letters = 1 + rng.below(4);
                    let mut a = Vec::new();
                    let mut b = Vec::new();
                    for l in 0..letters {
                        let ca = rng.below(6);
                        let cb = if rng.chance(1, 2) { ca } else { rng.below(6) };
                        a.extend(std::iter::repeat(l as u32).take(ca));
                        b.extend(std::iter::repeat(l as u32).take(cb));
                    }
                    if rng.chance(1, 2) {
                        // shuffle the backgrounds
                        for v in [&mut a, &mut b] {
                            for i in (1..v.len()).rev() {
                                let j = rng.below(i + 1);
                                v.swap(i, j);
                            }
                        }
                    } else if rng.chance(1, 2) {
                        b = a.clone();
                    }
                    let uniques = 1 + rng.below(6);
                    for u in 0..uniques {
                        let pa = rng.below(a.len() + 1);
                        a.insert(pa, 100 + u as u32);
                        if rng.chance(5, 6) {
                            let pb = rng.below(b.len() + 1);
                            b.insert(pb, 100 + u as u32);
                        }
                    }
                    (a, b)
                } else {
                    gen::rand_pair(&mut rng, if cfg.tiny { 8 } else { 150 })
                };
                let (or, nr) = if rng.chance(2, 3) { (0..a.len(), 0..b.len()) } else { gen::rand_ranges(&mut rng, a.len(), b.len()) };
                out.sample(|| format!("old={} range {:?} new={} range {:?}", fmt_seq(&a), or, fmt_seq(&b), nr));
                case(&a, or, &b, nr, out);
                if idx % 64 == 0 && !cfg.tiny {
                    // the same claim through a text diff above the integer-mapping threshold
                    let mut la: Vec<u32> = (0..101).map(|i| 10_000 + i).collect();
                    let mut lb = la.clone();
                    la.extend_from_slice(&a);
                    lb.extend_from_slice(&b);
                    let sa: Vec<String> = la.iter().map(|x| format!("line {}\n", x)).collect();
                    let sb: Vec<String> = lb.iter().map(|x| format!("line {}\n", x)).collect();
                    let ta = sa.concat();
                    let tb = sb.concat();
                    out.eval();
                    match guard(|| {
                        let mut c = TextDiff::configure();
                        c.algorithm(Algorithm::Patience);
                        // half of the diffs go through a CLONE of the configured builder
                        if ta.len() % 2 == 0 { c.clone().diff_lines(&ta, &tb).ops().to_vec() } else { c.diff_lines(&ta, &tb).ops().to_vec() }
                    }) {
                        Err(p) => out.violation("panic", format!("TextDiff(Patience) panicked: {}", p)),
                        Ok(ops) => {
                            let mut pairs = Vec::new();
                            for op in &ops {
                                if let DiffOp::Equal { old_index, new_index, len } = *op {
                                    for k in 0..len {
                                        pairs.push((old_index + k, new_index + k));
                                    }
                                }
                            }
                            judge("TextDiff lines (>100 tokens, Patience)", &pairs, &la, &(0..la.len()), &lb, &(0..lb.len()), &|| format!("ops={}", fmt_ops(&ops)), out);
                            out.count("textdiff_above_threshold_runs");
                        }
                    }
                }
            },
        ),
        family(
            "structured",
            "structured inputs (palindromes, reversal, rotation, interleaving, halves swapped, doubled, ...) up to 60 items, with 0..3 extra unique items scattered on both sides",
            false,
            32,
            |cfg| cfg.n(20_000, 400_000),
            |idx, cfg, out| {
                let mut rng = Rng::for_case(cfg.seed, "c15.structured", idx);
                let (mut a, mut b, kind) = gen::structured_pair(&mut rng, if cfg.tiny { 6 } else { 60 });
                for u in 0..rng.below(4) {
                    let pa = rng.below(a.len() + 1);
                    a.insert(pa, 1000 + u as u32);
                    let pb = rng.below(b.len() + 1);
                    b.insert(pb, 1000 + u as u32);
                }
                out.sample(|| format!("structure={} old={} new={}", kind, fmt_seq(&a), fmt_seq(&b)));
                case(&a, 0..a.len(), &b, 0..b.len(), out);
            },
        ),
        family(
            "moved_blocks",
            "items unique per side: ordered common items in 4..40 runs of 2..19 items separated by one-sided noise, and a contiguous block of 20..70 common items sitting at different places of the two sides (MOVED across the runs); a third of the cases also has a repeated filler item scattered over both sides.  The longest in-order set is the larger of the two crossing groups: a search that commits to the first long run it meets keeps the wrong one",
            false,
            4,
            |cfg| cfg.n(1_200, 40_000),
            |idx, cfg, out| {
                let mut rng = Rng::for_case(cfg.seed, "c15.moved_blocks", idx);
                let runs = if cfg.tiny { 2 } else { rng.range(4, 40) };
                let max_run = if cfg.tiny { 2 } else { *rng.pick(&[4usize, 8, 12, 19]) };
                let block = if cfg.tiny { 3 } else { rng.range(20, 70) };
                let noise = if cfg.tiny { 1 } else { *rng.pick(&[2usize, 6, 12, 25]) };
                let (mut a, mut b) = gen::moved_block_pair(&mut rng, runs, max_run, block, noise);
                if idx % 3 == 0 {
                    for _ in 0..rng.below(30) {
                        let pa = rng.below(a.len() + 1);
                        a.insert(pa, 7);
                        let pb = rng.below(b.len() + 1);
                        b.insert(pb, 7);
                    }
                }
                out.sample(|| format!("N={} M={} ({} runs of <= {} items, moved block of {}, noise <= {})", a.len(), b.len(), runs, max_run, block, noise));
                out.count("moved_block_cases");
                case(&a, 0..a.len(), &b, 0..b.len(), out);
            },
        ),
        family(
            "big_landmarks",
            "two long mostly unrelated sequences (3500..6000 items each, thorough 5000..12000; distinct one-sided fillers) sharing 5..80 in-order landmark items, a few of them crossing: the anchor search runs through thousands of rounds (D ~ N+M)",
            false,
            1,
            |cfg| if cfg.tiny { 1 } else { cfg.tier.pick(10, 60) },
            |idx, cfg, out| {
                let mut rng = Rng::for_case(cfg.seed, "c15.big_landmarks", idx);
                // N + M above 8192 (and above 16384 in the thorough tier) in most cases
                let hi = if cfg.tiny { 12 } else { cfg.tier.pick(6000, 12_000) };
                let lo = if cfg.tiny { 6 } else { cfg.tier.pick(3500, 5000) };
                let (n, m) = (rng.range(lo, hi), rng.range(lo, hi));
                let k = rng.range(5, 80);
                let crossing = rng.below(4);
                let (a, b) = gen::landmark_pair(&mut rng, n, m, k, crossing);
                out.sample(|| format!("N={} M={} landmarks<={}", n, m, k));
                out.count("big_landmark_cases");
                case(&a, 0..a.len(), &b, 0..b.len(), out);
            },
        ),
    ]
}
