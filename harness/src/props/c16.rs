//! C16 — inline changes re-split each line losslessly; only changed words are
//! emphasised.

use std::time::{Duration, Instant};

use similar::verif_hooks as vh;
use similar::{Algorithm, ChangeTag, DiffTag, DiffableStr, TextDiff};

use crate::engine::{family, guard, Family, Local};
use crate::props::common::*;
use crate::rng::Rng;
use crate::text_gen;
use crate::tok_ref::show;

#[derive(Clone, Copy, Debug, PartialEq)]
enum Dl {
    /// `iter_inline_changes(op)` (built-in 500 ms real deadline)
    Default,
    /// `iter_inline_changes_deadline(op, None)`
    NoneGiven,
    /// a real Instant in the past
    Expired,
    /// virtual clock: the k-th deadline check of the second-level diff reports expiry
    Fuel(u64),
}

struct Counts {
    emphasised: u64,
    replace_ops: u64,
    inline_changes: u64,
}

fn check<'a, T: DiffableStr + ?Sized>(d: &'a TextDiff<'a, 'a, 'a, T>, dl: Dl, far: Instant, u2028_breaks: bool) -> (Vec<(&'static str, String)>, Counts) {
    let mut fails: Vec<(&'static str, String)> = Vec::new();
    let mut counts = Counts { emphasised: 0, replace_ops: 0, inline_changes: 0 };
    let past = Instant::now().checked_sub(Duration::from_secs(5)).unwrap_or_else(Instant::now);
    for (oi, op) in d.ops().iter().enumerate() {
        let plain: Vec<(ChangeTag, Option<usize>, Option<usize>, Vec<u8>, bool)> = d
            .iter_changes(op)
            .map(|c| (c.tag(), c.old_index(), c.new_index(), c.value().as_bytes().to_vec(), c.missing_newline()))
            .collect();
        if let Dl::Fuel(k) = dl {
            vh::set_clock(vh::Clock::Fuel(k));
        }
        let inline: Vec<_> = match dl {
            Dl::Default => d.iter_inline_changes(op).collect(),
            Dl::NoneGiven => d.iter_inline_changes_deadline(op, None).collect(),
            Dl::Expired => d.iter_inline_changes_deadline(op, Some(past)).collect(),
            Dl::Fuel(_) => d.iter_inline_changes_deadline(op, Some(far)).collect(),
        };
        vh::set_clock(vh::Clock::Off);
        // every way of consuming the inline iterator delivers the same changes (sampled: first Replace op)
        // (every mk() of the battery re-runs the word-level diff: sampled, one diff in 24)
        if op.tag() == DiffTag::Replace
            && counts.replace_ops == 0
            && inline.len() <= 24
            && plain.iter().map(|c| c.3.len()).sum::<usize>() <= 2000
            && matches!(dl, Dl::NoneGiven | Dl::Expired)
            && crate::engine::digest(&plain.iter().map(|c| c.3.clone()).collect::<Vec<_>>()) % 24 == 0
        {
            let row = |c: similar::InlineChange<'a, T>| format!("{:?} {:?} {:?} {:?}", c.tag(), c.old_index(), c.new_index(), c.values().iter().map(|(e, v)| (*e, v.as_bytes().to_vec())).collect::<Vec<_>>());
            let dlv = if matches!(dl, Dl::Expired) { Some(past) } else { None };
            let f = iter_battery(&|| d.iter_inline_changes_deadline(op, dlv), &row, oi as u64 * 7 + inline.len() as u64);
            if let Some(f) = f.first() {
                fails.push(("inline.iterator_protocol", format!("op #{} {:?}: iter_inline_changes_deadline: {}", oi, op, f)));
            }
        }
        if op.tag() == DiffTag::Replace {
            counts.replace_ops += 1;
        }
        counts.inline_changes += inline.len() as u64;
        let heads_inline: Vec<(ChangeTag, Option<usize>, Option<usize>)> = inline.iter().map(|c| (c.tag(), c.old_index(), c.new_index())).collect();
        let heads_plain: Vec<(ChangeTag, Option<usize>, Option<usize>)> = plain.iter().map(|c| (c.0, c.1, c.2)).collect();
        if heads_inline != heads_plain {
            fails.push((
                "inline.tags_or_indices",
                format!("op #{} {:?}: inline expansion yields {:?} but the plain expansion {:?}", oi, op, heads_inline, heads_plain),
            ));
            continue;
        }
        for (k, (ic, pc)) in inline.iter().zip(plain.iter()).enumerate() {
            let mut joined = Vec::new();
            for (emph, seg) in ic.values() {
                let bytes = seg.as_bytes();
                joined.extend_from_slice(bytes);
                if *emph {
                    counts.emphasised += 1;
                    if op.tag() != DiffTag::Replace || ic.tag() == ChangeTag::Equal {
                        fails.push(("inline.emphasis_outside_replace", format!("op #{} {:?} change #{} ({:?}) has an emphasised segment {}", oi, op, k, ic.tag(), show(bytes))));
                    }
                    if bytes.iter().any(|b| *b == b'\n' || *b == b'\r') || (u2028_breaks && bytes.windows(3).any(|w| w == [0xE2, 0x80, 0xA8])) {
                        fails.push(("inline.emphasised_line_break", format!("op #{} change #{}: emphasised segment {} contains a line break", oi, k, show(bytes))));
                    }
                }
            }
            // the lossy-string view of the same segments
            let lossy: Vec<(bool, String)> = ic.iter_strings_lossy().map(|(e, s)| (e, s.into_owned())).collect();
            let want: Vec<(bool, String)> = ic.values().iter().map(|(e, seg)| (*e, String::from_utf8_lossy(seg.as_bytes()).into_owned())).collect();
            if lossy != want {
                fails.push(("inline.strings_lossy_differ", format!("op #{} change #{}: iter_strings_lossy() yields {:?} but values() are {:?}", oi, k, lossy, want)));
            }
            if joined != pc.3 {
                fails.push((
                    "inline.segments_do_not_rebuild_line",
                    format!("op #{} {:?} change #{}: segments concatenate to {} but the line is {}", oi, op, k, show(&joined), show(&pc.3)),
                ));
            }
            if ic.missing_newline() != pc.4 {
                fails.push(("inline.missing_newline_flag", format!("op #{} change #{}: missing_newline() = {} but the line {} says {}", oi, k, ic.missing_newline(), show(&pc.3), pc.4)));
            }
        }
    }
    (fails, counts)
}

fn case(a: &[u8], b: &[u8], alg: Algorithm, dls: &[Dl], out: &mut Local) {
    for nl_override in 0..3u8 {
        case_nl(a, b, alg, dls, nl_override, out);
    }
}

fn case_nl(a: &[u8], b: &[u8], alg: Algorithm, dls: &[Dl], nl_override: u8, out: &mut Local) {
    let valid = std::str::from_utf8(a).is_ok() && std::str::from_utf8(b).is_ok();
    let far = far_deadline();
    for ty in 0..3u8 {
        let as_str = ty >= 1;
        if as_str && !valid {
            continue;
        }
        for &dl in dls {
            let ctx = || format!("alg={} type={} inline deadline={:?} newline_terminated override={} old={} new={}", alg_name(alg), ["[u8]", "str", "OddStr (user-defined: case-insensitive Eq, U+2028 also ends a line, len/slice in characters)"][ty as usize], dl, ["none", "true", "false"][nl_override as usize], show(a), show(b));
            out.eval();
            let r = guard(|| {
                let mut c = TextDiff::configure();
                c.algorithm(alg);
                // a line diff stays a line diff when the newline_terminated flag is overridden
                match nl_override {
                    1 => {
                        c.newline_terminated(true);
                    }
                    2 => {
                        c.newline_terminated(false);
                    }
                    _ => {}
                }
                if ty == 2 {
                    // per-occurrence letter case: tokens that are equal for the type differ in bytes
                    let ra = crate::odd_str::oddify(std::str::from_utf8(a).unwrap(), a.len() as u64);
                    let rb = crate::odd_str::oddify(std::str::from_utf8(b).unwrap(), b.len() as u64 + 77);
                    let d = c.diff_lines(crate::odd_str::OddStr::new(&ra), crate::odd_str::OddStr::new(&rb));
                    check(&d, dl, far, true)
                } else if as_str {
                    let d = c.diff_lines(std::str::from_utf8(a).unwrap(), std::str::from_utf8(b).unwrap());
                    check(&d, dl, far, false)
                } else {
                    let d = c.diff_lines(a, b);
                    check(&d, dl, far, false)
                }
            });
            vh::set_clock(vh::Clock::Off);
            match r {
                Err(p) => out.violation("panic", format!("inline expansion panicked: {} | {}", p, ctx())),
                Ok((fails, counts)) => {
                    out.count_n("emphasised_segments_observed", counts.emphasised);
                    out.count_n("replace_ops_observed", counts.replace_ops);
                    out.count_n("inline_changes_observed", counts.inline_changes);
                    if counts.emphasised > 0 {
                        out.nontrivial(&(alg_name(alg), a, b, ty));
                    }
                    for (code, msg) in fails.into_iter().take(4) {
                        out.violation(code, format!("{} | {}", msg, ctx()));
                    }
                }
            }
        }
    }
}

pub fn families() -> Vec<Box<dyn Family>> {
    vec![
        family(
            "inline_rnd",
            "G-TXT line pairs biased to word-level edits inside lines (multi-byte words, Unicode blanks, LF/CRLF/CR/blank-line terminators, lines split in two, missing final newline; every 4th case with invalid UTF-8 spliced into the [u8] variant) x one algorithm x inline deadline {default 500ms, None, real Instant in the past, virtual clock expiring at check 0..3} x {str,[u8]}; non-trivial = at least one emphasised segment was produced",
            false,
            8,
            |cfg| cfg.n(12_000, 250_000),
            |idx, cfg, out| {
                let mut rng = Rng::for_case(cfg.seed, "c16.inline_rnd", idx);
                let (sa, sb) = text_gen::inline_pair(&mut rng, if cfg.tiny { 2 } else { 6 });
                let (mut a, mut b) = (sa.into_bytes(), sb.into_bytes());
                if idx % 4 == 0 {
                    for t in [&mut a, &mut b] {
                        for _ in 0..1 + rng.below(2) {
                            let frag = *rng.pick(&text_gen::INVALID);
                            let at = rng.below(t.len() + 1);
                            for (i, x) in frag.iter().enumerate() {
                                t.insert(at + i, *x);
                            }
                        }
                    }
                }
                let alg = ALGS[rng.below(3)];
                let dls = [Dl::Default, Dl::NoneGiven, Dl::Expired, Dl::Fuel(rng.below(4) as u64)];
                out.sample(|| format!("alg={} old={} new={}", alg_name(alg), show(&a), show(&b)));
                case(&a, &b, alg, &dls, out);
            },
        ),
        family(
            "txt_rnd",
            "general G-TXT pairs (line-level edits, hostile atoms) through the same inline checks",
            false,
            8,
            |cfg| cfg.n(5_000, 100_000),
            |idx, cfg, out| {
                let mut rng = Rng::for_case(cfg.seed, "c16.txt_rnd", idx);
                let (a, b) = text_gen::text_pair(&mut rng, if cfg.tiny { 2 } else { 8 }, idx % 3 == 0);
                let alg = ALGS[rng.below(3)];
                out.sample(|| format!("alg={} old={} new={}", alg_name(alg), show(&a), show(&b)));
                case(&a, &b, alg, &[Dl::NoneGiven, Dl::Expired, Dl::Fuel(rng.below(3) as u64)], out);
            },
        ),
        family(
            "reflow",
            "reflowed paragraphs: the same 4..40 words wrapped at different widths on the two sides (plus 0..2 changed words), so that Replace blocks have several lines on both sides and word-level ops span three and more lines; mixed terminators; x 3 algorithms x 3 inline deadlines x newline_terminated override",
            false,
            8,
            |cfg| cfg.n(6_000, 120_000),
            |idx, cfg, out| {
                let mut rng = Rng::for_case(cfg.seed, "c16.reflow", idx);
                let (a, b) = text_gen::reflow_pair(&mut rng, if cfg.tiny { 4 } else { 36 });
                let alg = ALGS[rng.below(3)];
                out.sample(|| format!("alg={} old={:?} new={:?}", alg_name(alg), a, b));
                case(a.as_bytes(), b.as_bytes(), alg, &[Dl::NoneGiven, Dl::Expired, Dl::Fuel(rng.below(4) as u64)], out);
            },
        ),
        family(
            "slice_items",
            "line diffs built from PRE-SPLIT items (TextDiff::configure().diff_slices / from_slices): items drawn from a pool with the empty string, unterminated lines (as str::lines() yields them), terminated lines, items with an EMBEDDED line break and no final one, whitespace-only items; old/new = edited copies so that Replace blocks of several items arise x 3 algorithms x newline_terminated {default, true, false} x inline deadline {None, expired, fuel}",
            false,
            8,
            |cfg| cfg.n(8_000, 160_000),
            |idx, cfg, out| {
                let mut rng = Rng::for_case(cfg.seed, "c16.slice_items", idx);
                const POOL: [&str; 18] = [
                    "", "", "let x = 1;", "let y = 2;", "let x = 12;", "fn main() {", "}", "    ", "a b c", "a b d", "a b c\n", "a b d\n", "soft wrapped\nrecord tail", "soft wrapped\nrecord end", "x\r\ny z", "\n", "w1 w2 w3 w4", "w1 w2 w9 w4",
                ];
                let n = 1 + rng.below(if cfg.tiny { 3 } else { 7 });
                let a: Vec<&str> = (0..n).map(|_| *rng.pick(&POOL)).collect();
                let mut b: Vec<&str> = a.clone();
                for _ in 0..1 + rng.below(3) {
                    let i = rng.below(b.len().max(1));
                    match rng.below(4) {
                        0 if !b.is_empty() => {
                            let j = i.min(b.len() - 1);
                            b[j] = *rng.pick(&POOL);
                        }
                        1 if b.len() > 1 => {
                            b.remove(i.min(b.len() - 1));
                        }
                        2 => b.insert(i.min(b.len()), *rng.pick(&POOL)),
                        _ if !b.is_empty() => {
                            // a near-identical item: last word changed
                            let j = i.min(b.len() - 1);
                            b[j] = match b[j] {
                                "a b c" => "a b d",
                                "a b c\n" => "a b d\n",
                                "let x = 1;" => "let x = 12;",
                                "w1 w2 w3 w4" => "w1 w2 w9 w4",
                                "soft wrapped\nrecord tail" => "soft wrapped\nrecord end",
                                other => other,
                            };
                        }
                        _ => {}
                    }
                }
                let alg = ALGS[rng.below(3)];
                out.sample(|| format!("alg={} old items={:?} new items={:?}", alg_name(alg), a, b));
                let far = far_deadline();
                for nl_override in 0..3u8 {
                    for dl in [Dl::NoneGiven, Dl::Expired, Dl::Fuel(rng.below(3) as u64)] {
                        out.eval();
                        let r = guard(|| {
                            let mut c = TextDiff::configure();
                            c.algorithm(alg);
                            match nl_override {
                                1 => {
                                    c.newline_terminated(true);
                                }
                                2 => {
                                    c.newline_terminated(false);
                                }
                                _ => {}
                            }
                            let d = c.diff_slices(&a, &b);
                            check(&d, dl, far, false)
                        });
                        vh::set_clock(vh::Clock::Off);
                        let ctx = || format!("alg={} TextDiff over pre-split items (diff_slices) inline deadline={:?} newline_terminated override={} old items={:?} new items={:?}", alg_name(alg), dl, ["none", "true", "false"][nl_override as usize], a, b);
                        match r {
                            Err(p) => out.violation("panic", format!("inline expansion panicked: {} | {}", p, ctx())),
                            Ok((fails, counts)) => {
                                out.count_n("emphasised_segments_observed", counts.emphasised);
                                out.count_n("replace_ops_observed", counts.replace_ops);
                                out.count_n("inline_changes_observed", counts.inline_changes);
                                if counts.emphasised > 0 {
                                    out.nontrivial(&(alg_name(alg), &a, &b, nl_override));
                                }
                                for (code, msg) in fails.into_iter().take(4) {
                                    out.violation(code, format!("{} | {}", msg, ctx()));
                                }
                            }
                        }
                    }
                }
            },
        ),
        family(
            "long_lines",
            "a changed line with MANY word tokens: both sides have a line with exactly t tokens for t around 255 / 256 / 999 / 1000 / 1001 / 1023 / 1024 / 2048 / 4096 (words separated by single blanks, so t = 2*words - 1 + terminator), one or two words changed, terminators differing between the sides in half of the cases; plus (every 10th case) a line with 70000 distinct words and one changed x {str,[u8]} x 3 inline deadlines",
            false,
            1,
            |cfg| if cfg.tiny { 2 } else { cfg.tier.pick(60, 600) },
            |idx, cfg, out| {
                let mut rng = Rng::for_case(cfg.seed, "c16.long_lines", idx);
                let huge = idx % 10 == 9 && !cfg.tiny;
                let targets = [255usize, 256, 257, 511, 512, 999, 1000, 1001, 1002, 1023, 1024, 1025, 2047, 2048, 2049, 4095, 4096, 4097];
                let t = if cfg.tiny { 7 } else if huge { 140_001 } else { targets[(idx % targets.len() as u64) as usize] + rng.below(2) * 0 };
                // t tokens = w words + (w-1) blanks + 1 terminator  =>  w = t / 2
                let w = (t / 2).max(1);
                let distinct = huge || rng.chance(1, 2);
                let words: Vec<String> = (0..w).map(|i| if distinct { format!("w{}", i) } else { format!("w{}", rng.below(30)) }).collect();
                let mut words2 = words.clone();
                for _ in 0..1 + rng.below(2) {
                    let i = rng.below(words2.len());
                    words2[i] = format!("changed{}", rng.below(100));
                }
                let t1 = *rng.pick(&["\n", "\r\n", "\r"]);
                let t2 = if rng.chance(1, 2) { t1 } else { *rng.pick(&["\n", "\r\n", "\r", ""]) };
                let head = if rng.chance(1, 2) { "same first line\n" } else { "" };
                // an odd token count needs one extra blank-separated piece
                let pad = if t % 2 == 0 { "" } else { " end" };
                let a = format!("{}{}{}{}", head, words.join(" "), pad, t1);
                let b = format!("{}{}{}{}", head, words2.join(" "), pad, t2);
                out.sample(|| format!("line with {} words (target {} tokens), terminators {:?} / {:?}", w, t, t1, t2));
                out.count("long_line_cases");
                if huge {
                    out.count("lines_with_70000_distinct_words");
                }
                let alg = ALGS[rng.below(2)];
                case(a.as_bytes(), b.as_bytes(), alg, &[Dl::NoneGiven, Dl::Default, Dl::Fuel(rng.below(3) as u64)], out);
            },
        ),
    ]
}
