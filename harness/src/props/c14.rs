//! C14 — a text diff is the sequence diff of its tokens at every size and
//! config; the integer mapping (IdentifyDistinct) is faithful.

use std::ops::{Add, Range};

use similar::algorithms::IdentifyDistinct;
use similar::{capture_diff, capture_diff_slices, Algorithm, DiffOp, DiffableStr, TextDiff};

use crate::engine::{family, guard, Family, Local};
use crate::gen;
use crate::mon::fmt_ops;
use crate::props::common::*;
use crate::rng::Rng;
use crate::text_gen;
use crate::tok_ref::show;

const TOKS: [&str; 6] = ["lines", "words", "chars", "unicode_words", "graphemes", "slices(lines)"];

struct Got {
    ops: Vec<DiffOp>,
    alg: Algorithm,
    nl: bool,
    old_tokens: Vec<Vec<u8>>,
    new_tokens: Vec<Vec<u8>>,
}

fn run_text<T: DiffableStr + ?Sized>(tok: usize, alg: Algorithm, nl_override: Option<bool>, a: &T, b: &T) -> Got {
    let mut c = TextDiff::configure();
    c.algorithm(alg);
    if let Some(x) = nl_override {
        c.newline_terminated(x);
    }
    // every other configuration is used through a CLONE of the builder
    let c = if (a.len() + b.len() + tok) % 2 == 0 { c.clone() } else { c };
    fn pack<'a, T: DiffableStr + ?Sized + 'a>(d: TextDiff<'a, 'a, '_, T>) -> Got {
        Got {
            ops: d.ops().to_vec(),
            alg: d.algorithm(),
            nl: d.newline_terminated(),
            old_tokens: d.old_slices().iter().map(|t| t.as_bytes().to_vec()).collect(),
            new_tokens: d.new_slices().iter().map(|t| t.as_bytes().to_vec()).collect(),
        }
    }
    match tok {
        0 => pack(c.diff_lines(a, b)),
        1 => pack(c.diff_words(a, b)),
        2 => pack(c.diff_chars(a, b)),
        #[cfg(feature = "unicode")]
        3 => pack(c.diff_unicode_words(a, b)),
        #[cfg(feature = "unicode")]
        4 => pack(c.diff_graphemes(a, b)),
        _ => {
            let ta = a.tokenize_lines();
            let tb = b.tokenize_lines();
            pack(c.diff_slices(&ta, &tb))
        }
    }
}

fn tokens_of<T: DiffableStr + ?Sized>(tok: usize, t: &T) -> Vec<Vec<u8>> {
    let v = match tok {
        0 | 5 => t.tokenize_lines(),
        1 => t.tokenize_words(),
        2 => t.tokenize_chars(),
        #[cfg(feature = "unicode")]
        3 => t.tokenize_unicode_words(),
        #[cfg(feature = "unicode")]
        4 => t.tokenize_graphemes(),
        _ => t.tokenize_chars(),
    };
    v.into_iter().map(|x| x.as_bytes().to_vec()).collect()
}

fn text_case(a: &[u8], b: &[u8], toks: &[usize], algs: &[Algorithm], out: &mut Local) {
    let valid = std::str::from_utf8(a).is_ok() && std::str::from_utf8(b).is_ok();
    for &tok in toks {
        #[cfg(not(feature = "unicode"))]
        if tok == 3 || tok == 4 {
            continue;
        }
        for &alg in algs {
            for ty in 0..3u8 {
                let as_str = ty == 1;
                if ty >= 1 && !valid {
                    continue;
                }
                if ty == 2 {
                    // (kept to moderately sized texts: a defect that makes equal tokens unequal turns a
                    // 65 536-line diff into an hour-long one, which would only be seen as a hang)
                    if a.len().max(b.len()) > 120_000 {
                        continue;
                    }
                    odd_case(tok, alg, std::str::from_utf8(a).unwrap(), std::str::from_utf8(b).unwrap(), out);
                    continue;
                }
                if alg == Algorithm::Myers {
                    api_surface_case(tok, as_str, a, b, out);
                }
                for nl_override in [None, Some(true), Some(false)] {
                    let ctx = || {
                        format!(
                            "tokenizer={} alg={} type={} newline_terminated override={:?} old={} new={}",
                            TOKS[tok],
                            alg_name(alg),
                            if as_str { "str" } else { "[u8]" },
                            nl_override,
                            show(a),
                            show(b)
                        )
                    };
                    out.eval();
                    let r = guard(|| {
                        if as_str {
                            let sa = std::str::from_utf8(a).unwrap();
                            let sb = std::str::from_utf8(b).unwrap();
                            (run_text(tok, alg, nl_override, sa, sb), tokens_of(tok, sa), tokens_of(tok, sb))
                        } else {
                            (run_text(tok, alg, nl_override, a, b), tokens_of(tok, a), tokens_of(tok, b))
                        }
                    });
                    let (got, ta, tb) = match r {
                        Err(p) => {
                            out.violation("panic", format!("text diff panicked: {} | {}", p, ctx()));
                            continue;
                        }
                        Ok(x) => x,
                    };
                    if ta.len() > 100 || tb.len() > 100 {
                        out.count("diffs_above_100_tokens");
                    } else {
                        out.count("diffs_up_to_100_tokens");
                    }
                    if got.old_tokens != ta || got.new_tokens != tb {
                        out.violation("text.stored_tokens", format!("old_slices/new_slices are not the tokenizer's tokens | {}", ctx()));
                    }
                    if got.alg != alg {
                        out.violation("text.algorithm", format!("diff reports algorithm {:?} | {}", got.alg, ctx()));
                    }
                    let expect_nl = nl_override.unwrap_or(tok == 0);
                    if got.nl != expect_nl {
                        out.violation("text.newline_terminated", format!("newline_terminated() = {} but expected {} | {}", got.nl, expect_nl, ctx()));
                    }
                    // only once per (tok, alg, type): the sequence diff of the tokens
                    if nl_override.is_none() {
                        out.eval();
                        match guard(|| capture_diff_slices(alg, &ta, &tb)) {
                            Err(p) => out.violation("panic", format!("capture_diff_slices panicked: {} | {}", p, ctx())),
                            Ok(exp) => {
                                if exp != got.ops {
                                    out.violation(
                                        "text.ops_differ_from_sequence_diff",
                                        format!("text diff ops {} but diffing the {}+{} tokens directly gives {} | {}", fmt_ops(&got.ops), ta.len(), tb.len(), fmt_ops(&exp), ctx()),
                                    );
                                }
                            }
                        }
                    }
                }
            }
        }
    }
}

/// The same text as a user-defined `DiffableStr` (`OddStr`: tokens that are equal for the type
/// differ in bytes, U+2028 also ends a line, len/slice count characters): the text diff must be
/// the sequence diff of the type's own tokens under the type's own `Eq`.
fn odd_case(tok: usize, alg: Algorithm, a: &str, b: &str, out: &mut Local) {
    use crate::odd_str::{oddify, OddStr};
    let (ta, tb) = (oddify(a, a.len() as u64 + 1), oddify(b, b.len() as u64 + 2));
    let (oa, ob) = (OddStr::new(&ta), OddStr::new(&tb));
    let ctx = || format!("tokenizer={} alg={} type=OddStr (user-defined: case-insensitive Eq, U+2028 ends a line, char-indexed) old={} new={}", TOKS[tok], alg_name(alg), show(ta.as_bytes()), show(tb.as_bytes()));
    out.eval();
    let r = guard(|| {
        fn toks(tok: usize, t: &OddStr) -> Vec<&OddStr> {
            match tok {
                0 | 5 => t.tokenize_lines(),
                1 => t.tokenize_words(),
                2 => t.tokenize_chars(),
                #[cfg(feature = "unicode")]
                3 => t.tokenize_unicode_words(),
                #[cfg(feature = "unicode")]
                4 => t.tokenize_graphemes(),
                _ => t.tokenize_chars(),
            }
        }
        let (xa, xb) = (toks(tok, oa), toks(tok, ob));
        let want = capture_diff_slices(alg, &xa, &xb);
        let got = run_text(tok, alg, None, oa, ob);
        (got, want, xa.len(), xb.len())
    });
    match r {
        Err(p) => out.violation("panic", format!("text diff over a user-defined DiffableStr panicked: {} | {}", p, ctx())),
        Ok((got, want, na, nb)) => {
            out.count("user_defined_text_type_diffs");
            if na > 100 || nb > 100 {
                out.count("user_defined_text_type_diffs_above_100_tokens");
            }
            if got.ops != want {
                out.violation(
                    "text.ops_differ_from_sequence_diff",
                    format!("text diff ops {} but diffing the {}+{} tokens directly (under the type's own Eq) gives {} | {}", fmt_ops(&got.ops), na, nb, fmt_ops(&want), ctx()),
                );
            }
            if got.alg != alg {
                out.violation("text.algorithm", format!("diff reports algorithm {:?} | {}", got.alg, ctx()));
            }
            if got.nl != (tok == 0) {
                out.violation("text.newline_terminated", format!("newline_terminated() = {} | {}", got.nl, ctx()));
            }
        }
    }
}

/// The one-call constructors (`TextDiff::from_*`) and the reference types accepted through
/// `DiffableStrRef` (String, Cow, Vec<u8>) are the default configuration: Myers, same ops.
fn api_surface_case(tok: usize, as_str: bool, a: &[u8], b: &[u8], out: &mut Local) {
    use std::borrow::Cow;
    let ctx = || format!("tokenizer={} type={} old={} new={}", TOKS[tok], if as_str { "str" } else { "[u8]" }, show(a), show(b));
    out.eval();
    let r = guard(|| -> Vec<(&'static str, Vec<DiffOp>, Algorithm, bool)> {
        let mut v = Vec::new();
        macro_rules! all {
            ($x:expr, $y:expr, $what:expr) => {{
                let d = match tok {
                    0 => TextDiff::from_lines($x, $y),
                    1 => TextDiff::from_words($x, $y),
                    2 => TextDiff::from_chars($x, $y),
                    #[cfg(feature = "unicode")]
                    3 => TextDiff::from_unicode_words($x, $y),
                    #[cfg(feature = "unicode")]
                    4 => TextDiff::from_graphemes($x, $y),
                    _ => TextDiff::from_lines($x, $y),
                };
                v.push(($what, d.ops().to_vec(), d.algorithm(), d.newline_terminated()));
            }};
        }
        if as_str {
            let (sa, sb) = (std::str::from_utf8(a).unwrap(), std::str::from_utf8(b).unwrap());
            all!(sa, sb, "TextDiff::from_*(&str)");
            let (oa, ob) = (sa.to_string(), sb.to_string());
            all!(&oa, &ob, "TextDiff::from_*(&String)");
            let (ca, cb): (Cow<str>, Cow<str>) = (Cow::Borrowed(sa), Cow::Owned(sb.to_string()));
            all!(&ca, &cb, "TextDiff::from_*(&Cow<str>)");
        } else {
            all!(a, b, "TextDiff::from_*(&[u8])");
            let (oa, ob) = (a.to_vec(), b.to_vec());
            all!(&oa, &ob, "TextDiff::from_*(&Vec<u8>)");
            let (ca, cb): (Cow<[u8]>, Cow<[u8]>) = (Cow::Owned(a.to_vec()), Cow::Borrowed(b));
            all!(&ca, &cb, "TextDiff::from_*(&Cow<[u8]>)");
        }
        if tok == 5 {
            v.clear();
            if as_str {
                let (sa, sb) = (std::str::from_utf8(a).unwrap(), std::str::from_utf8(b).unwrap());
                let (ta, tb) = (sa.tokenize_lines(), sb.tokenize_lines());
                let d = TextDiff::from_slices(&ta, &tb);
                v.push(("TextDiff::from_slices(lines of &str)", d.ops().to_vec(), d.algorithm(), d.newline_terminated()));
            } else {
                let (ta, tb) = (a.tokenize_lines(), b.tokenize_lines());
                let d = TextDiff::from_slices(&ta, &tb);
                v.push(("TextDiff::from_slices(lines of &[u8])", d.ops().to_vec(), d.algorithm(), d.newline_terminated()));
            }
        }
        v
    });
    let want = guard(|| {
        if as_str {
            let (sa, sb) = (std::str::from_utf8(a).unwrap(), std::str::from_utf8(b).unwrap());
            capture_diff_slices(Algorithm::Myers, &tokens_of(tok, sa), &tokens_of(tok, sb))
        } else {
            capture_diff_slices(Algorithm::Myers, &tokens_of(tok, a), &tokens_of(tok, b))
        }
    });
    match (r, want) {
        (Err(p), _) | (_, Err(p)) => out.violation("panic", format!("one-call constructor panicked: {} | {}", p, ctx())),
        (Ok(v), Ok(want)) => {
            for (what, ops, alg, nl) in v {
                out.count("one_call_constructor_diffs");
                if ops != want {
                    out.violation("text.ops_differ_from_sequence_diff", format!("{}: ops {} but the Myers diff of the tokens gives {} | {}", what, fmt_ops(&ops), fmt_ops(&want), ctx()));
                }
                if alg != Algorithm::Myers {
                    out.violation("text.algorithm", format!("{}: reports algorithm {:?} (no algorithm was configured; the default is Myers) | {}", what, alg, ctx()));
                }
                if nl != (tok == 0) {
                    out.violation("text.newline_terminated", format!("{}: newline_terminated() = {} | {}", what, nl, ctx()));
                }
            }
        }
    }
}

// ---------------------------------------------------------------------------
// IdentifyDistinct

fn idd_case<Int>(name: &str, a: &[u32], or: Range<usize>, b: &[u32], nr: Range<usize>, alg: Algorithm, out: &mut Local)
where
    Int: Add<Output = Int> + From<u8> + Default + Copy + PartialEq + Eq + std::hash::Hash + Ord + std::fmt::Debug,
{
    let ctx = || format!("IdentifyDistinct::<{}> old={} range {:?} new={} range {:?}", name, fmt_seq(a), or, fmt_seq(b), nr);
    out.eval();
    let idd = match guard(|| IdentifyDistinct::<Int>::new(a, or.clone(), b, nr.clone())) {
        Err(p) => {
            out.violation("panic", format!("new panicked: {} | {}", p, ctx()));
            return;
        }
        Ok(x) => x,
    };
    if idd.old_range() != or || idd.new_range() != nr {
        out.violation("idd.ranges", format!("old_range {:?} / new_range {:?} | {}", idd.old_range(), idd.new_range(), ctx()));
        return;
    }
    let ol = idd.old_lookup();
    let nl = idd.new_lookup();
    let big = or.len() + nr.len() > 600;
    let r = guard(|| {
        let mut fails: Vec<String> = Vec::new();
        if big {
            // too many pairs to enumerate: 60 000 sampled pairs + every adjacent pair
            let mut rng = Rng::new(or.len() as u64 * 31 + nr.len() as u64);
            let pick = |rng: &mut Rng, r: &Range<usize>| r.start + rng.below(r.len());
            for _ in 0..20_000 {
                let (i, j) = (pick(&mut rng, &or), pick(&mut rng, &or));
                if (ol[i] == ol[j]) != (a[i] == a[j]) {
                    fails.push(format!("old[{}] vs old[{}]: items equal = {}, ids {:?} / {:?}", i, j, a[i] == a[j], ol[i], ol[j]));
                }
                let (i, j) = (pick(&mut rng, &or), pick(&mut rng, &nr));
                if (ol[i] == nl[j]) != (a[i] == b[j]) {
                    fails.push(format!("old[{}] vs new[{}]: items equal = {}, ids {:?} / {:?}", i, j, a[i] == b[j], ol[i], nl[j]));
                }
                let (i, j) = (pick(&mut rng, &nr), pick(&mut rng, &nr));
                if (nl[i] == nl[j]) != (b[i] == b[j]) {
                    fails.push(format!("new[{}] vs new[{}]: items equal = {}, ids {:?} / {:?}", i, j, b[i] == b[j], nl[i], nl[j]));
                }
            }
            // the number of distinct ids must equal the number of distinct items
            let ids: std::collections::HashSet<Int> = or.clone().map(|i| ol[i]).chain(nr.clone().map(|j| nl[j])).collect();
            let items: std::collections::HashSet<u32> = or.clone().map(|i| a[i]).chain(nr.clone().map(|j| b[j])).collect();
            if ids.len() != items.len() {
                fails.push(format!("{} distinct ids for {} distinct items", ids.len(), items.len()));
            }
            return fails;
        }
        // ids equal <=> items equal, within and across sides
        for i in or.clone() {
            for j in or.clone() {
                if (ol[i] == ol[j]) != (a[i] == a[j]) {
                    fails.push(format!("old[{}] vs old[{}]: items equal = {}, ids {:?} / {:?}", i, j, a[i] == a[j], ol[i], ol[j]));
                }
            }
            for j in nr.clone() {
                if (ol[i] == nl[j]) != (a[i] == b[j]) {
                    fails.push(format!("old[{}] vs new[{}]: items equal = {}, ids {:?} / {:?}", i, j, a[i] == b[j], ol[i], nl[j]));
                }
            }
        }
        for i in nr.clone() {
            for j in nr.clone() {
                if (nl[i] == nl[j]) != (b[i] == b[j]) {
                    fails.push(format!("new[{}] vs new[{}]: items equal = {}, ids {:?} / {:?}", i, j, b[i] == b[j], nl[i], nl[j]));
                }
            }
        }
        fails
    });
    match r {
        Err(p) => out.violation("panic", format!("lookup panicked inside its range: {} | {}", p, ctx())),
        Ok(fails) => {
            if let Some(f) = fails.first() {
                out.violation("idd.ids_vs_equality", format!("{} ({} disagreements) | {}", f, fails.len(), ctx()));
            }
        }
    }
    // diff through the lookups == diff of the original sub-ranges
    out.eval();
    let through = guard(|| capture_diff(alg, ol, idd.old_range(), nl, idd.new_range()));
    let direct = guard(|| capture_diff(alg, a, or.clone(), b, nr.clone()));
    match (through, direct) {
        (Ok(t), Ok(d)) => {
            if t != d {
                out.violation("idd.diff_differs", format!("alg={}: diff through the lookups {} but diff of the original ranges {} | {}", alg_name(alg), fmt_ops(&t), fmt_ops(&d), ctx()));
            }
        }
        (Err(p), _) => out.violation("panic", format!("alg={}: diff through the lookups panicked: {} | {}", alg_name(alg), p, ctx())),
        (_, Err(p)) => out.violation("panic", format!("alg={}: diff of the original ranges panicked: {} | {}", alg_name(alg), p, ctx())),
    }
}

/// A column of string cells that are spans of ONE shared buffer: `Index<usize, Output = str>` (an
/// unsized item type).  Two columns over the same buffer hold cells that start at the same address.
struct Column<'a> {
    buf: &'a str,
    spans: Vec<(usize, usize)>,
}

impl std::ops::Index<usize> for Column<'_> {
    type Output = str;
    fn index(&self, i: usize) -> &str {
        let (s, l) = self.spans[i];
        &self.buf[s..s + l]
    }
}

pub fn families() -> Vec<Box<dyn Family>> {
    vec![
        family(
            "txt100",
            "G-TXT100: texts with 0,1,50,99,100,101,102,150,400 tokens per side (both sides of the > 100 switch) built from a vocabulary of 3 / 20 / 1000 words with line (LF, CRLF, CR) or blank separators, k token edits x {lines, words, chars, unicode words, graphemes, diff_slices} x 3 algorithms (LCS up to 150 tokens) x {str,[u8]} x newline_terminated override {none,true,false}: ops == capture_diff_slices of the tokens; non-trivial = more than 100 tokens on a side",
            false,
            1,
            |cfg| cfg.n(700, 14_000),
            |idx, cfg, out| {
                let mut rng = Rng::for_case(cfg.seed, "c14.txt100", idx);
                let sizes = [0usize, 1, 50, 99, 100, 101, 102, 150, 400];
                let n = if cfg.tiny { 3 } else { *rng.pick(&sizes) };
                let sep = *rng.pick(&["\n", "\r\n", " ", "\r", "\n"]);
                let vocab = *rng.pick(&[3usize, 20, 1000]);
                let mut ta: Vec<String> = (0..n).map(|_| format!("w{}", rng.below(vocab))).collect();
                let mut tb = ta.clone();
                for _ in 0..rng.below(7) {
                    match rng.below(4) {
                        0 if !tb.is_empty() => {
                            let i = rng.below(tb.len());
                            tb[i] = format!("x{}", rng.below(vocab));
                        }
                        1 if !tb.is_empty() => {
                            let i = rng.below(tb.len());
                            tb.remove(i);
                        }
                        2 if !tb.is_empty() => {
                            let i = rng.below(tb.len());
                            let t = tb[i].clone();
                            tb.insert(i, t);
                        }
                        _ => {
                            let i = rng.below(tb.len() + 1);
                            tb.insert(i, format!("y{}", rng.below(vocab)));
                        }
                    }
                }
                if rng.chance(1, 6) {
                    // make new-only repeated items (the integer mapping must give them one id)
                    let i = rng.below(tb.len() + 1);
                    tb.insert(i, "newonly".into());
                    let j = rng.below(tb.len() + 1);
                    tb.insert(j, "newonly".into());
                    let k = rng.below(tb.len() + 1);
                    tb.insert(k, "newonly".into());
                }
                if rng.chance(1, 4) {
                    std::mem::swap(&mut ta, &mut tb);
                }
                let join = |t: &[String], last: bool| {
                    let mut s = String::new();
                    for (i, w) in t.iter().enumerate() {
                        s.push_str(w);
                        if i + 1 < t.len() || last {
                            s.push_str(sep);
                        }
                    }
                    s
                };
                let a = join(&ta, rng.chance(1, 2));
                let b = join(&tb, rng.chance(1, 2));
                out.sample(|| format!("{} vs {} tokens, separator {:?}, vocabulary {}", ta.len(), tb.len(), sep, vocab));
                if ta.len() > 100 || tb.len() > 100 {
                    out.nontrivial(&(&a, &b));
                }
                let algs: Vec<Algorithm> = if n > 150 { vec![Algorithm::Myers, Algorithm::Patience] } else { ALGS.to_vec() };
                // chars/graphemes of 400-token texts are thousands of tokens: only Myers/Patience
                let toks: Vec<usize> = if n >= 150 { vec![0, 1, 5, 3] } else { vec![0, 1, 2, 3, 4, 5] };
                text_case(a.as_bytes(), b.as_bytes(), &toks, &algs, out);
                if n <= 100 && a.len() + b.len() > 300 {
                    // char-level diffs of the short texts cross the threshold too
                    out.count("char_level_diffs_above_threshold");
                }
            },
        ),
        family(
            "txt_rnd",
            "G-TXT hostile texts (<= 12 lines; every third with invalid UTF-8, [u8] only) x all tokenizers x 3 algorithms x overrides",
            false,
            4,
            |cfg| cfg.n(2_500, 50_000),
            |idx, cfg, out| {
                let mut rng = Rng::for_case(cfg.seed, "c14.txt_rnd", idx);
                let (a, b) = text_gen::text_pair(&mut rng, if cfg.tiny { 2 } else { 12 }, idx % 3 == 0);
                out.sample(|| format!("old={} new={}", show(&a), show(&b)));
                if a != b {
                    out.nontrivial(&(&a, &b));
                }
                let algs: Vec<Algorithm> = if a.len() + b.len() > 400 { vec![Algorithm::Myers, Algorithm::Patience] } else { ALGS.to_vec() };
                text_case(&a, &b, &[0, 1, 2, 3, 4, 5], &algs, out);
            },
        ),
        family(
            "long_texts",
            "long line texts (150..5000 lines; every 12th case above 65536 lines; vocabulary 3 / 40 / unique; <= 12 scattered line edits) x {lines, words, diff_slices} x {Myers, Patience} x {str,[u8]} x overrides: far above the integer-mapping threshold",
            false,
            1,
            |cfg| cfg.n(24, 400),
            |idx, cfg, out| {
                let mut rng = Rng::for_case(cfg.seed, "c14.long_texts", idx);
                let n = if cfg.tiny {
                    5
                } else if idx % 12 == 5 {
                    rng.range(65_537, 67_000)
                } else {
                    *rng.pick(&[150usize, 255, 256, 257, 1000, 5000])
                };
                let (a, b) = text_gen::long_text_pair(&mut rng, n, 12);
                out.sample(|| format!("{} lines; old starts {}", n, show(&a[..a.len().min(60)])));
                out.nontrivial(&(&a, &b));
                if n > 65_536 {
                    out.count("texts_above_65536_tokens");
                }
                let toks: Vec<usize> = if n > 6000 { vec![0, 5] } else { vec![0, 1, 5] };
                text_case(&a, &b, &toks, &[Algorithm::Myers, Algorithm::Patience], out);
            },
        ),
        family(
            "many_edits",
            "line texts with MANY SEPARATE CHANGES: 6000..7500 hunks (thorough up to 9000) between otherwise distinct lines - more than 10000 raw edit calls; every 7th hunk is one the clean-up has to reshape (`q s t` -> `s i s t`) x {Myers, Patience}; and Lcs on a pure block deletion / insertion of 10100..13000 lines next to such a hunk (one raw call per line) x {lines, diff_slices}",
            false,
            1,
            |cfg| if cfg.tiny { 1 } else { cfg.tier.pick(3, 24) },
            |idx, cfg, out| {
                let mut rng = Rng::for_case(cfg.seed, "c14.many_edits", idx);
                let render = |v: &[u32]| -> Vec<u8> {
                    let mut t = Vec::with_capacity(v.len() * 10);
                    for x in v {
                        t.extend_from_slice(format!("l{}\n", x).as_bytes());
                    }
                    t
                };
                if idx % 3 == 2 && !cfg.tiny {
                    let block = rng.range(10_100, 13_000);
                    let head = rng.below(50);
                    let mut a: Vec<u32> = (0..head as u32).map(|i| 1_000_000 + i).collect();
                    let mut b = a.clone();
                    a.extend((0..block as u32).map(|i| 10_000_000 + i));
                    a.extend_from_slice(&[5, 50, 6, 7]);
                    b.extend_from_slice(&[5, 6, 60, 6, 7]);
                    a.extend((0..30u32).map(|i| 2_000_000 + i));
                    b.extend((0..30u32).map(|i| 2_000_000 + i));
                    let (a, b) = if rng.chance(1, 2) { (a, b) } else { (b, a) };
                    out.sample(|| format!("Lcs: block of {} lines on one side only", block));
                    out.count("many_edits_lcs_block_cases");
                    let (ta, tb) = (render(&a), render(&b));
                    out.nontrivial(&(&ta, &tb));
                    text_case(&ta, &tb, &[0, 5], &[Algorithm::Lcs], out);
                    return;
                }
                let hunks = if cfg.tiny { 8 } else { rng.range(6000, cfg.tier.pick(7500, 9_000)) };
                let (a, b, _) = gen::many_hunks_pair(hunks);
                let (a, b) = if rng.chance(1, 2) { (a, b) } else { (b, a) };
                let alg = if idx % 2 == 0 { Algorithm::Myers } else { Algorithm::Patience };
                out.sample(|| format!("{} hunks, {} / {} lines", hunks, a.len(), b.len()));
                out.count("many_edits_cases");
                let (ta, tb) = (render(&a), render(&b));
                out.nontrivial(&(&ta, &tb));
                text_case(&ta, &tb, &[0, 5], &[alg], out);
            },
        ),
        family(
            "distinct_boundary",
            "texts of n DISTINCT lines with n just below 256 / 1000 / 1024 / 2048 / 4096 / 8192 / 32768 / 65536 where the new text swaps a block for up to 900 fresh lines, so that the number of distinct tokens on both sides together crosses the boundary while each side stays below it x lines tokenizer x {Myers, Patience} x {str,[u8]}",
            true,
            1,
            |cfg| if cfg.tiny { 1 } else { cfg.tier.pick(16, 48) },
            |idx, cfg, out| {
                let mut rng = Rng::for_case(cfg.seed, "c14.distinct_boundary", idx);
                let bound = if cfg.tiny { 8 } else { text_gen::BOUNDARIES[(idx % 8) as usize] };
                // both sides have n < bound lines; together they have n + fresh > bound distinct lines
                let n = bound - 1 - rng.below(bound.min(400) / 4 + 1);
                let fresh = (rng.range(bound - n + 1, (bound - n + 1) + bound.min(900))).min(n);
                let (a, b) = text_gen::distinct_lines_pair(&mut rng, n, fresh, fresh);
                out.sample(|| format!("{} distinct old lines, {} fresh new lines (boundary {})", n, fresh, bound));
                out.nontrivial(&(&a, &b));
                out.count("distinct_token_boundary_cases");
                text_case(&a, &b, &[0, 5], &[Algorithm::Myers, Algorithm::Patience], out);
            },
        ),
        family(
            "windowed_large",
            "texts of 4200 / 5000 / 9000 DISTINCT lines whose edits are confined to a window of a few lines (incl. two adjacent lines swapped): cheap for ALL THREE algorithms, so Lcs text diffs far above 4096 x 4096 tokens are compared with the direct Lcs sequence diff",
            false,
            1,
            |cfg| if cfg.tiny { 1 } else { cfg.tier.pick(9, 45) },
            |idx, cfg, out| {
                let mut rng = Rng::for_case(cfg.seed, "c14.windowed_large", idx);
                let n = if cfg.tiny { 6 } else { [4200usize, 5000, 9000][(idx % 3) as usize] };
                let la: Vec<String> = (0..n).map(|i| format!("line {}\n", i)).collect();
                let mut lb = la.clone();
                let at = rng.below(n - 4);
                match rng.below(3) {
                    0 => lb.swap(at, at + 1),
                    1 => {
                        lb.swap(at, at + 1);
                        lb[at + 3] = "changed\n".into();
                    }
                    _ => {
                        lb.remove(at);
                        lb.insert(at + 2, "fresh\n".into());
                    }
                }
                let a = la.concat().into_bytes();
                let b = lb.concat().into_bytes();
                out.sample(|| format!("{} distinct lines, edits near line {}", n, at));
                out.nontrivial(&(n, at, idx));
                out.count("windowed_large_cases");
                text_case(&a, &b, &[0, 5], &ALGS, out);
            },
        ),
        family(
            "asymmetric_blocks",
            "a block of 10..6000 lines replaced by 10..6000 unrelated lines between common head and tail x lines tokenizer x {Myers, Patience} x {str,[u8]}",
            false,
            1,
            |cfg| if cfg.tiny { 1 } else { cfg.tier.pick(6, 48) },
            |idx, cfg, out| {
                let mut rng = Rng::for_case(cfg.seed, "c14.asymmetric_blocks", idx);
                let (l1, l2) = if cfg.tiny { (5, 1) } else { (*rng.pick(&text_gen::BLOCK_SIZES), *rng.pick(&text_gen::BLOCK_SIZES)) };
                let (head, tail) = (rng.below(200), rng.below(200));
                let (a, b) = text_gen::asymmetric_lines_pair(&mut rng, head, tail, l1, l2);
                out.sample(|| format!("{} head lines, block of {} lines replaced by {} lines, {} tail lines", head, l1, l2, tail));
                out.nontrivial(&(head, tail, l1, l2));
                text_case(&a, &b, &[0], &[Algorithm::Myers, Algorithm::Patience], out);
            },
        ),
        family(
            "structured_and_weak_hash",
            "(a) token sequences with special STRUCTURE above the threshold (old a pure prefix / suffix / rotation / reversal / doubling of new, palindromes, all-equal, halves swapped; 90..300 line tokens) and (b) the same texts as a USER-DEFINED DiffableStr type whose Hash only feeds the token length (legal; all equally long tokens collide): ops == capture_diff_slices of the tokens x 3 algorithms",
            false,
            4,
            |cfg| cfg.n(2_000, 40_000),
            |idx, cfg, out| {
                let mut rng = Rng::for_case(cfg.seed, "c14.structured", idx);
                let (mut a, mut b, kind) = gen::structured_pair(&mut rng, if cfg.tiny { 6 } else { 160 });
                // push both sides over / around the threshold by a common structured extension
                if !cfg.tiny && rng.chance(2, 3) {
                    let pad: Vec<u32> = (0..rng.range(60, 110) as u32).map(|i| i % 4).collect();
                    if rng.chance(1, 2) {
                        a.extend_from_slice(&pad);
                        b.extend_from_slice(&pad);
                    } else {
                        let mut a2 = pad.clone();
                        a2.extend_from_slice(&a);
                        let mut b2 = pad.clone();
                        b2.extend_from_slice(&b);
                        a = a2;
                        b = b2;
                    }
                }
                let ta: String = a.iter().map(|x| format!("l{:04}\n", x)).collect();
                let tb: String = b.iter().map(|x| format!("l{:04}\n", x)).collect();
                out.sample(|| format!("structure={} {} vs {} line tokens", kind, a.len(), b.len()));
                if a.len() > 100 || b.len() > 100 {
                    out.nontrivial(&(&a, &b));
                }
                let algs: Vec<Algorithm> = if a.len().max(b.len()) > 200 { vec![Algorithm::Myers, Algorithm::Patience] } else { ALGS.to_vec() };
                text_case(ta.as_bytes(), tb.as_bytes(), &[0, 5], &algs, out);
                // (b) weak-hash text type
                for &alg in &algs {
                    out.eval();
                    let r = guard(|| {
                        let (wa, wb) = (crate::mon::WeakStr::new(&ta), crate::mon::WeakStr::new(&tb));
                        let d = TextDiff::configure().algorithm(alg).diff_lines(wa, wb);
                        let toks_a: Vec<&str> = ta.tokenize_lines();
                        let toks_b: Vec<&str> = tb.tokenize_lines();
                        (d.ops().to_vec(), capture_diff_slices(alg, &toks_a, &toks_b))
                    });
                    match r {
                        Err(p) => out.violation("panic", format!("text diff over a user-defined DiffableStr panicked: {} | structure={}", p, kind)),
                        Ok((got, want)) => {
                            out.count("weak_hash_text_diffs");
                            if got != want {
                                out.violation(
                                    "text.ops_differ_from_sequence_diff",
                                    format!("user-defined DiffableStr with a length-only Hash: text diff ops {} but the sequence diff of the tokens gives {} | alg={} structure={} old tokens={} new tokens={}", fmt_ops(&got), fmt_ops(&want), alg_name(alg), kind, fmt_seq(&a), fmt_seq(&b)),
                                );
                            }
                        }
                    }
                }
            },
        ),
        family(
            "config_sequences",
            "builder configurations under which no deadline can cut the diff short must give exactly the sequence diff of the tokens: deadline(instant in the past) followed by timeout(1 h) or by deadline(1 h ahead) on the same builder (the later setter replaces the earlier one), clones of such builders; line texts of 5 / 60 / 150 tokens x 3 algorithms",
            true,
            1,
            |cfg| if cfg.tiny { 1 } else { cfg.tier.pick(6, 18) },
            |idx, cfg, out| {
                let mut rng = Rng::for_case(cfg.seed, "c14.config_sequences", idx);
                let n = if cfg.tiny { 5 } else { [5usize, 60, 150][(idx % 3) as usize] };
                let alg = ALGS[(idx / 3 % 3) as usize];
                let a: Vec<u32> = (0..n).map(|_| rng.below(n / 2 + 2) as u32).collect();
                let b = gen::point_edits(&mut rng, &a, 4, (n / 2 + 2) as u32, n + 8);
                let ta: String = a.iter().map(|x| format!("line {}\n", x)).collect();
                let tb: String = b.iter().map(|x| format!("line {}\n", x)).collect();
                out.sample(|| format!("alg={} {} / {} lines", alg_name(alg), a.len(), b.len()));
                out.nontrivial(&(alg_name(alg), &a, &b));
                let want = guard(|| capture_diff_slices(alg, &ta.tokenize_lines(), &tb.tokenize_lines()));
                let past = std::time::Instant::now().checked_sub(std::time::Duration::from_secs(5)).unwrap_or_else(std::time::Instant::now);
                let mut runs: Vec<(&'static str, Result<Vec<DiffOp>, String>)> = Vec::new();
                out.evals_add(4);
                runs.push(("deadline(5 s ago) then timeout(1 h)", guard(|| {
                    let mut c = TextDiff::configure();
                    c.algorithm(alg).deadline(past).timeout(std::time::Duration::from_secs(3600));
                    c.diff_lines(&ta, &tb).ops().to_vec()
                })));
                runs.push(("deadline(5 s ago) then timeout(1 h), cloned", guard(|| {
                    let mut c = TextDiff::configure();
                    c.algorithm(alg).deadline(past).timeout(std::time::Duration::from_secs(3600));
                    c.clone().diff_lines(&ta, &tb).ops().to_vec()
                })));
                runs.push(("deadline(5 s ago) then deadline(1 h ahead)", guard(|| {
                    let mut c = TextDiff::configure();
                    c.algorithm(alg).deadline(past).deadline(std::time::Instant::now() + std::time::Duration::from_secs(3600));
                    c.diff_lines(&ta, &tb).ops().to_vec()
                })));
                // (a timeout that has elapsed between configuring the builder and using it would need real
                // time as the verdict; that plumbing question is decided by C07 from the Instant that reaches
                // the deadline check, independent of machine load)
                runs.push(("timeout(1 h), cloned twice", guard(|| {
                    let mut c = TextDiff::configure();
                    c.algorithm(alg).timeout(std::time::Duration::from_secs(3600));
                    c.clone().clone().diff_lines(&ta, &tb).ops().to_vec()
                })));
                match want {
                    Err(p) => out.violation("panic", format!("capture_diff_slices panicked: {}", p)),
                    Ok(want) => {
                        for (what, r) in runs {
                            match r {
                                Err(p) => out.violation("panic", format!("{}: panicked: {} | alg={}", what, p, alg_name(alg))),
                                Ok(got) => {
                                    out.count("config_sequences_verified");
                                    if got != want {
                                        out.violation(
                                            "text.ops_differ_from_sequence_diff",
                                            format!("builder configured with {}: text diff ops {} but the sequence diff of the tokens gives {} | alg={} old={} new={}", what, fmt_ops(&got), fmt_ops(&want), alg_name(alg), show(ta.as_bytes()), show(tb.as_bytes())),
                                        );
                                    }
                                }
                            }
                        }
                    }
                }
            },
        ),
        family(
            "identify_distinct_capacity",
            "IdentifyDistinct at the exact capacity of its integer type: 255 and 256 distinct items for u8, 65535 and 65536 for u16 (ids 0..=MAX are all needed and all fit), at non-zero offsets; ids vs equality on sampled pairs, ranges, diff through the lookups vs direct diff",
            true,
            1,
            |cfg| if cfg.tiny { 2 } else { 8 },
            |idx, cfg, out| {
                let mut rng = Rng::for_case(cfg.seed, "c14.idd_capacity", idx);
                let (bits16, distinct) = match idx % 4 {
                    0 => (false, 255usize),
                    1 => (false, 256),
                    2 => (true, 65_535),
                    _ => (true, 65_536),
                };
                let distinct = if cfg.tiny { 250 + (idx as usize % 2) * 6 } else { distinct };
                // old holds distinct - k distinct items (a few repeated); new replaces a block of k
                // of them by k fresh items: together exactly `distinct` items, small edit distance
                let k = 1 + rng.below(40);
                let n_old = distinct - k;
                let mut a: Vec<u32> = (0..n_old as u32).collect();
                let at = rng.below(n_old - k + 1);
                let mut b: Vec<u32> = a[..at].to_vec();
                b.extend((0..k as u32).map(|i| 1_000_000 + i));
                b.extend_from_slice(&a[at + k..]);
                for v in [&mut a, &mut b] {
                    for _ in 0..rng.below(6) {
                        let i = rng.below(v.len());
                        let x = v[i];
                        v.insert(i, x);
                    }
                }
                let (po, pn) = (1 + rng.below(3), rng.below(3));
                let mut pa = vec![a[0]; po];
                pa.extend_from_slice(&a);
                let mut pb = vec![b[0]; pn];
                pb.extend_from_slice(&b);
                let (or, nr) = (po..po + a.len(), pn..pn + b.len());
                out.sample(|| format!("{} distinct items for {}: old {} items, new {} items, offsets {} / {}", distinct, if bits16 && !cfg.tiny { "u16" } else { "u8" }, a.len(), b.len(), po, pn));
                out.nontrivial(&(distinct, idx));
                out.count("capacity_cases");
                if bits16 && !cfg.tiny {
                    idd_case::<u16>("u16", &pa, or, &pb, nr, Algorithm::Myers, out);
                } else {
                    idd_case::<u8>("u8", &pa, or, &pb, nr, Algorithm::Myers, out);
                }
            },
        ),
        family(
            "identify_distinct_unsized_views",
            "IdentifyDistinct over user-defined containers whose items are UNSIZED (`Index<usize, Output = str>`): old and new are two columns of spans over ONE shared buffer, so cells at the same position often start at the same address but differ in length (`de` against `d`, an empty cell against data): ids equal <=> cells equal (all pairs, within and across sides), diff through the lookups == diff of the columns x 3 algorithms",
            false,
            16,
            |cfg| cfg.n(4_000, 80_000),
            |idx, cfg, out| {
                let mut rng = Rng::for_case(cfg.seed, "c14.idd_unsized", idx);
                let alpha = *rng.pick(&[1usize, 2, 3]);
                let buf: String = (0..if cfg.tiny { 8 } else { 24 }).map(|_| (b'a' + rng.below(alpha) as u8) as char).collect();
                let n = 1 + rng.below(if cfg.tiny { 4 } else { 12 });
                let old_spans: Vec<(usize, usize)> = (0..n).map(|_| { let s = rng.below(buf.len()); (s, rng.below((buf.len() - s).min(4) + 1)) }).collect();
                let new_spans: Vec<(usize, usize)> = (0..n + rng.below(3))
                    .map(|i| match old_spans.get(i) {
                        // same start, maybe another length
                        Some((s, l)) if rng.chance(2, 3) => (*s, if rng.chance(1, 2) { *l } else { rng.below((buf.len() - s).min(4) + 1) }),
                        _ => { let s = rng.below(buf.len()); (s, rng.below((buf.len() - s).min(4) + 1)) }
                    })
                    .collect();
                let old = Column { buf: &buf, spans: old_spans };
                let new = Column { buf: &buf, spans: new_spans };
                let (lo, ln) = (old.spans.len(), new.spans.len());
                let cells = |c: &Column| -> Vec<String> { (0..c.spans.len()).map(|i| c[i].to_string()).collect() };
                let ctx = || format!("buffer {:?} old cells {:?} new cells {:?}", buf, cells(&old), cells(&new));
                out.sample(ctx);
                out.nontrivial(&(&buf, &old.spans, &new.spans));
                out.eval();
                let r = guard(|| {
                    let idd = IdentifyDistinct::<u32>::new(&old, 0..lo, &new, 0..ln);
                    let (ol, nl) = (idd.old_lookup(), idd.new_lookup());
                    let mut fails: Vec<String> = Vec::new();
                    for i in 0..lo {
                        for j in 0..lo {
                            if (ol[i] == ol[j]) != (old[i] == old[j]) {
                                fails.push(format!("old[{}] = {:?} vs old[{}] = {:?}: ids {} / {}", i, &old[i], j, &old[j], ol[i], ol[j]));
                            }
                        }
                        for j in 0..ln {
                            if (ol[i] == nl[j]) != (old[i] == new[j]) {
                                fails.push(format!("old[{}] = {:?} vs new[{}] = {:?}: ids {} / {}", i, &old[i], j, &new[j], ol[i], nl[j]));
                            }
                        }
                    }
                    for i in 0..ln {
                        for j in 0..ln {
                            if (nl[i] == nl[j]) != (new[i] == new[j]) {
                                fails.push(format!("new[{}] = {:?} vs new[{}] = {:?}: ids {} / {}", i, &new[i], j, &new[j], nl[i], nl[j]));
                            }
                        }
                    }
                    let alg = ALGS[(lo + ln) % 3];
                    let through = capture_diff(alg, ol, idd.old_range(), nl, idd.new_range());
                    let direct = capture_diff(alg, &old, 0..lo, &new, 0..ln);
                    if through != direct {
                        fails.push(format!("alg={}: diff through the lookups {} but diff of the columns {}", alg_name(alg), fmt_ops(&through), fmt_ops(&direct)));
                    }
                    fails
                });
                match r {
                    Err(p) => out.violation("panic", format!("IdentifyDistinct over unsized cells panicked: {} | {}", p, ctx())),
                    Ok(fails) => {
                        if let Some(f) = fails.first() {
                            out.violation("idd.ids_vs_equality", format!("{} ({} disagreements) | {}", f, fails.len(), ctx()));
                        }
                    }
                }
            },
        ),
        family(
            "identify_distinct",
            "IdentifyDistinct::<u8|u16|u32|u64|usize> over seeded random pairs (<= 60 items, alphabets 1..50; u8 only with <= 200 distinct items) with random NON-ZERO sub-range offsets: ids equal <=> items equal within and across sides, ranges preserved, diff through the lookups == diff of the original sub-ranges x 3 algorithms; items repeated only on the new side included",
            false,
            16,
            |cfg| cfg.n(20_000, 400_000),
            |idx, cfg, out| {
                let mut rng = Rng::for_case(cfg.seed, "c14.idd", idx);
                let (mut a, mut b) = gen::rand_pair(&mut rng, if cfg.tiny { 6 } else { 40 });
                for v in [&mut a, &mut b] {
                    for x in v.iter_mut() {
                        *x %= 50;
                    }
                }
                if rng.chance(1, 3) {
                    // new-only repeated item
                    for _ in 0..3 {
                        let i = rng.below(b.len() + 1);
                        b.insert(i, 777);
                    }
                }
                // pad so that sub-ranges start at non-zero offsets
                let (po, pn) = (rng.below(4), rng.below(4));
                let mut pa = vec![900u32; po];
                pa.extend_from_slice(&a);
                pa.push(901);
                let mut pb = vec![902u32; pn];
                pb.extend_from_slice(&b);
                pb.push(903);
                let (or, nr) = if rng.chance(1, 2) {
                    (po..po + a.len(), pn..pn + b.len())
                } else {
                    gen::rand_ranges(&mut rng, pa.len(), pb.len())
                };
                let alg = ALGS[rng.below(3)];
                out.sample(|| format!("old={} range {:?} new={} range {:?}", fmt_seq(&pa), or, fmt_seq(&pb), nr));
                if or.start > 0 || nr.start > 0 {
                    out.nontrivial(&(&pa, or.start, or.end, &pb, nr.start, nr.end));
                }
                match idx % 5 {
                    0 => idd_case::<u8>("u8", &pa, or, &pb, nr, alg, out),
                    1 => idd_case::<u16>("u16", &pa, or, &pb, nr, alg, out),
                    2 => idd_case::<u32>("u32", &pa, or, &pb, nr, alg, out),
                    3 => idd_case::<u64>("u64", &pa, or, &pb, nr, alg, out),
                    _ => idd_case::<usize>("usize", &pa, or, &pb, nr, alg, out),
                }
            },
        ),
    ]
}
