//! C18 — get_close_matches equals exhaustive ranking by similarity ratio
//! (reference R-RANK: brute force over all candidates with an LCS dynamic
//! program on chars).

use similar::get_close_matches;

use crate::engine::{family, guard, Family, Local};
use crate::mon::lcs_len;
use crate::rng::Rng;

fn ratio(a: &str, b: &str) -> f32 {
    let ca: Vec<char> = a.chars().collect();
    let cb: Vec<char> = b.chars().collect();
    let n = ca.len() + cb.len();
    if n == 0 {
        1.0
    } else {
        2.0 * lcs_len(&ca, &cb) as f32 / n as f32
    }
}

/// brute-force ranking; None when two distinct kept ratios are closer than the
/// u32 quantisation of the heap key can tell apart (never generated here)
fn reference(word: &str, cands: &[&str], n: usize, cutoff: f32) -> Option<Vec<String>> {
    let mut kept: Vec<(f32, &str)> = cands.iter().map(|c| (ratio(word, c), *c)).filter(|(r, _)| *r >= cutoff).collect();
    for i in 0..kept.len() {
        for j in 0..kept.len() {
            let (x, y) = (kept[i].0, kept[j].0);
            if x != y && (x - y).abs() < 1.0 / 256.0 / 65536.0 {
                return None;
            }
        }
    }
    kept.sort_by(|a, b| b.0.partial_cmp(&a.0).unwrap().then_with(|| a.1.cmp(b.1)));
    Some(kept.into_iter().take(n).map(|x| x.1.to_string()).collect())
}

const ALPHABET: [&str; 7] = ["a", "b", "c", "é", "l", "o", "日"];

fn rand_word(rng: &mut Rng, max: usize) -> String {
    let l = rng.below(max + 1);
    (0..l).map(|_| *rng.pick(&ALPHABET)).collect()
}

fn mutate(rng: &mut Rng, w: &str) -> String {
    let mut c: Vec<char> = w.chars().collect();
    for _ in 0..1 + rng.below(2) {
        match rng.below(4) {
            0 if !c.is_empty() => {
                let i = rng.below(c.len());
                c.remove(i);
            }
            1 => {
                let i = rng.below(c.len() + 1);
                c.insert(i, rng.pick(&ALPHABET).chars().next().unwrap());
            }
            2 if !c.is_empty() => {
                let i = rng.below(c.len());
                c[i] = rng.pick(&ALPHABET).chars().next().unwrap();
            }
            _ if c.len() >= 2 => {
                let i = rng.below(c.len() - 1);
                c.swap(i, i + 1);
            }
            _ => {}
        }
    }
    c.into_iter().collect()
}

fn check(word: &str, cands: &[&str], n: usize, cutoff: f32, out: &mut Local) {
    out.eval();
    let ctx = || format!("word={:?} candidates={:?} n={} cutoff={}", word, cands, n, cutoff);
    let expect = match reference(word, cands, n, cutoff) {
        Some(e) => e,
        None => {
            out.count("skipped_ratios_closer_than_key_quantisation");
            return;
        }
    };
    match guard(|| get_close_matches(word, cands, n, cutoff).into_iter().map(|s| s.to_string()).collect::<Vec<String>>()) {
        Err(p) => out.violation("panic", format!("get_close_matches panicked: {} | {}", p, ctx())),
        Ok(got) => {
            if !expect.is_empty() {
                out.count("calls_with_nonempty_result");
            }
            if expect.len() == n && n > 0 {
                out.count("calls_truncated_at_n");
            }
            if got != expect {
                let ratios: Vec<(String, f32)> = cands.iter().map(|c| (c.to_string(), ratio(word, c))).collect();
                out.violation(
                    "close_matches.differs_from_exhaustive_ranking",
                    format!("got {:?} but exhaustive ranking gives {:?} | {} | ratios={:?}", got, expect, ctx(), ratios),
                );
            }
        }
    }
}

pub fn families() -> Vec<Box<dyn Family>> {
    vec![
        family(
            "rnd",
            "seeded random word (<= 8 chars over {a,b,c,é,l,o,日}) and 0..=8 candidates (independent words, 1-2 edit mutations of the word, sub/supersequences, duplicates, the empty string) x n in 0..=5 x cutoffs {0, 1, every ratio that some candidate hits EXACTLY, its f32 neighbours, k/100}; non-trivial = non-empty result",
            false,
            32,
            |cfg| cfg.n(40_000, 800_000),
            |idx, cfg, out| {
                let mut rng = Rng::for_case(cfg.seed, "c18.rnd", idx);
                let word = rand_word(&mut rng, if cfg.tiny { 3 } else { 8 });
                let k = rng.below(9);
                let mut cands: Vec<String> = Vec::new();
                for _ in 0..k {
                    let c = match rng.below(7) {
                        0 | 1 => rand_word(&mut rng, 8),
                        2 | 3 => mutate(&mut rng, &word),
                        4 => {
                            // supersequence / subsequence
                            let mut c: Vec<char> = word.chars().collect();
                            if rng.chance(1, 2) {
                                for _ in 0..1 + rng.below(3) {
                                    let i = rng.below(c.len() + 1);
                                    c.insert(i, rng.pick(&ALPHABET).chars().next().unwrap());
                                }
                            } else {
                                for _ in 0..1 + rng.below(2) {
                                    if !c.is_empty() {
                                        let i = rng.below(c.len());
                                        c.remove(i);
                                    }
                                }
                            }
                            c.into_iter().collect()
                        }
                        5 if !cands.is_empty() => cands[rng.below(cands.len())].clone(),
                        _ => {
                            if rng.chance(1, 3) {
                                String::new()
                            } else {
                                word.clone()
                            }
                        }
                    };
                    cands.push(c);
                }
                let refs: Vec<&str> = cands.iter().map(|s| s.as_str()).collect();
                out.sample(|| format!("word={:?} candidates={:?}", word, refs));
                let mut cutoffs: Vec<f32> = vec![0.0, 1.0, 0.6, rng.below(101) as f32 / 100.0];
                for c in &refs {
                    let r = ratio(&word, c);
                    cutoffs.push(r);
                    cutoffs.push(f32::from_bits(r.to_bits().wrapping_add(1)));
                    if r > 0.0 {
                        cutoffs.push(f32::from_bits(r.to_bits() - 1));
                    }
                }
                cutoffs.retain(|c| (0.0..=1.0).contains(c));
                cutoffs.sort_by(|a, b| a.partial_cmp(b).unwrap());
                cutoffs.dedup();
                let mut nonempty = false;
                for &cutoff in &cutoffs {
                    for n in [0usize, 1, 2, 3, 5] {
                        check(&word, &refs, n, cutoff, out);
                    }
                    if refs.iter().any(|c| ratio(&word, c) >= cutoff) {
                        nonempty = true;
                    }
                }
                if nonempty {
                    out.nontrivial(&(&word, &cands));
                }
            },
        ),
        family(
            "rotations",
            "tie handling at the truncation boundary: candidate lists made of groups with EQUAL ratio to the word (same multiset edits in different places), every rotation of the list x every n",
            false,
            16,
            |cfg| cfg.n(4_000, 80_000),
            |idx, cfg, out| {
                let mut rng = Rng::for_case(cfg.seed, "c18.rotations", idx);
                let word = {
                    let mut w = rand_word(&mut rng, 6);
                    while w.chars().count() < 3 {
                        w.push('a');
                    }
                    w
                };
                // candidates that replace one position of the word by distinct fresh letters: all tie
                let chars: Vec<char> = word.chars().collect();
                let mut cands: Vec<String> = Vec::new();
                for (k, fresh) in ['z', 'y', 'x', 'w', 'v'].iter().enumerate().take(2 + rng.below(4)) {
                    let mut c = chars.clone();
                    let i = (k + rng.below(3)) % c.len();
                    c[i] = *fresh;
                    cands.push(c.into_iter().collect());
                }
                if rng.chance(1, 2) {
                    cands.push(word.clone());
                }
                let rot = rng.below(cands.len());
                cands.rotate_left(rot);
                let refs: Vec<&str> = cands.iter().map(|s| s.as_str()).collect();
                out.sample(|| format!("word={:?} candidates={:?}", word, refs));
                out.nontrivial(&(&word, &cands));
                if cfg.tiny && idx > 3 {
                    return;
                }
                for n in 0..=cands.len() + 1 {
                    for cutoff in [0.0f32, 0.5, 0.6, ratio(&word, refs[0])] {
                        check(&word, &refs, n, cutoff, out);
                    }
                }
            },
        ),
    ]
}
