//! C18 — get_close_matches equals exhaustive ranking by similarity ratio
//! (reference R-RANK: brute force over all candidates with an LCS dynamic
//! program on chars).

use similar::get_close_matches;

use crate::engine::{family, guard, Family, Local};
use crate::mon::lcs_len;
use crate::rng::Rng;

fn ratio(a: &str, b: &str) -> f32 {
    let ca: Vec<char> = a.chars().collect();
    let cb: Vec<char> = b.chars().collect();
    let n = ca.len() + cb.len();
    if n == 0 {
        1.0
    } else {
        2.0 * lcs_len(&ca, &cb) as f32 / n as f32
    }
}

/// brute-force ranking; None when two distinct kept ratios are closer than the
/// u32 quantisation of the heap key can tell apart (never generated here)
fn reference(word: &str, cands: &[&str], n: usize, cutoff: f32) -> Option<Vec<String>> {
    let mut kept: Vec<(f32, &str)> = cands.iter().map(|c| (ratio(word, c), *c)).filter(|(r, _)| *r >= cutoff).collect();
    for i in 0..kept.len() {
        for j in 0..kept.len() {
            let (x, y) = (kept[i].0, kept[j].0);
            if x != y && (x - y).abs() < 1.0 / 256.0 / 65536.0 {
                return None;
            }
        }
    }
    kept.sort_by(|a, b| b.0.partial_cmp(&a.0).unwrap().then_with(|| a.1.cmp(b.1)));
    Some(kept.into_iter().take(n).map(|x| x.1.to_string()).collect())
}

const ALPHABET: [&str; 7] = ["a", "b", "c", "é", "l", "o", "日"];

fn rand_word(rng: &mut Rng, max: usize) -> String {
    let l = rng.below(max + 1);
    (0..l).map(|_| *rng.pick(&ALPHABET)).collect()
}

fn mutate(rng: &mut Rng, w: &str) -> String {
    let mut c: Vec<char> = w.chars().collect();
    for _ in 0..1 + rng.below(2) {
        match rng.below(4) {
            0 if !c.is_empty() => {
                let i = rng.below(c.len());
                c.remove(i);
            }
            1 => {
                let i = rng.below(c.len() + 1);
                c.insert(i, rng.pick(&ALPHABET).chars().next().unwrap());
            }
            2 if !c.is_empty() => {
                let i = rng.below(c.len());
                c[i] = rng.pick(&ALPHABET).chars().next().unwrap();
            }
            _ if c.len() >= 2 => {
                let i = rng.below(c.len() - 1);
                c.swap(i, i + 1);
            }
            _ => {}
        }
    }
    c.into_iter().collect()
}

fn check(word: &str, cands: &[&str], n: usize, cutoff: f32, out: &mut Local) {
    out.eval();
    let ctx = || format!("word={:?} candidates={:?} n={} cutoff={}", word, cands, n, cutoff);
    let expect = match reference(word, cands, n, cutoff) {
        Some(e) => e,
        None => {
            out.count("skipped_ratios_closer_than_key_quantisation");
            return;
        }
    };
    match guard(|| get_close_matches(word, cands, n, cutoff).into_iter().map(|s| s.to_string()).collect::<Vec<String>>()) {
        Err(p) => out.violation("panic", format!("get_close_matches panicked: {} | {}", p, ctx())),
        Ok(got) => {
            if !expect.is_empty() {
                out.count("calls_with_nonempty_result");
            }
            if expect.len() == n && n > 0 {
                out.count("calls_truncated_at_n");
            }
            if got != expect {
                let ratios: Vec<(String, f32)> = cands.iter().map(|c| (c.to_string(), ratio(word, c))).collect();
                out.violation(
                    "close_matches.differs_from_exhaustive_ranking",
                    format!("got {:?} but exhaustive ranking gives {:?} | {} | ratios={:?}", got, expect, ctx(), ratios),
                );
            }
        }
    }
}

pub fn families() -> Vec<Box<dyn Family>> {
    vec![
        family(
            "rnd",
            "seeded random word (<= 8 chars over {a,b,c,é,l,o,日}) and 0..=8 candidates (independent words, 1-2 edit mutations of the word, sub/supersequences, duplicates, the empty string) x n in 0..=5 x cutoffs {0, 1, every ratio that some candidate hits EXACTLY, its f32 neighbours, k/100}; non-trivial = non-empty result",
            false,
            32,
            |cfg| cfg.n(40_000, 800_000),
            |idx, cfg, out| {
                let mut rng = Rng::for_case(cfg.seed, "c18.rnd", idx);
                let word = rand_word(&mut rng, if cfg.tiny { 3 } else { 8 });
                let k = rng.below(9);
                let mut cands: Vec<String> = Vec::new();
                for _ in 0..k {
                    let c = match rng.below(7) {
                        0 | 1 => rand_word(&mut rng, 8),
                        2 | 3 => mutate(&mut rng, &word),
                        4 => {
                            // supersequence / subsequence
                            let mut c: Vec<char> = word.chars().collect();
                            if rng.chance(1, 2) {
                                for _ in 0..1 + rng.below(3) {
                                    let i = rng.below(c.len() + 1);
                                    c.insert(i, rng.pick(&ALPHABET).chars().next().unwrap());
                                }
                            } else {
                                for _ in 0..1 + rng.below(2) {
                                    if !c.is_empty() {
                                        let i = rng.below(c.len());
                                        c.remove(i);
                                    }
                                }
                            }
                            c.into_iter().collect()
                        }
                        5 if !cands.is_empty() => cands[rng.below(cands.len())].clone(),
                        _ => {
                            if rng.chance(1, 3) {
                                String::new()
                            } else {
                                word.clone()
                            }
                        }
                    };
                    cands.push(c);
                }
                let refs: Vec<&str> = cands.iter().map(|s| s.as_str()).collect();
                out.sample(|| format!("word={:?} candidates={:?}", word, refs));
                let mut cutoffs: Vec<f32> = vec![0.0, 1.0, 0.6, rng.below(101) as f32 / 100.0];
                for c in &refs {
                    let r = ratio(&word, c);
                    cutoffs.push(r);
                    cutoffs.push(f32::from_bits(r.to_bits().wrapping_add(1)));
                    if r > 0.0 {
                        cutoffs.push(f32::from_bits(r.to_bits() - 1));
                    }
                }
                cutoffs.retain(|c| (0.0..=1.0).contains(c));
                cutoffs.sort_by(|a, b| a.partial_cmp(b).unwrap());
                cutoffs.dedup();
                let mut nonempty = false;
                for &cutoff in &cutoffs {
                    for n in [0usize, 1, 2, 3, 5, usize::MAX, 1 << 62] {
                        check(&word, &refs, n, cutoff, out);
                    }
                    if refs.iter().any(|c| ratio(&word, c) >= cutoff) {
                        nonempty = true;
                    }
                }
                if nonempty {
                    out.nontrivial(&(&word, &cands));
                }
            },
        ),
        family(
            "rotations",
            "tie handling at the truncation boundary: candidate lists made of groups with EQUAL ratio to the word (same multiset edits in different places), every rotation of the list x every n",
            false,
            16,
            |cfg| cfg.n(4_000, 80_000),
            |idx, cfg, out| {
                let mut rng = Rng::for_case(cfg.seed, "c18.rotations", idx);
                let word = {
                    let mut w = rand_word(&mut rng, 6);
                    while w.chars().count() < 3 {
                        w.push('a');
                    }
                    w
                };
                // candidates that replace one position of the word by distinct fresh letters: all tie
                let chars: Vec<char> = word.chars().collect();
                let mut cands: Vec<String> = Vec::new();
                for (k, fresh) in ['z', 'y', 'x', 'w', 'v'].iter().enumerate().take(2 + rng.below(4)) {
                    let mut c = chars.clone();
                    let i = (k + rng.below(3)) % c.len();
                    c[i] = *fresh;
                    cands.push(c.into_iter().collect());
                }
                if rng.chance(1, 2) {
                    cands.push(word.clone());
                }
                let rot = rng.below(cands.len());
                cands.rotate_left(rot);
                let refs: Vec<&str> = cands.iter().map(|s| s.as_str()).collect();
                out.sample(|| format!("word={:?} candidates={:?}", word, refs));
                out.nontrivial(&(&word, &cands));
                if cfg.tiny && idx > 3 {
                    return;
                }
                for n in 0..=cands.len() + 1 {
                    for cutoff in [0.0f32, 0.5, 0.6, ratio(&word, refs[0])] {
                        check(&word, &refs, n, cutoff, out);
                    }
                }
            },
        ),
        family(
            "huge_alphabet",
            "words of 300..70000 DISTINCT characters (taken from U+10000.., so that word and candidates together cross 256 / 65536 distinct characters) and candidates derived by deleting / substituting / appending a few characters; the reference ratio is exact because for strings of distinct characters the LCS is a longest increasing subsequence",
            false,
            1,
            |cfg| if cfg.tiny { 1 } else { cfg.tier.pick(12, 60) },
            |idx, cfg, out| {
                let mut rng = Rng::for_case(cfg.seed, "c18.huge_alphabet", idx);
                let n = if cfg.tiny { 12 } else { *rng.pick(&[300usize, 1000, 40_000, 65_530, 66_000, 70_000]) };
                let ch = |i: usize| char::from_u32(0x10000 + i as u32).unwrap();
                let word: Vec<char> = (0..n).map(ch).collect();
                let mut fresh = n;
                let mut cands: Vec<Vec<char>> = Vec::new();
                for _ in 0..1 + rng.below(3) {
                    let mut c = word.clone();
                    for _ in 0..rng.below(6) {
                        match rng.below(3) {
                            0 => {
                                let i = rng.below(c.len());
                                c.remove(i);
                            }
                            1 => {
                                let i = rng.below(c.len());
                                c[i] = ch(fresh);
                                fresh += 1;
                            }
                            _ => {
                                // a fresh block: pushes the number of distinct characters up
                                let k = 1 + rng.below(if n > 5000 { 120 } else { 800 });
                                let at = rng.below(c.len() + 1);
                                let blk: Vec<char> = (0..k).map(|j| ch(fresh + j)).collect();
                                fresh += k;
                                c.splice(at..at, blk);
                            }
                        }
                    }
                    cands.push(c);
                }
                // an unrelated candidate
                cands.push((0..50).map(|j| ch(fresh + j)).collect());
                let word_s: String = word.iter().collect();
                let cand_s: Vec<String> = cands.iter().map(|c| c.iter().collect()).collect();
                let refs: Vec<&str> = cand_s.iter().map(|s| s.as_str()).collect();
                // exact ratios via LIS
                let pos: std::collections::HashMap<char, usize> = word.iter().enumerate().map(|(i, c)| (*c, i)).collect();
                let ratios: Vec<f32> = cands
                    .iter()
                    .map(|c| {
                        let seq: Vec<usize> = c.iter().filter_map(|x| pos.get(x).copied()).collect();
                        let mut tails: Vec<usize> = Vec::new();
                        for x in seq {
                            match tails.binary_search(&x) {
                                Ok(_) => {}
                                Err(p) => {
                                    if p == tails.len() {
                                        tails.push(x)
                                    } else {
                                        tails[p] = x
                                    }
                                }
                            }
                        }
                        2.0 * tails.len() as f32 / (word.len() + c.len()) as f32
                    })
                    .collect();
                out.sample(|| format!("word of {} distinct chars, {} candidates, {} distinct chars overall", n, refs.len(), fresh + 50));
                out.nontrivial(&(n, idx));
                out.count("huge_alphabet_cases");
                // (cutoff 0 would make the library diff the unrelated 50-char candidate against the
                // whole word: quadratic by nature)
                for cutoff in [0.3f32, ratios[0].max(0.3)] {
                    for nn in [1usize, 3] {
                        out.eval();
                        let mut kept: Vec<(f32, &str)> = refs.iter().zip(ratios.iter()).filter(|(_, r)| **r >= cutoff).map(|(c, r)| (*r, *c)).collect();
                        kept.sort_by(|a, b| b.0.partial_cmp(&a.0).unwrap().then_with(|| a.1.cmp(b.1)));
                        let expect: Vec<&str> = kept.into_iter().take(nn).map(|x| x.1).collect();
                        match guard(|| get_close_matches(word_s.as_str(), &refs, nn, cutoff)) {
                            Err(p) => out.violation("panic", format!("get_close_matches panicked: {} | word of {} distinct chars, n={} cutoff={}", p, n, nn, cutoff)),
                            Ok(got) => {
                                if got != expect {
                                    let show = |v: &[&str]| v.iter().map(|s| format!("<{} chars>", s.chars().count())).collect::<Vec<_>>();
                                    out.violation(
                                        "close_matches.differs_from_exhaustive_ranking",
                                        format!("word of {} distinct chars, n={} cutoff={}: got {:?} expected {:?}; exact ratios {:?}", n, nn, cutoff, show(&got), show(&expect), ratios),
                                    );
                                }
                            }
                        }
                    }
                }
            },
        ),
    ]
}
