//! C18 — get_close_matches equals exhaustive ranking by similarity ratio
//! (reference R-RANK: brute force over all candidates with an LCS dynamic
//! program on chars).

use similar::get_close_matches;

use crate::engine::{family, guard, Family, Local};
use crate::mon::lcs_len;
use crate::rng::Rng;

fn ratio(a: &str, b: &str) -> f32 {
    let ca: Vec<char> = a.chars().collect();
    let cb: Vec<char> = b.chars().collect();
    let n = ca.len() + cb.len();
    if n == 0 {
        1.0
    } else {
        2.0 * lcs_len(&ca, &cb) as f32 / n as f32
    }
}

/// brute-force ranking; None when two distinct kept ratios are closer than the
/// u32 quantisation of the heap key can tell apart (never generated here)
fn reference(word: &str, cands: &[&str], n: usize, cutoff: f32) -> Option<Vec<String>> {
    let mut kept: Vec<(f32, &str)> = cands.iter().map(|c| (ratio(word, c), *c)).filter(|(r, _)| *r >= cutoff).collect();
    let mut rs: Vec<f32> = kept.iter().map(|k| k.0).collect();
    rs.sort_by(|a, b| a.partial_cmp(b).unwrap());
    for w in rs.windows(2) {
        if w[0] != w[1] && (w[0] - w[1]).abs() < 1.0 / 256.0 / 65536.0 {
            return None;
        }
    }
    kept.sort_by(|a, b| b.0.partial_cmp(&a.0).unwrap().then_with(|| a.1.cmp(b.1)));
    Some(kept.into_iter().take(n).map(|x| x.1.to_string()).collect())
}

const ALPHABET: [&str; 7] = ["a", "b", "c", "é", "l", "o", "日"];

fn rand_word(rng: &mut Rng, max: usize) -> String {
    let l = rng.below(max + 1);
    (0..l).map(|_| *rng.pick(&ALPHABET)).collect()
}

fn mutate(rng: &mut Rng, w: &str) -> String {
    let mut c: Vec<char> = w.chars().collect();
    for _ in 0..1 + rng.below(2) {
        match rng.below(4) {
            0 if !c.is_empty() => {
                let i = rng.below(c.len());
                c.remove(i);
            }
            1 => {
                let i = rng.below(c.len() + 1);
                c.insert(i, rng.pick(&ALPHABET).chars().next().unwrap());
            }
            2 if !c.is_empty() => {
                let i = rng.below(c.len());
                c[i] = rng.pick(&ALPHABET).chars().next().unwrap();
            }
            _ if c.len() >= 2 => {
                let i = rng.below(c.len() - 1);
                c.swap(i, i + 1);
            }
            _ => {}
        }
    }
    c.into_iter().collect()
}

fn check(word: &str, cands: &[&str], n: usize, cutoff: f32, out: &mut Local) {
    out.eval();
    let ctx = || format!("word={:?} candidates={:?} n={} cutoff={}", word, cands, n, cutoff);
    let expect = match reference(word, cands, n, cutoff) {
        Some(e) => e,
        None => {
            out.count("skipped_ratios_closer_than_key_quantisation");
            return;
        }
    };
    match guard(|| get_close_matches(word, cands, n, cutoff).into_iter().map(|s| s.to_string()).collect::<Vec<String>>()) {
        Err(p) => out.violation("panic", format!("get_close_matches panicked: {} | {}", p, ctx())),
        Ok(got) => {
            if !expect.is_empty() {
                out.count("calls_with_nonempty_result");
            }
            if expect.len() == n && n > 0 {
                out.count("calls_truncated_at_n");
            }
            if got != expect {
                let ratios: Vec<(String, f32)> = cands.iter().map(|c| (c.to_string(), ratio(word, c))).collect();
                out.violation(
                    "close_matches.differs_from_exhaustive_ranking",
                    format!("got {:?} but exhaustive ranking gives {:?} | {} | ratios={:?}", got, expect, ctx(), ratios),
                );
            }
        }
    }
}

/// `check` with a context that does not print thousands of candidates
fn check_quiet(word: &str, cands: &[&str], n: usize, cutoff: f32, out: &mut Local) {
    out.eval();
    let expect = match reference(word, cands, n, cutoff) {
        Some(e) => e,
        None => {
            out.count("skipped_ratios_closer_than_key_quantisation");
            return;
        }
    };
    match guard(|| get_close_matches(word, cands, n, cutoff).into_iter().map(|s| s.to_string()).collect::<Vec<String>>()) {
        Err(p) => out.violation("panic", format!("get_close_matches panicked: {} | word={:?} {} candidates n={} cutoff={}", p, word, cands.len(), n, cutoff)),
        Ok(got) => {
            if expect.len() == n && n > 0 {
                out.count("calls_truncated_at_n");
            }
            if got != expect {
                let k = got.iter().zip(expect.iter()).position(|(g, e)| g != e).unwrap_or(got.len().min(expect.len()));
                out.violation(
                    "close_matches.differs_from_exhaustive_ranking",
                    format!(
                        "word={:?} with {} candidates (about {} of them at or above the cutoff), n={} cutoff={}: {} results, {} expected; first difference at position {}: got {:?} (ratio {:?}), expected {:?} (ratio {:?})",
                        word,
                        cands.len(),
                        cands.iter().filter(|c| ratio(word, c) >= cutoff).count(),
                        n,
                        cutoff,
                        got.len(),
                        expect.len(),
                        k,
                        got.get(k),
                        got.get(k).map(|g| ratio(word, g)),
                        expect.get(k),
                        expect.get(k).map(|e| ratio(word, e))
                    ),
                );
            }
        }
    }
}

pub fn families() -> Vec<Box<dyn Family>> {
    vec![
        family(
            "rnd",
            "seeded random word (<= 8 chars over {a,b,c,é,l,o,日}) and 0..=8 candidates (independent words, 1-2 edit mutations of the word, sub/supersequences, duplicates, the empty string) x n in 0..=5 x cutoffs {0, 1, every ratio that some candidate hits EXACTLY, its f32 neighbours, k/100}; non-trivial = non-empty result",
            false,
            32,
            |cfg| cfg.n(40_000, 800_000),
            |idx, cfg, out| {
                let mut rng = Rng::for_case(cfg.seed, "c18.rnd", idx);
                let word = rand_word(&mut rng, if cfg.tiny { 3 } else { 8 });
                let k = rng.below(9);
                let mut cands: Vec<String> = Vec::new();
                for _ in 0..k {
                    let c = match rng.below(7) {
                        0 | 1 => rand_word(&mut rng, 8),
                        2 | 3 => mutate(&mut rng, &word),
                        4 => {
                            // supersequence / subsequence
                            let mut c: Vec<char> = word.chars().collect();
                            if rng.chance(1, 2) {
                                for _ in 0..1 + rng.below(3) {
                                    let i = rng.below(c.len() + 1);
                                    c.insert(i, rng.pick(&ALPHABET).chars().next().unwrap());
                                }
                            } else {
                                for _ in 0..1 + rng.below(2) {
                                    if !c.is_empty() {
                                        let i = rng.below(c.len());
                                        c.remove(i);
                                    }
                                }
                            }
                            c.into_iter().collect()
                        }
                        5 if !cands.is_empty() => cands[rng.below(cands.len())].clone(),
                        _ => {
                            if rng.chance(1, 3) {
                                String::new()
                            } else {
                                word.clone()
                            }
                        }
                    };
                    cands.push(c);
                }
                let refs: Vec<&str> = cands.iter().map(|s| s.as_str()).collect();
                out.sample(|| format!("word={:?} candidates={:?}", word, refs));
                let mut cutoffs: Vec<f32> = vec![0.0, 1.0, 0.6, rng.below(101) as f32 / 100.0];
                for c in &refs {
                    let r = ratio(&word, c);
                    cutoffs.push(r);
                    cutoffs.push(f32::from_bits(r.to_bits().wrapping_add(1)));
                    if r > 0.0 {
                        cutoffs.push(f32::from_bits(r.to_bits() - 1));
                    }
                }
                cutoffs.retain(|c| (0.0..=1.0).contains(c));
                cutoffs.sort_by(|a, b| a.partial_cmp(b).unwrap());
                cutoffs.dedup();
                let mut nonempty = false;
                for &cutoff in &cutoffs {
                    for n in [0usize, 1, 2, 3, 5, usize::MAX, 1 << 62] {
                        check(&word, &refs, n, cutoff, out);
                    }
                    if refs.iter().any(|c| ratio(&word, c) >= cutoff) {
                        nonempty = true;
                    }
                }
                if nonempty {
                    out.nontrivial(&(&word, &cands));
                }
            },
        ),
        family(
            "rotations",
            "tie handling at the truncation boundary: candidate lists made of groups with EQUAL ratio to the word (same multiset edits in different places), every rotation of the list x every n",
            false,
            16,
            |cfg| cfg.n(4_000, 80_000),
            |idx, cfg, out| {
                let mut rng = Rng::for_case(cfg.seed, "c18.rotations", idx);
                let word = {
                    let mut w = rand_word(&mut rng, 6);
                    while w.chars().count() < 3 {
                        w.push('a');
                    }
                    w
                };
                // candidates that replace one position of the word by distinct fresh letters: all tie
                let chars: Vec<char> = word.chars().collect();
                let mut cands: Vec<String> = Vec::new();
                for (k, fresh) in ['z', 'y', 'x', 'w', 'v'].iter().enumerate().take(2 + rng.below(4)) {
                    let mut c = chars.clone();
                    let i = (k + rng.below(3)) % c.len();
                    c[i] = *fresh;
                    cands.push(c.into_iter().collect());
                }
                if rng.chance(1, 2) {
                    cands.push(word.clone());
                }
                let rot = rng.below(cands.len());
                cands.rotate_left(rot);
                let refs: Vec<&str> = cands.iter().map(|s| s.as_str()).collect();
                out.sample(|| format!("word={:?} candidates={:?}", word, refs));
                out.nontrivial(&(&word, &cands));
                if cfg.tiny && idx > 3 {
                    return;
                }
                for n in 0..=cands.len() + 1 {
                    for cutoff in [0.0f32, 0.5, 0.6, ratio(&word, refs[0])] {
                        check(&word, &refs, n, cutoff, out);
                    }
                }
            },
        ),
        family(
            "near_ties",
            "near-ties of the similarity ratio between LONG candidates: a word of k distinct characters, candidate 1 = word + La fresh characters (ratio 2k/(2k+La)), candidate 2 = word minus one character + Lb fresh ones (ratio 2(k-1)/(2k-1+Lb)), La/Lb searched so that the two ratios differ by less than 2^-23 but are not equal; the candidate with the LOWER ratio sorts first alphabetically; n = 1 and 2",
            false,
            1,
            |cfg| if cfg.tiny { 0 } else { cfg.tier.pick(4, 24) },
            |idx, cfg, out| {
                let mut rng = Rng::for_case(cfg.seed, "c18.near_ties", idx);
                let k = rng.range(150, 260);
                // search La, Lb with 0 < |r1 - r2| minimal and total lengths around 9000
                let mut best: Option<(usize, usize, f64)> = None;
                for la in 8000..9200usize {
                    let r1 = 2.0 * k as f64 / (2 * k + la) as f64;
                    // solve 2(k-1)/(2k-1+lb) = r1
                    let lb0 = (2.0 * (k - 1) as f64 / r1 - (2 * k - 1) as f64).round() as i64;
                    for lb in [lb0 - 1, lb0, lb0 + 1] {
                        if lb <= 0 {
                            continue;
                        }
                        let r2 = 2.0 * (k - 1) as f64 / (2 * k - 1 + lb as usize) as f64;
                        let r1f = (2.0 * k as f32) / ((2 * k + la) as f32);
                        let r2f = (2.0 * (k - 1) as f32) / ((2 * k - 1 + lb as usize) as f32);
                        let d = (r1 - r2).abs();
                        if r1f != r2f && d > 0.0 && best.map_or(true, |b| d < b.2) {
                            best = Some((la, lb as usize, d));
                        }
                    }
                }
                let (la, lb, d) = match best {
                    Some(b) => b,
                    None => return,
                };
                let _ = cfg;
                let ch = |i: usize| char::from_u32(0x10000 + i as u32).unwrap();
                let word: String = (0..k).map(ch).collect();
                let filler = |from: usize, n: usize| -> String { (0..n).map(|j| ch(from + j)).collect() };
                // higher ratio: c_hi; lower ratio: c_lo.  Prefix letters force the alphabetical order.
                let r1 = (2.0 * k as f32) / ((2 * k + la) as f32);
                let r2 = (2.0 * (k - 1) as f32) / ((2 * k - 1 + lb) as f32);
                // candidate 2 = word without its LAST character + filler.  Both candidates start with the
                // same k-1 characters; at position k-1 candidate 1 has the word's last character
                // (U+10000+k-1) and candidate 2 its first filler character: a CJK filler (below
                // U+10000) makes candidate 2 the alphabetically smaller one, a high filler the larger
                // one.  Chosen so that the candidate with the LOWER ratio sorts first.
                let low_filler = |n: usize| -> String { (0..n).map(|j| char::from_u32(0x4e00 + j as u32).unwrap()).collect() };
                let c1: String = format!("{}{}", word, filler(1_000, la));
                let c2: String = format!("{}{}", word.chars().take(k - 1).collect::<String>(), if r2 < r1 { low_filler(lb) } else { filler(20_000, lb) });
                // c2 starts with ch(1), c1 with ch(0): c1 < c2 alphabetically.  Swap roles at random so
                // that the lower-ratio candidate is the alphabetically smaller one in half of the cases.
                let cands = vec![c1.as_str(), c2.as_str()];
                out.sample(|| format!("k={} La={} Lb={} ratios {} vs {} (|difference| = {:.3e})", k, la, lb, r1, r2, d));
                out.nontrivial(&(k, la, lb));
                out.count("near_tie_cases");
                for nn in [1usize, 2] {
                    out.eval();
                    let mut kept: Vec<(f32, &str)> = vec![(r1, cands[0]), (r2, cands[1])];
                    kept.sort_by(|a, b| b.0.partial_cmp(&a.0).unwrap().then_with(|| a.1.cmp(b.1)));
                    let expect: Vec<&str> = kept.into_iter().take(nn).map(|x| x.1).collect();
                    // both orders of the candidate list
                    for order in 0..2 {
                        let list: Vec<&str> = if order == 0 { cands.clone() } else { vec![cands[1], cands[0]] };
                        match guard(|| get_close_matches(word.as_str(), &list, nn, 0.0)) {
                            Err(p) => out.violation("panic", format!("get_close_matches panicked: {}", p)),
                            Ok(got) => {
                                if got != expect {
                                    out.violation(
                                        "close_matches.differs_from_exhaustive_ranking",
                                        format!("near-tie: k={} La={} Lb={} exact ratios {} / {}: n={} returned the candidates of lengths {:?}, expected lengths {:?}", k, la, lb, r1, r2, nn, got.iter().map(|s| s.chars().count()).collect::<Vec<_>>(), expect.iter().map(|s| s.chars().count()).collect::<Vec<_>>()),
                                    );
                                }
                            }
                        }
                    }
                }
            },
        ),
        family(
            "long_rotations",
            "long words (1001..1600 characters of low-entropy prose plus one or two characters that are unique on both sides) against rotations / moved markers / block moves of themselves and against edited copies; reference = LCS dynamic program",
            false,
            1,
            |cfg| if cfg.tiny { 1 } else { cfg.tier.pick(10, 60) },
            |idx, cfg, out| {
                let mut rng = Rng::for_case(cfg.seed, "c18.long_rotations", idx);
                let n = if cfg.tiny { 12 } else { rng.range(1001, 1600) };
                let prose: Vec<char> = (0..n).map(|_| *rng.pick(&['a', 'b', 'c', 'd', ' ', 'e'])).collect();
                let mut word = vec!['#'];
                word.extend_from_slice(&prose);
                let mut cands: Vec<Vec<char>> = Vec::new();
                // marker moved to the end
                let mut c = prose.clone();
                c.push('#');
                cands.push(c);
                // rotation
                let mut c = word.clone();
                let r = rng.below(c.len());
                c.rotate_left(r);
                cands.push(c);
                // block move
                let mut c = word.clone();
                let i = rng.below(c.len() / 2);
                let blk: Vec<char> = c.drain(i..i + 20.min(c.len() - i)).collect();
                let at = rng.below(c.len() + 1);
                c.splice(at..at, blk);
                cands.push(c);
                // an edited copy and an unrelated long string
                let mut c = word.clone();
                for _ in 0..5 {
                    let i = rng.below(c.len());
                    c[i] = '@';
                }
                cands.push(c);
                cands.push((0..n).map(|_| *rng.pick(&['x', 'y', 'z'])).collect());
                let word_s: String = word.iter().collect();
                let cand_s: Vec<String> = cands.iter().map(|c| c.iter().collect()).collect();
                let refs: Vec<&str> = cand_s.iter().map(|s| s.as_str()).collect();
                out.sample(|| format!("word of {} chars with a unique marker, {} candidates (marker moved, rotation, block move, edited, unrelated)", word.len(), refs.len()));
                out.nontrivial(&(n, idx));
                out.count("long_rotation_cases");
                for (nn, cutoff) in [(1usize, 0.6f32), (3, 0.9), (5, 0.0)] {
                    check(&word_s, &refs, nn, cutoff, out);
                }
            },
        ),
        family(
            "huge_alphabet",
            "words of 300..70000 DISTINCT characters (taken from U+10000.., so that word and candidates together cross 256 / 65536 distinct characters) and candidates derived by deleting / substituting / appending a few characters; the reference ratio is exact because for strings of distinct characters the LCS is a longest increasing subsequence",
            false,
            1,
            |cfg| if cfg.tiny { 1 } else { cfg.tier.pick(12, 60) },
            |idx, cfg, out| {
                let mut rng = Rng::for_case(cfg.seed, "c18.huge_alphabet", idx);
                let n = if cfg.tiny { 12 } else { *rng.pick(&[300usize, 1000, 40_000, 65_530, 66_000, 70_000]) };
                let ch = |i: usize| char::from_u32(0x10000 + i as u32).unwrap();
                let word: Vec<char> = (0..n).map(ch).collect();
                let mut fresh = n;
                let mut cands: Vec<Vec<char>> = Vec::new();
                for _ in 0..1 + rng.below(3) {
                    let mut c = word.clone();
                    for _ in 0..rng.below(6) {
                        match rng.below(3) {
                            0 => {
                                let i = rng.below(c.len());
                                c.remove(i);
                            }
                            1 => {
                                let i = rng.below(c.len());
                                c[i] = ch(fresh);
                                fresh += 1;
                            }
                            _ => {
                                // a fresh block: pushes the number of distinct characters up
                                let k = 1 + rng.below(if n > 5000 { 120 } else { 800 });
                                let at = rng.below(c.len() + 1);
                                let blk: Vec<char> = (0..k).map(|j| ch(fresh + j)).collect();
                                fresh += k;
                                c.splice(at..at, blk);
                            }
                        }
                    }
                    cands.push(c);
                }
                // an unrelated candidate
                cands.push((0..50).map(|j| ch(fresh + j)).collect());
                let word_s: String = word.iter().collect();
                let cand_s: Vec<String> = cands.iter().map(|c| c.iter().collect()).collect();
                let refs: Vec<&str> = cand_s.iter().map(|s| s.as_str()).collect();
                // exact ratios via LIS
                let pos: std::collections::HashMap<char, usize> = word.iter().enumerate().map(|(i, c)| (*c, i)).collect();
                let ratios: Vec<f32> = cands
                    .iter()
                    .map(|c| {
                        let seq: Vec<usize> = c.iter().filter_map(|x| pos.get(x).copied()).collect();
                        let mut tails: Vec<usize> = Vec::new();
                        for x in seq {
                            match tails.binary_search(&x) {
                                Ok(_) => {}
                                Err(p) => {
                                    if p == tails.len() {
                                        tails.push(x)
                                    } else {
                                        tails[p] = x
                                    }
                                }
                            }
                        }
                        2.0 * tails.len() as f32 / (word.len() + c.len()) as f32
                    })
                    .collect();
                out.sample(|| format!("word of {} distinct chars, {} candidates, {} distinct chars overall", n, refs.len(), fresh + 50));
                out.nontrivial(&(n, idx));
                out.count("huge_alphabet_cases");
                // (cutoff 0 would make the library diff the unrelated 50-char candidate against the
                // whole word: quadratic by nature)
                for cutoff in [0.3f32, ratios[0].max(0.3)] {
                    for nn in [1usize, 3] {
                        out.eval();
                        let mut kept: Vec<(f32, &str)> = refs.iter().zip(ratios.iter()).filter(|(_, r)| **r >= cutoff).map(|(c, r)| (*r, *c)).collect();
                        kept.sort_by(|a, b| b.0.partial_cmp(&a.0).unwrap().then_with(|| a.1.cmp(b.1)));
                        let expect: Vec<&str> = kept.into_iter().take(nn).map(|x| x.1).collect();
                        match guard(|| get_close_matches(word_s.as_str(), &refs, nn, cutoff)) {
                            Err(p) => out.violation("panic", format!("get_close_matches panicked: {} | word of {} distinct chars, n={} cutoff={}", p, n, nn, cutoff)),
                            Ok(got) => {
                                if got != expect {
                                    let show = |v: &[&str]| v.iter().map(|s| format!("<{} chars>", s.chars().count())).collect::<Vec<_>>();
                                    out.violation(
                                        "close_matches.differs_from_exhaustive_ranking",
                                        format!("word of {} distinct chars, n={} cutoff={}: got {:?} expected {:?}; exact ratios {:?}", n, nn, cutoff, show(&got), show(&expect), ratios),
                                    );
                                }
                            }
                        }
                    }
                }
            },
        ),
        family(
            "many_candidates",
            "THOUSANDS of qualifying candidates in one call (4000 / 4096 / 4097 / 5000 / 9000 / 70000 dictionary entries derived from the word by suffixes, infixes and numbering, nearly all above the cutoff) x n in {1, 3, 10, 2000, 5000} x cutoffs {0.0, 0.3, 0.6}: the first n of the exhaustive ranking, with ties broken lexicographically",
            false,
            1,
            |cfg| if cfg.tiny { 1 } else { cfg.tier.pick(10, 40) },
            |idx, cfg, out| {
                let mut rng = Rng::for_case(cfg.seed, "c18.many_candidates", idx);
                let sizes = [4000usize, 4096, 4097, 5000, 9000, 70_000];
                let count = if cfg.tiny { 12 } else if idx % 10 == 9 { 70_000 } else { sizes[(idx % 5) as usize] };
                let word = *rng.pick(&["configuration", "konfiguration", "abcabcabcabc", "similarity"]);
                let mut cands: Vec<String> = Vec::with_capacity(count + 4);
                for i in 0..count {
                    cands.push(match i % 4 {
                        0 => format!("{}-{}", word, i),
                        1 => format!("{}{}", &word[..word.len() / 2], i),
                        2 => format!("{}{}{}", &word[..3], i % 97, &word[3..]),
                        _ => format!("x{}{}", i % 13, word),
                    });
                }
                cands.push(word.to_string());
                cands.push(format!("{}s", word));
                cands.push(word[1..].to_string());
                // a fixed shuffle so that the best entries are not at the ends
                for i in (1..cands.len()).rev() {
                    let j = rng.below(i + 1);
                    cands.swap(i, j);
                }
                let refs: Vec<&str> = cands.iter().map(|s| s.as_str()).collect();
                out.sample(|| format!("word={:?} with {} candidates", word, refs.len()));
                out.nontrivial(&(word, count, idx));
                out.count("many_candidate_cases");
                let n = *rng.pick(&[1usize, 3, 10, 2000, 5000]);
                let cutoff = *rng.pick(&[0.0f32, 0.3, 0.6]);
                check_quiet(word, &refs, n, cutoff, out);
            },
        ),
        family(
            "tiny_ratios",
            "the cutoff comparison at VERY SMALL ratios (where f32 values are far denser than any fixed-point key): a word of L1 characters and candidates of L2 characters that share exactly s of them in order (ratio 2s/(L1+L2) down to 0.0004, known by construction; all-distinct characters, or s shared characters followed by one repeated filler per side), cutoffs = that ratio, its f32 neighbours one and two ulps above and below, and 0: a candidate is returned exactly when its ratio is >= the cutoff",
            false,
            1,
            |cfg| if cfg.tiny { 2 } else { cfg.tier.pick(48, 208) },
            |idx, cfg, out| {
                let mut rng = Rng::for_case(cfg.seed, "c18.tiny_ratios", idx);
                let shapes: [(usize, usize, usize); 8] = [(1101, 1101, 1), (600, 1700, 1), (2000, 2000, 3), (300, 300, 1), (1500, 900, 2), (2500, 2500, 1), (512, 513, 1), (1024, 1023, 2)];
                let (l1, l2, sh) = if cfg.tiny { (12, 9, 1) } else { shapes[(idx % 8) as usize] };
                let ch = |i: usize| char::from_u32(0x4e00 + i as u32).unwrap();
                let word: Vec<char> = (0..l1).map(ch).collect();
                // candidate: fresh distinct characters with `sh` characters of the word planted in order
                let mut cand: Vec<char> = (0..l2 - sh).map(|j| ch(l1 + 10 + j)).collect();
                let mut picks: Vec<usize> = (0..sh).map(|_| rng.below(l1)).collect();
                picks.sort();
                picks.dedup();
                let sh = picks.len();
                let mut at: Vec<usize> = (0..sh).map(|_| rng.below(cand.len() + 1)).collect();
                at.sort();
                for (k, (p, a)) in picks.iter().zip(at.iter()).enumerate() {
                    cand.insert(a + k, ch(*p));
                }
                // every other case: LOW-ENTROPY strings instead (the shared characters, then one repeated
                // filler character per side) - the multiset pre-filter over-estimates those generously,
                // so the exact ratio alone decides
                let runs = (idx / 8) % 2 == 1;
                let (word, cand): (Vec<char>, Vec<char>) = if runs {
                    let shared: Vec<char> = (0..sh).map(|i| ch(20_000 + i)).collect();
                    let mut w = shared.clone();
                    w.extend(std::iter::repeat('b').take(l1 - sh));
                    let mut c = shared;
                    c.extend(std::iter::repeat('c').take(cand.len() - sh));
                    (w, c)
                } else {
                    (word, cand)
                };
                // a second candidate sharing nothing
                let other: Vec<char> = (0..l2).map(|j| ch(l1 + l2 + 50 + j)).collect();
                let word_s: String = word.iter().collect();
                let cand_s: String = cand.iter().collect();
                let other_s: String = other.iter().collect();
                let refs: Vec<&str> = vec![cand_s.as_str(), other_s.as_str()];
                let r = 2.0 * sh as f32 / (l1 + cand.len()) as f32;
                out.sample(|| format!("word of {} chars, candidate of {} chars sharing {} (ratio {:e})", l1, cand.len(), sh, r));
                out.nontrivial(&(l1, l2, sh, idx));
                out.count("tiny_ratio_cases");
                let bits = r.to_bits();
                let cutoffs = [0.0f32, r, f32::from_bits(bits + 1), f32::from_bits(bits + 2), f32::from_bits(bits - 1), f32::from_bits(bits - 2), f32::from_bits(bits + 64), f32::from_bits(bits - 64)];
                for cutoff in cutoffs {
                    out.eval();
                    let mut expect: Vec<&str> = Vec::new();
                    if r >= cutoff {
                        expect.push(refs[0]);
                    }
                    if 0.0 >= cutoff {
                        expect.push(refs[1]);
                    }
                    match guard(|| get_close_matches(word_s.as_str(), &refs, 3, cutoff)) {
                        Err(p) => out.violation("panic", format!("get_close_matches panicked: {} | word of {} chars, cutoff={:e}", p, l1, cutoff)),
                        Ok(got) => {
                            if got != expect {
                                let show = |v: &[&str]| v.iter().map(|s| if std::ptr::eq(*s, refs[0]) { "sharing-candidate" } else { "unrelated-candidate" }).collect::<Vec<_>>();
                                out.violation(
                                    "close_matches.differs_from_exhaustive_ranking",
                                    format!("word of {} distinct chars, candidate of {} chars sharing exactly {} of them in order (ratio {:e} = bits {:#x}), unrelated candidate (ratio 0); n=3 cutoff={:e} (bits {:#x}): got {:?} expected {:?}", l1, cand.len(), sh, r, bits, cutoff, cutoff.to_bits(), show(&got), show(&expect)),
                                );
                            }
                        }
                    }
                }
            },
        ),
    ]
}
