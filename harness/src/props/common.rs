//! Helpers shared by the per-property modules.

use std::hash::Hash;
use std::ops::{Index, Range};
use std::time::{Duration, Instant};

use similar::algorithms::{self, DiffHook};
use similar::Algorithm;

use crate::engine::{guard, Local};
use crate::mon::{fmt_evs, TraceMon};

pub const ALGS: [Algorithm; 3] = [Algorithm::Myers, Algorithm::Patience, Algorithm::Lcs];

pub fn alg_name(a: Algorithm) -> &'static str {
    match a {
        Algorithm::Myers => "myers",
        Algorithm::Patience => "patience",
        Algorithm::Lcs => "lcs",
    }
}

/// Which public entry point is exercised.
#[derive(Clone, Copy, Debug, PartialEq, Eq, Hash)]
pub enum Entry {
    /// `algorithms::diff` / `diff_deadline` (dispatch on `Algorithm`)
    Dispatch,
    /// `algorithms::{myers,patience,lcs}::diff` / `diff_deadline`
    Module,
}

/// A deadline far in the future: with a virtual clock installed it only
/// signals "a deadline is present"; without one it never expires.
pub fn far_deadline() -> Instant {
    Instant::now() + Duration::from_secs(3600 * 24 * 365)
}

/// A deadline in the PAST.  Under an installed virtual clock the value of the Instant is
/// irrelevant to `deadline_exceeded` (the clock decides), so this is as good a dummy as a far
/// future one — but code that bypasses the deadline check and reads the real clock sees an
/// expired deadline, i.e. the situation "time ran out right after the last check".
pub fn past_deadline() -> Instant {
    Instant::now().checked_sub(Duration::from_secs(3600)).unwrap_or_else(Instant::now)
}

/// far-future or past dummy, chosen by `parity`
pub fn dummy_deadline(parity: usize) -> Instant {
    if parity % 2 == 0 {
        far_deadline()
    } else {
        past_deadline()
    }
}

pub fn run_entry<O, N, D>(
    entry: Entry,
    alg: Algorithm,
    d: &mut D,
    old: &O,
    old_range: Range<usize>,
    new: &N,
    new_range: Range<usize>,
    deadline: Option<Instant>,
    use_deadline_fn: bool,
) -> Result<(), D::Error>
where
    O: Index<usize> + ?Sized,
    N: Index<usize> + ?Sized,
    D: DiffHook,
    O::Output: Hash + Eq + Ord,
    N::Output: PartialEq<O::Output> + Hash + Eq + Ord,
{
    match (entry, use_deadline_fn) {
        (Entry::Dispatch, false) => algorithms::diff(alg, d, old, old_range, new, new_range),
        (Entry::Dispatch, true) => algorithms::diff_deadline(alg, d, old, old_range, new, new_range, deadline),
        (Entry::Module, false) => match alg {
            Algorithm::Myers => algorithms::myers::diff(d, old, old_range, new, new_range),
            Algorithm::Patience => algorithms::patience::diff(d, old, old_range, new, new_range),
            Algorithm::Lcs => algorithms::lcs::diff(d, old, old_range, new, new_range),
        },
        (Entry::Module, true) => match alg {
            Algorithm::Myers => algorithms::myers::diff_deadline(d, old, old_range, new, new_range, deadline),
            Algorithm::Patience => algorithms::patience::diff_deadline(d, old, old_range, new, new_range, deadline),
            Algorithm::Lcs => algorithms::lcs::diff_deadline(d, old, old_range, new, new_range, deadline),
        },
    }
}

/// Runs one raw diff under the trace monitor.  Returns the monitor (with its
/// failures) or the panic message.
pub fn traced<'e, O, N>(
    entry: Entry,
    alg: Algorithm,
    old: &O,
    old_range: Range<usize>,
    new: &N,
    new_range: Range<usize>,
    eq: &'e dyn Fn(usize, usize) -> bool,
    deadline: Option<Instant>,
    use_deadline_fn: bool,
) -> Result<TraceMon<'e>, String>
where
    O: Index<usize> + ?Sized,
    N: Index<usize> + ?Sized,
    O::Output: Hash + Eq + Ord,
    N::Output: PartialEq<O::Output> + Hash + Eq + Ord,
{
    let mut mon = TraceMon::new(eq, old_range.clone(), new_range.clone());
    let r = guard(|| run_entry(entry, alg, &mut mon, old, old_range, new, new_range, deadline, use_deadline_fn));
    match r {
        Ok(Ok(())) => {
            mon.finish_check();
            Ok(mon)
        }
        Ok(Err(())) => {
            mon.failures.push(("trace.spurious_error", "the diff returned Err although the hook never failed".into()));
            Ok(mon)
        }
        Err(p) => Err(p),
    }
}

/// Turns the failures of a trace monitor into violations.
pub fn report_trace(out: &mut Local, what: &str, ctx: &dyn Fn() -> String, r: &Result<TraceMon, String>) -> bool {
    match r {
        Err(p) => {
            out.violation("panic", format!("{} panicked: {} | {}", what, p, ctx()));
            false
        }
        Ok(mon) => {
            if mon.failures.is_empty() {
                true
            } else {
                for (code, msg) in &mon.failures {
                    out.violation(code, format!("{}: {} | {} | events={}", what, msg, ctx(), fmt_evs(&mon.evs)));
                }
                false
            }
        }
    }
}

pub fn fmt_seq<T: std::fmt::Debug>(s: &[T]) -> String {
    if s.len() <= 48 {
        format!("{:?}", s)
    } else {
        format!("{:?}…(len {})", &s[..48], s.len())
    }
}
