//! Helpers shared by the per-property modules.

use std::hash::Hash;
use std::ops::{Index, Range};
use std::time::{Duration, Instant};

use similar::algorithms::{self, DiffHook};
use similar::Algorithm;

use crate::engine::{guard, Local};
use crate::mon::{fmt_evs, TraceMon};

pub const ALGS: [Algorithm; 3] = [Algorithm::Myers, Algorithm::Patience, Algorithm::Lcs];

pub fn alg_name(a: Algorithm) -> &'static str {
    match a {
        Algorithm::Myers => "myers",
        Algorithm::Patience => "patience",
        Algorithm::Lcs => "lcs",
    }
}

/// Which public entry point is exercised.
#[derive(Clone, Copy, Debug, PartialEq, Eq, Hash)]
pub enum Entry {
    /// `algorithms::diff` / `diff_deadline` (dispatch on `Algorithm`)
    Dispatch,
    /// `algorithms::{myers,patience,lcs}::diff` / `diff_deadline`
    Module,
}

/// A deadline far in the future: with a virtual clock installed it only
/// signals "a deadline is present"; without one it never expires.
pub fn far_deadline() -> Instant {
    Instant::now() + Duration::from_secs(3600 * 24 * 365)
}

/// A deadline in the PAST.  Under an installed virtual clock the value of the Instant is
/// irrelevant to `deadline_exceeded` (the clock decides), so this is as good a dummy as a far
/// future one — but code that bypasses the deadline check and reads the real clock sees an
/// expired deadline, i.e. the situation "time ran out right after the last check".
pub fn past_deadline() -> Instant {
    Instant::now().checked_sub(Duration::from_secs(3600)).unwrap_or_else(Instant::now)
}

/// far-future or past dummy, chosen by `parity`
pub fn dummy_deadline(parity: usize) -> Instant {
    if parity % 2 == 0 {
        far_deadline()
    } else {
        past_deadline()
    }
}

pub fn run_entry<O, N, D>(
    entry: Entry,
    alg: Algorithm,
    d: &mut D,
    old: &O,
    old_range: Range<usize>,
    new: &N,
    new_range: Range<usize>,
    deadline: Option<Instant>,
    use_deadline_fn: bool,
) -> Result<(), D::Error>
where
    O: Index<usize> + ?Sized,
    N: Index<usize> + ?Sized,
    D: DiffHook,
    O::Output: Hash + Eq + Ord,
    N::Output: PartialEq<O::Output> + Hash + Eq + Ord,
{
    match (entry, use_deadline_fn) {
        (Entry::Dispatch, false) => algorithms::diff(alg, d, old, old_range, new, new_range),
        (Entry::Dispatch, true) => algorithms::diff_deadline(alg, d, old, old_range, new, new_range, deadline),
        (Entry::Module, false) => match alg {
            Algorithm::Myers => algorithms::myers::diff(d, old, old_range, new, new_range),
            Algorithm::Patience => algorithms::patience::diff(d, old, old_range, new, new_range),
            Algorithm::Lcs => algorithms::lcs::diff(d, old, old_range, new, new_range),
        },
        (Entry::Module, true) => match alg {
            Algorithm::Myers => algorithms::myers::diff_deadline(d, old, old_range, new, new_range, deadline),
            Algorithm::Patience => algorithms::patience::diff_deadline(d, old, old_range, new, new_range, deadline),
            Algorithm::Lcs => algorithms::lcs::diff_deadline(d, old, old_range, new, new_range, deadline),
        },
    }
}

/// Runs one raw diff under the trace monitor.  Returns the monitor (with its
/// failures) or the panic message.
pub fn traced<'e, O, N>(
    entry: Entry,
    alg: Algorithm,
    old: &O,
    old_range: Range<usize>,
    new: &N,
    new_range: Range<usize>,
    eq: &'e dyn Fn(usize, usize) -> bool,
    deadline: Option<Instant>,
    use_deadline_fn: bool,
) -> Result<TraceMon<'e>, String>
where
    O: Index<usize> + ?Sized,
    N: Index<usize> + ?Sized,
    O::Output: Hash + Eq + Ord,
    N::Output: PartialEq<O::Output> + Hash + Eq + Ord,
{
    let mut mon = TraceMon::new(eq, old_range.clone(), new_range.clone());
    let r = guard(|| run_entry(entry, alg, &mut mon, old, old_range, new, new_range, deadline, use_deadline_fn));
    match r {
        Ok(Ok(())) => {
            mon.finish_check();
            Ok(mon)
        }
        Ok(Err(())) => {
            mon.failures.push(("trace.spurious_error", "the diff returned Err although the hook never failed".into()));
            Ok(mon)
        }
        Err(p) => Err(p),
    }
}

/// Turns the failures of a trace monitor into violations.
pub fn report_trace(out: &mut Local, what: &str, ctx: &dyn Fn() -> String, r: &Result<TraceMon, String>) -> bool {
    match r {
        Err(p) => {
            out.violation("panic", format!("{} panicked: {} | {}", what, p, ctx()));
            false
        }
        Ok(mon) => {
            if mon.failures.is_empty() {
                true
            } else {
                for (code, msg) in &mon.failures {
                    out.violation(code, format!("{}: {} | {} | events={}", what, msg, ctx(), fmt_evs(&mon.evs)));
                }
                false
            }
        }
    }
}

pub fn fmt_seq<T: std::fmt::Debug>(s: &[T]) -> String {
    if s.len() <= 48 {
        format!("{:?}", s)
    } else {
        format!("{:?}…(len {})", &s[..48], s.len())
    }
}

/// ITERATOR-PROTOCOL BATTERY.  `mk()` yields a fresh iterator; `row` turns an item into a comparable
/// string.  The reference expansion is what plain `next()` calls deliver (the caller checks THAT
/// against its own model); every other way of consuming the iterator that `std::iter::Iterator`
/// offers — and that an implementation may override (`nth`, `fold`, `try_fold`, `count`, `last`,
/// `size_hint`, `advance_by` through `skip`, ...) — must deliver the same items, also when it
/// starts after a prefix of plain `next()` calls.  Returns the failures (first few).
pub fn iter_battery<I, T>(mk: &dyn Fn() -> I, row: &dyn Fn(T) -> String, salt: u64) -> Vec<String>
where
    I: Iterator<Item = T>,
{
    let mut fails: Vec<String> = Vec::new();
    let mut want: Vec<String> = Vec::new();
    {
        let mut it = mk();
        // plain next() calls, one hint check per step: lower <= remaining <= upper
        #[allow(clippy::while_let_on_iterator)]
        while let Some(x) = it.next() {
            want.push(row(x));
            if want.len() > 200_000 {
                return fails; // not a workload for this battery
            }
        }
        if let Some(x) = it.next() {
            // std does not promise fused behaviour in general; every iterator of this crate is a
            // chain / flat-map over slices, for which a further item after None means a lost position
            fails.push(format!("next() after the end yielded another item {}", row(x)));
        }
    }
    let n = want.len();
    let mut pres: Vec<usize> = vec![0, 1, 2, n / 2, n.saturating_sub(1), n, (salt as usize) % (n + 1), (salt as usize / 7) % (n + 1)];
    pres.sort();
    pres.dedup();
    pres.retain(|p| *p <= n);
    let after = |pre: usize| -> I {
        let mut it = mk();
        for _ in 0..pre {
            it.next();
        }
        it
    };
    for &pre in &pres {
        let rest = &want[pre..];
        let (lo, hi) = after(pre).size_hint();
        if lo > rest.len() || hi.map_or(false, |h| h < rest.len()) {
            fails.push(format!("after {} next(): size_hint() = ({}, {:?}) but {} items remain", pre, lo, hi, rest.len()));
        }
        let got: Vec<String> = after(pre).fold(Vec::new(), |mut v, x| {
            v.push(row(x));
            v
        });
        if got != rest {
            fails.push(format!("after {} next(): fold() delivers {} items {:?}, expected {} items {:?}", pre, got.len(), head(&got), rest.len(), head(rest)));
        }
        let mut got: Vec<String> = Vec::new();
        after(pre).for_each(|x| got.push(row(x)));
        if got != rest {
            fails.push(format!("after {} next(): for_each() delivers {:?}, expected {:?}", pre, head(&got), head(rest)));
        }
        let got: Vec<String> = after(pre).map(|x| row(x)).collect();
        if got != rest {
            fails.push(format!("after {} next(): map().collect() delivers {:?}, expected {:?}", pre, head(&got), head(rest)));
        }
        let c = after(pre).count();
        if c != rest.len() {
            fails.push(format!("after {} next(): count() = {}, expected {}", pre, c, rest.len()));
        }
        let l = after(pre).last().map(|x| row(x));
        if l.as_ref() != rest.last() {
            fails.push(format!("after {} next(): last() = {:?}, expected {:?}", pre, l, rest.last()));
        }
        // try_fold based consumers
        let mut seen = 0usize;
        let all = after(pre).all(|_| {
            seen += 1;
            true
        });
        if !all || seen != rest.len() {
            fails.push(format!("after {} next(): all() visited {} items, expected {}", pre, seen, rest.len()));
        }
        for k in [0usize, 1, 2, 3, rest.len() / 2, rest.len().saturating_sub(1), rest.len(), rest.len() + 1] {
            let mut it = after(pre);
            let got = it.nth(k).map(|x| row(x));
            if got.as_ref() != rest.get(k) {
                fails.push(format!("after {} next(): nth({}) = {:?}, expected {:?}", pre, k, got, rest.get(k)));
            } else if got.is_some() {
                let tail: Vec<String> = it.map(|x| row(x)).collect();
                if tail != rest[k + 1..] {
                    fails.push(format!("after {} next() and nth({}): the rest is {:?}, expected {:?}", pre, k, head(&tail), head(&rest[k + 1..])));
                }
            }
            let got: Vec<String> = after(pre).skip(k).map(|x| row(x)).collect();
            let exp: &[String] = if k <= rest.len() { &rest[k..] } else { &[] };
            if got != exp {
                fails.push(format!("after {} next(): skip({}) delivers {:?}, expected {:?}", pre, k, head(&got), head(exp)));
            }
            let mut it = after(pre);
            let first: Vec<String> = it.by_ref().take(k).map(|x| row(x)).collect();
            let tail: Vec<String> = it.map(|x| row(x)).collect();
            let cut = k.min(rest.len());
            if first != rest[..cut] || tail != rest[cut..] {
                fails.push(format!("after {} next(): by_ref().take({}) + rest delivers {:?} + {:?}, expected {:?} + {:?}", pre, k, head(&first), head(&tail), head(&rest[..cut]), head(&rest[cut..])));
            }
            if k < rest.len() {
                // find / position stop in the middle and must leave the iterator right behind the hit
                let mut it = after(pre);
                let mut i = 0usize;
                let hit = it.find(|_| {
                    i += 1;
                    i == k + 1
                });
                let tail: Vec<String> = it.map(|x| row(x)).collect();
                if hit.map(|x| row(x)).as_ref() != rest.get(k) || tail != rest[k + 1..] {
                    fails.push(format!("after {} next(): find() of item #{} and the rest disagree with the plain expansion", pre, k));
                }
            }
        }
        for step in [2usize, 3] {
            let got: Vec<String> = after(pre).step_by(step).map(|x| row(x)).collect();
            let exp: Vec<String> = rest.iter().step_by(step).cloned().collect();
            if got != exp {
                fails.push(format!("after {} next(): step_by({}) delivers {:?}, expected {:?}", pre, step, head(&got), head(&exp)));
            }
        }
        {
            let mut it = after(pre).peekable();
            let p = it.peek().map(|_| ());
            let got: Vec<String> = it.map(|x| row(x)).collect();
            if got != rest || p.is_some() != !rest.is_empty() {
                fails.push(format!("after {} next(): peekable().peek() then collect delivers {:?}, expected {:?}", pre, head(&got), head(rest)));
            }
        }
        {
            // a chained / zipped consumer (advances through try_fold / next of the inner iterator)
            let got: Vec<String> = after(pre).chain(std::iter::empty()).map(|x| row(x)).collect();
            if got != rest {
                fails.push(format!("after {} next(): chain(empty()) delivers {:?}, expected {:?}", pre, head(&got), head(rest)));
            }
            let got: Vec<String> = after(pre).zip(0..).map(|(x, _)| row(x)).collect();
            if got != rest {
                fails.push(format!("after {} next(): zip(0..) delivers {:?}, expected {:?}", pre, head(&got), head(rest)));
            }
            let got: Vec<String> = after(pre).enumerate().filter(|(i, _)| i % 2 == 1).map(|(_, x)| row(x)).collect();
            let exp: Vec<String> = rest.iter().skip(1).step_by(2).cloned().collect();
            if got != exp {
                fails.push(format!("after {} next(): enumerate().filter(odd) delivers {:?}, expected {:?}", pre, head(&got), head(&exp)));
            }
        }
        if fails.len() > 6 {
            break;
        }
    }
    fails.truncate(6);
    fails
}

fn head(v: &[String]) -> Vec<&str> {
    v.iter().take(6).map(|s| s.as_str()).collect()
}
