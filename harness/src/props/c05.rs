//! C05 — rendered unified diffs are well-formed and apply exactly (R-PATCH).

use std::io::{self, Write};

use similar::verif_hooks as vh;
use similar::{Algorithm, TextDiff};

use crate::engine::{family, guard, Config, Family, Local};
use crate::patch_ref;
use crate::props::captured::KF1;
use crate::props::common::*;
use crate::rng::Rng;
use crate::text_gen;
use crate::tok_ref::show;

pub const RADII: [usize; 7] = [0, 1, 2, 3, 5, usize::MAX / 2 + 1, usize::MAX];

/// A sink that accepts at most `max` bytes per `write` call (a legal `io::Write`).
struct ShortWriter {
    buf: Vec<u8>,
    max: usize,
}

impl Write for ShortWriter {
    fn write(&mut self, data: &[u8]) -> io::Result<usize> {
        let n = data.len().min(self.max);
        self.buf.extend_from_slice(&data[..n]);
        Ok(n)
    }
    fn flush(&mut self) -> io::Result<()> {
        Ok(())
    }
}

/// A sink that misbehaves the way real ones legally do: every `interrupt_every`-th `write` call
/// fails with `ErrorKind::Interrupted` (nothing consumed - the caller is expected to retry, as
/// `write_all` does), and once `room` bytes have been accepted every further `write` fails hard.
struct HostileSink {
    buf: Vec<u8>,
    calls: u64,
    interrupt_every: u64,
    room: usize,
    max: usize,
}

impl Write for HostileSink {
    fn write(&mut self, data: &[u8]) -> io::Result<usize> {
        self.calls += 1;
        if self.interrupt_every > 0 && self.calls % self.interrupt_every == 0 {
            return Err(io::Error::new(io::ErrorKind::Interrupted, "interrupted"));
        }
        if data.is_empty() {
            return Ok(0);
        }
        if self.buf.len() >= self.room {
            return Err(io::Error::new(io::ErrorKind::Other, "sink full"));
        }
        let n = data.len().min(self.max).min(self.room - self.buf.len());
        self.buf.extend_from_slice(&data[..n]);
        Ok(n)
    }
    fn flush(&mut self) -> io::Result<()> {
        Ok(())
    }
}

#[derive(Clone, Copy, Debug)]
struct Render {
    radius: usize,
    header: bool,
    hint: bool,
}

struct Rendered {
    writer: Vec<u8>,
    display: String,
    short: Vec<u8>,
    swaps: u64,
    api_mismatch: Option<String>,
    /// failures observed with interrupting / hard-failing sinks
    sink_fails: Vec<(&'static str, String)>,
}

const HDR: (&str, &str) = ("a/old name.txt", "b/new.txt");

fn render(alg: Algorithm, as_str: bool, old: &[u8], new: &[u8], r: Render, repair: bool) -> Result<Rendered, String> {
    let swaps0 = vh::swaps();
    vh::set_swap_repair(repair);
    let res = guard(|| {
        let mut c = TextDiff::configure();
        c.algorithm(alg);
        macro_rules! go {
            ($d:expr) => {{
                let d = $d;
                let mut u = d.unified_diff();
                u.context_radius(r.radius).missing_newline_hint(r.hint);
                if r.header {
                    u.header(HDR.0, HDR.1);
                }
                let mut w = Vec::new();
                u.to_writer(&mut w).expect("Vec<u8> never fails");
                // hunk-level API: the whole diff is the (optional) file header + every hunk
                let mut by_hunks: Vec<u8> = Vec::new();
                let mut by_hunks_display = String::new();
                let mut first = true;
                for h in u.iter_hunks() {
                    if first && r.header {
                        by_hunks.extend_from_slice(format!("--- {}\n+++ {}\n", HDR.0, HDR.1).as_bytes());
                        by_hunks_display.push_str(&format!("--- {}\n+++ {}\n", HDR.0, HDR.1));
                    }
                    first = false;
                    let before = by_hunks.len();
                    h.to_writer(&mut by_hunks).expect("Vec<u8> never fails");
                    by_hunks_display.push_str(&h.to_string());
                    // the hunk's own header() is the first line it writes
                    let hl = format!("{}\n", h.header());
                    if !by_hunks[before..].starts_with(hl.as_bytes()) {
                        by_hunks.extend_from_slice(b"<<hunk.header() differs from the written header line>>");
                    }
                }
                let api_mismatch = if by_hunks != w {
                    Some(format!("header + iter_hunks().map(to_writer) gives {} but UnifiedDiff::to_writer {}", show(&by_hunks), show(&w)))
                } else if by_hunks_display != u.to_string() {
                    Some("header + iter_hunks().map(to_string) differs from UnifiedDiff::to_string".to_string())
                } else {
                    None
                };
                let mut sw = ShortWriter { buf: Vec::new(), max: 3 };
                u.to_writer(&mut sw).expect("ShortWriter never fails");
                let mut sink_fails: Vec<(&'static str, String)> = Vec::new();
                // (1) a sink that reports EINTR on every 2nd / 3rd write call: `write_all` semantics retry
                for every in [2u64, 3] {
                    let mut hs = HostileSink { buf: Vec::new(), calls: 0, interrupt_every: every, room: usize::MAX, max: if every == 2 { usize::MAX } else { 5 } };
                    match u.to_writer(&mut hs) {
                        Err(e) => sink_fails.push(("patch.interrupted_write_not_retried", format!("a sink whose every {}th write call fails with ErrorKind::Interrupted (to be retried) makes to_writer give up: {:?}", every, e))),
                        Ok(()) => {
                            if hs.buf != w {
                                sink_fails.push(("patch.short_writes_lose_bytes", format!("a sink that interrupts every {}th write call received {} instead of {}", every, show(&hs.buf), show(&w))));
                            }
                        }
                    }
                }
                // (2) a sink that fails hard after accepting `room` bytes: Ok(()) may only be returned
                // when every byte was delivered, and what was delivered is a prefix of the output
                if !w.is_empty() {
                    for room in [0usize, 1, w.len() / 2, w.len() - 1] {
                        let mut hs = HostileSink { buf: Vec::new(), calls: 0, interrupt_every: 0, room, max: usize::MAX };
                        let res = u.to_writer(&mut hs);
                        if !w.starts_with(&hs.buf) {
                            sink_fails.push(("patch.short_writes_lose_bytes", format!("a sink with room for {} bytes received {} which is no prefix of {}", room, show(&hs.buf), show(&w))));
                        }
                        if res.is_ok() && hs.buf != w {
                            sink_fails.push(("patch.sink_error_swallowed", format!("a sink that fails after {} of {} bytes: to_writer returned Ok(()) although only {} bytes were delivered", room, w.len(), hs.buf.len())));
                        }
                    }
                }
                (w, u.to_string(), sw.buf, api_mismatch, sink_fails)
            }};
        }
        if as_str {
            let so = std::str::from_utf8(old).unwrap();
            let sn = std::str::from_utf8(new).unwrap();
            go!(c.diff_lines(so, sn))
        } else {
            go!(c.diff_lines(old, new))
        }
    });
    vh::set_swap_repair(false);
    let swaps = vh::swaps() - swaps0;
    res.map(|(writer, display, short, api_mismatch, sink_fails)| Rendered { writer, display, short, swaps, api_mismatch, sink_fails })
}

/// One formatter object used twice: render with `r1`, reconfigure to `r2`, render again.  The
/// second rendering must be exactly what a fresh formatter configured with `r2` produces.
fn reuse_mismatch(alg: Algorithm, as_str: bool, old: &[u8], new: &[u8], r1: Render, r2: Render) -> Result<Option<String>, String> {
    guard(|| {
        let mut c = TextDiff::configure();
        c.algorithm(alg);
        macro_rules! go {
            ($d:expr) => {{
                let d = $d;
                let mut u = d.unified_diff();
                if r2.header {
                    u.header(HDR.0, HDR.1);
                }
                u.context_radius(r1.radius).missing_newline_hint(r1.hint);
                let first = u.to_string();
                let hunks_first = u.iter_hunks().count();
                u.context_radius(r2.radius).missing_newline_hint(r2.hint);
                let second = u.to_string();
                let mut second_w = Vec::new();
                u.to_writer(&mut second_w).unwrap();
                let hunks_second = u.iter_hunks().count();
                let mut f = d.unified_diff();
                if r2.header {
                    f.header(HDR.0, HDR.1);
                }
                f.context_radius(r2.radius).missing_newline_hint(r2.hint);
                let fresh = f.to_string();
                let mut fresh_w = Vec::new();
                f.to_writer(&mut fresh_w).unwrap();
                let hunks_fresh = f.iter_hunks().count();
                let _ = (first, hunks_first);
                if second != fresh || second_w != fresh_w || hunks_second != hunks_fresh {
                    Some(format!(
                        "a formatter first rendered with radius {} / hint {} and then reconfigured to radius {} / hint {} renders {} ({} hunks) but a fresh formatter renders {} ({} hunks)",
                        r1.radius, r1.hint, r2.radius, r2.hint, show(&second_w), hunks_second, show(&fresh_w), hunks_fresh
                    ))
                } else {
                    None
                }
            }};
        }
        if as_str {
            let so = std::str::from_utf8(old).unwrap();
            let sn = std::str::from_utf8(new).unwrap();
            go!(c.diff_lines(so, sn))
        } else {
            go!(c.diff_lines(old, new))
        }
    })
}

/// SETTER SEQUENCES: one formatter object receives a random sequence of setter calls (radius, hint and
/// header, each possibly several times, in any order) with renderings in between; what it renders at the
/// end must be what a fresh formatter renders that received each setter ONCE with the last value, in two
/// different orders.  (A setter that resets or accumulates another option, or a stale cache, shows here.)
fn setter_sequence_mismatch(alg: Algorithm, as_str: bool, old: &[u8], new: &[u8], seed: u64) -> Result<Option<String>, String> {
    let mut rng = Rng::for_case(seed, "c05.setter_sequence", crate::engine::digest(&(old, new, as_str)));
    const NAMES: [(&str, &str); 3] = [("old.txt", "new.txt"), ("a/file", "b/file"), ("x", "y")];
    let steps: Vec<(u8, usize)> = (0..2 + rng.below(6))
        .map(|_| match rng.below(5) {
            0 | 1 => (0u8, *rng.pick(&[0usize, 1, 2, 3, 5, 9])),
            2 => (1u8, rng.below(2)),
            3 => (2u8, rng.below(3)),
            _ => (3u8, rng.below(3)),
        })
        .collect();
    let (mut radius, mut hint, mut header) = (3usize, true, None);
    for (k, v) in &steps {
        match k {
            0 => radius = *v,
            1 => hint = *v == 1,
            2 => header = Some(NAMES[*v]),
            _ => {}
        }
    }
    let steps2 = steps.clone();
    guard(move || {
        let mut c = TextDiff::configure();
        c.algorithm(alg);
        macro_rules! go {
            ($d:expr) => {{
                let d = $d;
                let mut u = d.unified_diff();
                for (k, v) in &steps2 {
                    match k {
                        0 => {
                            u.context_radius(*v);
                        }
                        1 => {
                            u.missing_newline_hint(*v == 1);
                        }
                        2 => {
                            u.header(NAMES[*v].0, NAMES[*v].1);
                        }
                        _ => match v {
                            0 => {
                                let _ = u.to_string();
                            }
                            1 => {
                                let _ = u.iter_hunks().count();
                            }
                            _ => {
                                let mut w = Vec::new();
                                u.to_writer(&mut w).unwrap();
                            }
                        },
                    }
                }
                let got = u.to_string();
                let mut got_w = Vec::new();
                u.to_writer(&mut got_w).unwrap();
                let mut f1 = d.unified_diff();
                if let Some((x, y)) = header {
                    f1.header(x, y);
                }
                f1.context_radius(radius).missing_newline_hint(hint);
                let mut f2 = d.unified_diff();
                f2.missing_newline_hint(hint).context_radius(radius);
                if let Some((x, y)) = header {
                    f2.header(x, y);
                }
                let (e1, e2) = (f1.to_string(), f2.to_string());
                let mut e1_w = Vec::new();
                f1.to_writer(&mut e1_w).unwrap();
                if e1 != e2 {
                    Some(format!("two fresh formatters given radius {} / hint {} / header {:?} in different setter orders render {} and {}", radius, hint, header, show(e1.as_bytes()), show(e2.as_bytes())))
                } else if got != e1 || got_w != e1_w {
                    Some(format!(
                        "after the setter sequence {:?} (0 = radius, 1 = hint, 2 = header #, 3 = a rendering in between) the formatter renders {} but a fresh formatter with the final options radius {} / hint {} / header {:?} renders {}",
                        steps2, show(&got_w), radius, hint, header, show(&e1_w)
                    ))
                } else {
                    None
                }
            }};
        }
        if as_str {
            let so = std::str::from_utf8(old).unwrap();
            let sn = std::str::from_utf8(new).unwrap();
            go!(c.diff_lines(so, sn))
        } else {
            go!(c.diff_lines(old, new))
        }
    })
}

fn strict_failures(old: &[u8], new: &[u8], bytes: &[u8], r: Render) -> Vec<(&'static str, String)> {
    if old == new {
        return if bytes.is_empty() {
            vec![]
        } else {
            vec![("patch.equal_inputs_not_empty", format!("equal inputs rendered as {}", show(bytes)))]
        };
    }
    let header = if r.header { Some(HDR) } else { None };
    match patch_ref::parse(bytes, header, r.hint) {
        Err((code, msg)) => vec![(code, msg)],
        Ok(p) => {
            let mut f = patch_ref::apply_strict(old, new, &p, r.radius, r.hint);
            if bytes.is_empty() {
                f.push(("patch.empty_for_different_inputs", "different inputs rendered as the empty string".into()));
            }
            f
        }
    }
}

fn only_hunk_headers_differ(a: &[u8], b: &[u8]) -> bool {
    let la = patch_ref::physical_lines(a);
    let lb = patch_ref::physical_lines(b);
    la.len() == lb.len() && la.iter().zip(lb.iter()).all(|(x, y)| x == y || (x.starts_with(b"@@ -") && y.starts_with(b"@@ -")))
}

fn case(cfg: &Config, alg: Algorithm, old: &[u8], new: &[u8], renders: &[Render], out: &mut Local) {
    let valid = std::str::from_utf8(old).is_ok() && std::str::from_utf8(new).is_ok();
    for as_str in [false, true] {
        if as_str && !valid {
            continue;
        }
        for &r in renders {
            let ctx = || {
                format!(
                    "alg={} type={} radius={} header={} hint={} old={} new={}",
                    alg_name(alg),
                    if as_str { "str" } else { "[u8]" },
                    r.radius,
                    r.header,
                    r.hint,
                    show(old),
                    show(new)
                )
            };
            out.eval();
            let rd = match render(alg, as_str, old, new, r, false) {
                Err(p) => {
                    out.violation("panic", format!("rendering panicked: {} | {}", p, ctx()));
                    continue;
                }
                Ok(rd) => rd,
            };
            out.count_n("rendered_bytes", rd.writer.len() as u64);
            if rd.writer.len() >= 65536 {
                out.count("renderings_of_64KiB_or_more");
            }
            out.count_n("hunk_headers_observed", patch_ref::physical_lines(&rd.writer).iter().filter(|l| l.starts_with(b"@@ -")).count() as u64);
            // writer vs Display vs short-writing sink
            if valid {
                if rd.display.as_bytes() != &rd.writer[..] {
                    out.violation("patch.writer_vs_display", format!("to_writer wrote {} but Display gives {} | {}", show(&rd.writer), show(rd.display.as_bytes()), ctx()));
                }
            } else if String::from_utf8_lossy(&rd.writer) != rd.display {
                out.violation(
                    "patch.display_not_lossy_writer",
                    format!("Display {} is not the lossy decoding of the writer's bytes {} | {}", show(rd.display.as_bytes()), show(&rd.writer), ctx()),
                );
            }
            if let Some(m) = &rd.api_mismatch {
                out.violation("patch.hunk_api_disagrees", format!("{} | {}", m, ctx()));
            }
            for (code, msg) in &rd.sink_fails {
                out.violation(code, format!("{} | {}", msg, ctx()));
            }
            if rd.short != rd.writer {
                out.violation(
                    "patch.short_writes_lose_bytes",
                    format!("a sink that accepts 3 bytes per write received {} instead of {} | {}", show(&rd.short), show(&rd.writer), ctx()),
                );
            }
            // strict parse + apply of the written bytes
            let fails = strict_failures(old, new, &rd.writer, r);
            if fails.is_empty() {
                out.count("renderings_applied_strictly");
                continue;
            }
            // attribution to the listed known finding
            let mut is_kf1 = false;
            if cfg.is_known(KF1) && rd.swaps > 0 && fails.iter().all(|(c, _)| c.starts_with("patch.header_") || *c == "patch.line_mismatch" || *c == "patch.old_line_past_end" || *c == "patch.result_differs") {
                if let Ok(rep) = render(alg, as_str, old, new, r, true) {
                    if strict_failures(old, new, &rep.writer, r).is_empty() && only_hunk_headers_differ(&rd.writer, &rep.writer) {
                        is_kf1 = true;
                    }
                }
            }
            if is_kf1 {
                out.known_finding(KF1, || format!("{} | rendered {} | {}", fails[0].1, show(&rd.writer), ctx()));
            } else {
                for (code, msg) in &fails {
                    out.violation(code, format!("{} | rendered {} | swaps in this diff: {} | {}", msg, show(&rd.writer), rd.swaps, ctx()));
                }
            }
        }
    }
    // formatter objects are reusable: reconfiguring after a rendering must take effect
    for as_str in [false, true] {
        if as_str && !valid {
            continue;
        }
        out.eval();
        out.count("setter_sequences_run");
        match setter_sequence_mismatch(alg, as_str, old, new, cfg.seed) {
            Err(p) => out.violation("panic", format!("formatter setter sequence panicked: {} | old={} new={}", p, show(old), show(new))),
            Ok(Some(m)) => out.violation("patch.setter_sequence", format!("{} | alg={} type={} old={} new={}", m, alg_name(alg), if as_str { "str" } else { "[u8]" }, show(old), show(new))),
            Ok(None) => {}
        }
        for w in renders.windows(2) {
            out.eval();
            match reuse_mismatch(alg, as_str, old, new, w[0], w[1]) {
                Err(p) => out.violation("panic", format!("re-used formatter panicked: {} | old={} new={}", p, show(old), show(new))),
                Ok(Some(m)) => out.violation("patch.reused_formatter", format!("{} | alg={} type={} old={} new={}", m, alg_name(alg), if as_str { "str" } else { "[u8]" }, show(old), show(new))),
                Ok(None) => out.count("formatter_reuse_sequences_verified"),
            }
        }
    }
    // line diffs built from pre-split line tokens (diff_slices): Display and to_writer must still
    // agree byte for byte (UTF-8), hunk by hunk; with newline_terminated(true) it IS a line diff
    // and must apply strictly
    for as_str in [false, true] {
        if as_str && !valid {
            continue;
        }
        for &r in renders.iter().take(2) {
            out.eval();
            let res = guard(|| {
                let mut c = TextDiff::configure();
                c.algorithm(alg);
                macro_rules! go {
                    ($old:expr, $new:expr) => {{
                        let ta = similar::DiffableStr::tokenize_lines($old);
                        let tb = similar::DiffableStr::tokenize_lines($new);
                        let plain = c.diff_slices(&ta, &tb);
                        let mut u = plain.unified_diff();
                        u.context_radius(r.radius);
                        let mut w = Vec::new();
                        u.to_writer(&mut w).unwrap();
                        let disp = u.to_string();
                        let mut by_hunks = String::new();
                        for h in u.iter_hunks() {
                            by_hunks.push_str(&h.to_string());
                        }
                        let mut c2 = c.clone();
                        c2.newline_terminated(true);
                        let flagged = c2.diff_slices(&ta, &tb);
                        let mut u2 = flagged.unified_diff();
                        u2.context_radius(r.radius).missing_newline_hint(r.hint);
                        let mut w2 = Vec::new();
                        u2.to_writer(&mut w2).unwrap();
                        (w, disp, by_hunks, w2, u2.to_string())
                    }};
                }
                if as_str {
                    go!(std::str::from_utf8(old).unwrap(), std::str::from_utf8(new).unwrap())
                } else {
                    go!(old, new)
                }
            });
            let ctx2 = || format!("diff_slices over line tokens | alg={} type={} radius={} old={} new={}", alg_name(alg), if as_str { "str" } else { "[u8]" }, r.radius, show(old), show(new));
            match res {
                Err(p) => out.violation("panic", format!("{} | {}", p, ctx2())),
                Ok((w, disp, by_hunks, w2, disp2)) => {
                    let same = if valid { disp.as_bytes() == &w[..] } else { String::from_utf8_lossy(&w) == disp };
                    if !same {
                        out.violation("patch.writer_vs_display", format!("to_writer wrote {} but Display gives {} | {}", show(&w), show(disp.as_bytes()), ctx2()));
                    }
                    if by_hunks != disp {
                        out.violation("patch.hunk_api_disagrees", format!("concatenated hunk Displays {} differ from the diff's Display {} | {}", show(by_hunks.as_bytes()), show(disp.as_bytes()), ctx2()));
                    }
                    let same2 = if valid { disp2.as_bytes() == &w2[..] } else { String::from_utf8_lossy(&w2) == disp2 };
                    if !same2 {
                        out.violation("patch.writer_vs_display", format!("(newline_terminated(true)) to_writer wrote {} but Display gives {} | {}", show(&w2), show(disp2.as_bytes()), ctx2()));
                    }
                    // with the flag set this is a line diff: strict application (header off here)
                    let r2 = Render { radius: r.radius, header: false, hint: r.hint };
                    let fails = strict_failures(old, new, &w2, r2);
                    if !fails.is_empty() && !fails.iter().all(|(c, _)| c.starts_with("patch.header_") || *c == "patch.line_mismatch" || *c == "patch.old_line_past_end" || *c == "patch.result_differs") {
                        for (code, msg) in &fails {
                            out.violation(code, format!("(diff_slices + newline_terminated(true)) {} | rendered {} | {}", msg, show(&w2), ctx2()));
                        }
                    } else if !fails.is_empty() {
                        // header-type failures of slices-based diffs are the same KF1 territory as above
                        out.count("slices_based_header_failures_left_to_the_main_path");
                    } else {
                        out.count("slices_based_renderings_applied_strictly");
                    }
                }
            }
        }
    }
    // CALLER-SUPPLIED line items (diff_slices + newline_terminated(true)) in which INTERIOR items lack their
    // terminator as well: the marker must follow exactly the items lacking one, and the hunks must apply
    // strictly to the caller's items (hint on)
    {
        let strip = |l: &[u8]| -> usize {
            if l.ends_with(b"\r\n") {
                l.len() - 2
            } else if l.ends_with(b"\n") || l.ends_with(b"\r") {
                l.len() - 1
            } else {
                l.len()
            }
        };
        let items = |t: &[u8], salt: usize| -> Vec<Vec<u8>> {
            crate::patch_ref::physical_lines(t)
                .into_iter()
                .enumerate()
                .map(|(i, l)| {
                    let h = (i * 7 + l.len() * 3 + salt) % 4;
                    if h == 0 && strip(l) > 0 { l[..strip(l)].to_vec() } else { l.to_vec() }
                })
                .collect()
        };
        let (ia, ib) = (items(old, 1), items(new, 2));
        if ia != ib && ia.iter().chain(ib.iter()).all(|l| !l.is_empty()) {
            let ra: Vec<&[u8]> = ia.iter().map(|v| &v[..]).collect();
            let rb: Vec<&[u8]> = ib.iter().map(|v| &v[..]).collect();
            let new_concat: Vec<u8> = ib.concat();
            for &r in renders.iter().filter(|r| r.hint).take(1) {
                out.eval();
                out.count("caller_item_renderings");
                let res = guard(|| {
                    let mut c = TextDiff::configure();
                    c.algorithm(alg).newline_terminated(true);
                    let d = c.diff_slices(&ra, &rb);
                    let mut u = d.unified_diff();
                    u.context_radius(r.radius).missing_newline_hint(true);
                    let mut w = Vec::new();
                    u.to_writer(&mut w).unwrap();
                    (w, vh::swaps())
                });
                match res {
                    Err(p) => out.violation("panic", format!("diff_slices over caller items panicked: {} | old items={:?} new items={:?}", p, ia.iter().map(|x| show(x)).collect::<Vec<_>>(), ib.iter().map(|x| show(x)).collect::<Vec<_>>())),
                    Ok((w, _)) => {
                        let fails = match patch_ref::parse(&w, None, true) {
                            Err((code, msg)) => vec![(code, msg)],
                            Ok(p) => patch_ref::apply_strict_lines(&ra, &new_concat, &p, r.radius, true),
                        };
                        // header positions of swapped pairs are KF1 territory (decided on the main path above)
                        if fails.iter().any(|(c, _)| c.starts_with("patch.header_")) {
                            out.count("caller_item_header_failures_left_to_the_main_path");
                        } else {
                            for (code, msg) in &fails {
                                out.violation(code, format!("(caller-supplied line items, some interior ones without terminator, newline_terminated(true)) {} | rendered {} | alg={} radius={} old items={:?} new items={:?}", msg, show(&w), alg_name(alg), r.radius, ia.iter().map(|x| show(x)).collect::<Vec<_>>(), ib.iter().map(|x| show(x)).collect::<Vec<_>>()));
                            }
                            if fails.is_empty() {
                                out.count("caller_item_renderings_applied_strictly");
                            }
                        }
                    }
                }
            }
        }
    }
    // udiff::unified_diff helper (str only)
    if valid {
        let so = std::str::from_utf8(old).unwrap();
        let sn = std::str::from_utf8(new).unwrap();
        for &r in renders.iter().filter(|r| r.hint).take(2) {
            out.eval();
            let h = if r.header { Some(HDR) } else { None };
            let got = guard(|| similar::udiff::unified_diff(alg, so, sn, r.radius, h));
            let want = render(alg, true, old, new, r, false);
            match (got, want) {
                (Ok(g), Ok(w)) => {
                    if g != w.display {
                        out.violation("patch.helper_differs", format!("udiff::unified_diff gives {} but the builder gives {} | alg={} radius={} header={}", show(g.as_bytes()), show(w.display.as_bytes()), alg_name(alg), r.radius, r.header));
                    }
                }
                (Err(p), _) => out.violation("panic", format!("udiff::unified_diff panicked: {} | old={} new={}", p, show(old), show(new))),
                _ => {}
            }
        }
    }
}

pub fn families() -> Vec<Box<dyn Family>> {
    vec![
        family(
            "txt_rnd",
            "G-TXT line texts (lines from a small pool so they repeat; terminators LF/CRLF/CR/blank lines; last line with or without newline; same / independent / line-level and word-level edits; every third case with invalid UTF-8, [u8] only) x one algorithm x 4 renderings drawn from radius {0,1,2,3,5,MAX/2+1,MAX} x header on/off x hint on (every 4th rendering: hint off) x {str,[u8]} x {to_writer, Display, short-writing sink}; non-trivial = texts differ",
            false,
            8,
            |cfg| cfg.n(20_000, 400_000),
            |idx, cfg, out| {
                let mut rng = Rng::for_case(cfg.seed, "c05.txt_rnd", idx);
                let (a, b) = text_gen::text_pair(&mut rng, if cfg.tiny { 3 } else { 9 }, idx % 3 == 0);
                let alg = ALGS[rng.below(3)];
                let renders: Vec<Render> = (0..4)
                    .map(|k| Render {
                        radius: *rng.pick(&RADII),
                        header: rng.chance(1, 2),
                        hint: k != 3,
                    })
                    .collect();
                out.sample(|| format!("alg={} old={} new={} renderings={:?}", alg_name(alg), show(&a), show(&b), renders));
                if a != b {
                    out.nontrivial(&(alg_name(alg), &a, &b));
                }
                case(cfg, alg, &a, &b, &renders, out);
            },
        ),
        family(
            "long_texts",
            "long line texts (30..3000 lines quick / 20000 thorough; vocabulary 3 / 40 / unique; LF, CRLF, CR or mixed terminators; missing final newline) with up to 12 scattered line edits (delete/insert blocks, duplicate, swap, replace) so that diffs have MANY hunks at multi-digit line numbers x one algorithm x 3 renderings",
            false,
            1,
            |cfg| cfg.n(150, 2_000),
            |idx, cfg, out| {
                let mut rng = Rng::for_case(cfg.seed, "c05.long_texts", idx);
                let n = if cfg.tiny { 6 } else { *rng.pick(&[30usize, 99, 100, 101, 999, 1000, 1001, cfg.tier.pick(3000, 20_000)]) };
                let n = if n > 1001 { rng.range(1500, n) } else { n };
                let (a, b) = text_gen::long_text_pair(&mut rng, n, 12);
                let alg = if n <= 300 { ALGS[rng.below(3)] } else { ALGS[rng.below(2)] };
                let renders: Vec<Render> = (0..3)
                    .map(|_| Render {
                        radius: *rng.pick(&[0usize, 1, 3, 3, 7, 50]),
                        header: rng.chance(1, 2),
                        hint: true,
                    })
                    .collect();
                out.sample(|| format!("alg={} {} lines, renderings={:?}, old starts {}", alg_name(alg), n, renders, show(&a[..a.len().min(60)])));
                if a != b {
                    out.nontrivial(&(alg_name(alg), &a, &b));
                }
                case(cfg, alg, &a, &b, &renders, out);
            },
        ),
        family(
            "line_lengths",
            "lines of an EXACT byte length L (terminator included) for every L in 1..=300 and 2^k-2..=2^k+2 for k = 9..17 (fixed-size buffers, power-of-two blocks): a context line, a deleted and an inserted line of that length (ASCII, 2-byte and 3-byte characters, LF / CRLF / missing final newline) x {str,[u8]} x radius {0,1} through to_writer, Display and the short-writing sink + strict application",
            true,
            1,
            |cfg| if cfg.tiny { 6 } else { 300 + 9 * 5 },
            |idx, cfg, out| {
                let l: usize = if cfg.tiny {
                    1 + idx as usize * 3
                } else if idx < 300 {
                    idx as usize + 1
                } else {
                    let j = idx as usize - 300;
                    (1usize << (9 + j / 5)) - 2 + j % 5
                };
                let mut rng = Rng::for_case(cfg.seed, "c05.line_lengths", idx);
                // a line of exactly l bytes ending in `term` (content shortened to fit; never empty lines of 0 bytes)
                let mk = |fill: &str, last: char, term: &str, l: usize| -> Option<String> {
                    if l < term.len() + last.len_utf8() {
                        return None;
                    }
                    let mut body = String::new();
                    let room = l - term.len() - last.len_utf8();
                    while body.len() + fill.len() <= room {
                        body.push_str(fill);
                    }
                    while body.len() < room {
                        body.push('.');
                    }
                    body.push(last);
                    body.push_str(term);
                    debug_assert_eq!(body.len(), l);
                    Some(body)
                };
                let fill = *rng.pick(&["x", "ab ", "\u{e9}", "\u{20ac}", "w \u{1f600}"]);
                let term = *rng.pick(&["\n", "\n", "\r\n"]);
                let last_term = *rng.pick(&["\n", "", "\r\n"]);
                let (Some(ctx_line), Some(del), Some(ins)) = (mk(fill, 'c', term, l), mk(fill, 'o', term, l), mk(fill, 'n', term, l)) else {
                    // too short for this terminator: single-byte lines
                    let (a, b) = (b"\n\n".to_vec(), b"\n".to_vec());
                    case(cfg, Algorithm::Myers, &a, &b, &[Render { radius: 1, header: true, hint: true }], out);
                    return;
                };
                let tail = mk(fill, 't', last_term, l.max(last_term.len() + 1)).unwrap();
                let a = format!("{}{}{}", ctx_line, del, tail).into_bytes();
                let b = format!("{}{}{}", ctx_line, ins, tail).into_bytes();
                out.sample(|| format!("lines of exactly {} bytes (fill {:?}, terminators {:?} / last {:?})", l, fill, term, last_term));
                out.nontrivial(&(l, fill, term, last_term));
                out.count("exact_line_length_cases");
                let alg = ALGS[rng.below(3)];
                case(cfg, alg, &a, &b, &[Render { radius: 1, header: true, hint: true }, Render { radius: 0, header: false, hint: true }], out);
            },
        ),
        family(
            "large_outputs",
            "renderings of 64 KiB and more: 6000..12000-line texts (thorough 40000) with up to 40 scattered edits rendered with radius 3 / 50 / usize::MAX (whole file as one hunk), header on/off — to_writer vs Display vs short-writing sink + strict application",
            false,
            1,
            |cfg| if cfg.tiny { 1 } else { cfg.tier.pick(8, 40) },
            |idx, cfg, out| {
                let mut rng = Rng::for_case(cfg.seed, "c05.large_outputs", idx);
                let n = if cfg.tiny { 8 } else { rng.range(6000, cfg.tier.pick(12_000, 40_000)) };
                let (a, b) = text_gen::long_text_pair(&mut rng, n, 40);
                let alg = ALGS[rng.below(2)];
                let renders = [
                    Render { radius: 3, header: true, hint: true },
                    Render { radius: 50, header: false, hint: true },
                    Render { radius: usize::MAX, header: idx % 2 == 0, hint: true },
                ];
                out.sample(|| format!("alg={} {} lines", alg_name(alg), n));
                if a != b {
                    out.nontrivial(&(alg_name(alg), &a, &b));
                }
                out.count("large_output_cases");
                case(cfg, alg, &a, &b, &renders, out);
            },
        ),
        family(
            "distinct_boundary",
            "texts of n DISTINCT lines with n just below 256 / 1024 / 4096 / 65536 where a block is swapped for fresh lines so that the distinct lines of both sides together cross the boundary x {Myers, Patience} x 2 renderings",
            true,
            1,
            |cfg| if cfg.tiny { 1 } else { 8 },
            |idx, cfg, out| {
                let mut rng = Rng::for_case(cfg.seed, "c05.distinct_boundary", idx);
                let bound = if cfg.tiny { 8 } else { [256usize, 1024, 4096, 65536][(idx % 4) as usize] };
                let n = bound - 1 - rng.below(bound.min(400) / 4 + 1);
                let fresh = (rng.range(bound - n + 1, (bound - n + 1) + 300)).min(n);
                let (a, b) = text_gen::distinct_lines_pair(&mut rng, n, fresh, fresh);
                let alg = ALGS[(idx / 4 % 2) as usize];
                out.sample(|| format!("alg={} {} distinct old lines, {} fresh lines (boundary {})", alg_name(alg), n, fresh, bound));
                out.nontrivial(&(alg_name(alg), &a, &b));
                let renders = [Render { radius: 3, header: true, hint: true }, Render { radius: 0, header: false, hint: true }];
                case(cfg, alg, &a, &b, &renders, out);
            },
        ),
        family(
            "asymmetric_blocks",
            "a block of 10..6000 lines replaced by 10..6000 unrelated lines between common head and tail x {Myers, Patience} x 2 renderings",
            false,
            1,
            |cfg| if cfg.tiny { 1 } else { cfg.tier.pick(6, 48) },
            |idx, cfg, out| {
                let mut rng = Rng::for_case(cfg.seed, "c05.asymmetric_blocks", idx);
                let (l1, l2) = if cfg.tiny { (5, 1) } else { (*rng.pick(&text_gen::BLOCK_SIZES), *rng.pick(&text_gen::BLOCK_SIZES)) };
                let (head, tail) = (rng.below(200), rng.below(200));
                let (a, b) = text_gen::asymmetric_lines_pair(&mut rng, head, tail, l1, l2);
                let alg = ALGS[rng.below(2)];
                out.sample(|| format!("alg={} {} head lines, block of {} lines replaced by {} lines, {} tail lines", alg_name(alg), head, l1, l2, tail));
                out.nontrivial(&(alg_name(alg), head, tail, l1, l2));
                let renders = [Render { radius: 3, header: true, hint: true }, Render { radius: 0, header: false, hint: true }];
                case(cfg, alg, &a, &b, &renders, out);
            },
        ),
        family(
            "lines_exh",
            "exhaustive small line texts: every pair of texts of up to 3 (thorough 4) lines over the line pool {a LF, b LF, a CRLF, a CR} with the last line optionally unterminated x 3 algorithms x radius {0,1,MAX} x header on/off",
            true,
            16,
            |cfg| {
                let n = exh_texts(cfg.tier.pick(3, 4)).len() as u64;
                n * n
            },
            |idx, cfg, out| {
                let texts = exh_texts(cfg.tier.pick(3, 4));
                let n = texts.len() as u64;
                let a = &texts[(idx / n) as usize];
                let b = &texts[(idx % n) as usize];
                out.sample(|| format!("old={} new={}", show(a), show(b)));
                let renders = [
                    Render { radius: 0, header: false, hint: true },
                    Render { radius: 1, header: true, hint: true },
                    Render { radius: usize::MAX, header: false, hint: true },
                ];
                for alg in ALGS {
                    if a != b {
                        out.nontrivial(&(alg_name(alg), a, b));
                    }
                    case(cfg, alg, a, b, &renders, out);
                }
            },
        ),

        family(
            "deep_many_hunks",
            "STACK DEPTH: line texts with 1500..3000 separate small changes rendered with radius 0 and 1 (thousands of hunks), parsed and applied strictly; run with the stack of an ordinary thread in the small-stack stage (an unoptimised build)",
            false,
            1,
            |cfg| if cfg.tiny { 1 } else { cfg.tier.pick(2, 6) },
            |idx, cfg, out| {
                let mut rng = Rng::for_case(cfg.seed, "c05.deep", idx);
                let hunks = if cfg.tiny { 6 } else { rng.range(1500, 3000) };
                // only 1:1 replacements and pure insertions / deletions between distinct lines: no swap (KF1) involved
                let (mut a, mut b) = (Vec::new(), Vec::new());
                for h in 0..hunks {
                    a.extend_from_slice(format!("keep {}\n", h).as_bytes());
                    b.extend_from_slice(format!("keep {}\n", h).as_bytes());
                    match h % 3 {
                        0 => {
                            a.extend_from_slice(format!("old {}\n", h).as_bytes());
                            b.extend_from_slice(format!("new {}\n", h).as_bytes());
                        }
                        1 => b.extend_from_slice(format!("added {}\n", h).as_bytes()),
                        _ => a.extend_from_slice(format!("removed {}\n", h).as_bytes()),
                    }
                    a.extend_from_slice(format!("also {}\n", h).as_bytes());
                    b.extend_from_slice(format!("also {}\n", h).as_bytes());
                }
                out.sample(|| format!("{} hunks", hunks));
                out.nontrivial(&("deep", hunks, idx));
                out.count("deep_cases");
                for radius in [0usize, 1] {
                    let r = Render { radius, header: radius == 1, hint: true };
                    out.eval();
                    match render(Algorithm::Patience, idx % 2 == 0, &a, &b, r, false) {
                        Err(p) => out.violation("panic", format!("rendering {} hunks panicked: {}", hunks, p)),
                        Ok(rd) => {
                            if rd.display.as_bytes() != &rd.writer[..] {
                                out.violation("patch.writer_vs_display", format!("to_writer and Display differ on a diff of {} hunks", hunks));
                            }
                            for (code, msg) in strict_failures(&a, &b, &rd.writer, r) {
                                out.violation(code, format!("{} | {} hunks, radius {}", msg, hunks, radius));
                            }
                        }
                    }
                }
            },
        ),
    ]
}

fn exh_texts(max_lines: usize) -> &'static Vec<Vec<u8>> {
    use std::sync::OnceLock;
    static T3: OnceLock<Vec<Vec<u8>>> = OnceLock::new();
    static T4: OnceLock<Vec<Vec<u8>>> = OnceLock::new();
    let cell = if max_lines <= 3 { &T3 } else { &T4 };
    cell.get_or_init(|| {
        let pool: [&[u8]; 4] = [b"a\n", b"b\n", b"a\r\n", b"a\r"];
        let mut out: Vec<Vec<u8>> = vec![vec![]];
        let mut frontier: Vec<Vec<&[u8]>> = vec![vec![]];
        for _ in 0..max_lines {
            let mut next = Vec::new();
            for t in &frontier {
                for l in pool {
                    let mut t2 = t.clone();
                    t2.push(l);
                    next.push(t2);
                }
            }
            for t in &next {
                let full: Vec<u8> = t.concat();
                out.push(full.clone());
                // last line unterminated
                let last = t[t.len() - 1];
                let body_len = if last.ends_with(b"\r\n") { last.len() - 2 } else { last.len() - 1 };
                let mut cut = full.clone();
                cut.truncate(full.len() - (last.len() - body_len));
                out.push(cut);
            }
            frontier = next;
        }
        out.sort();
        out.dedup();
        out
    })
}
