//! C01 — every algorithm emits a sound, gap-free, index-exact edit script and
//! never panics, for all ranges and Index implementations.

use similar::algorithms::IdentifyDistinct;
use similar::Algorithm;

use crate::engine::{family, Config, Family, Local};
use crate::gen;
use crate::mon::{fmt_evs, CollidingElem, Ev, StrictLookup};
use crate::props::common::*;
use crate::rng::Rng;

pub fn families() -> Vec<Box<dyn Family>> {
    vec![
        family(
            "exh_full",
            "G-EXH: every ordered pair of sequences over {0,1,2} with length <= 5 (quick) / <= 6 (thorough), full ranges, x 3 algorithms x {algorithms::diff, diff_slices, <alg>::diff}; non-trivial = both sides non-empty and different",
            true,
            256,
            |cfg| {
                let n = gen::all_seqs(3, if cfg.tiny { 2 } else { cfg.tier.pick(5, 6) }).len() as u64;
                n * n
            },
            |idx, cfg, out| {
                let seqs = gen::all_seqs(3, if cfg.tiny { 2 } else { cfg.tier.pick(5, 6) });
                let (a, b) = gen::pair_of(seqs, idx);
                full_pair(a, b, out);
            },
        ),
        family(
            "exh_bin8",
            "G-EXH: every ordered pair of binary sequences with length <= 8 (thorough only; quick: <= 6), full ranges x 3 algorithms",
            true,
            256,
            |cfg| {
                let n = gen::all_seqs(2, if cfg.tiny { 2 } else { cfg.tier.pick(6, 8) }).len() as u64;
                n * n
            },
            |idx, cfg, out| {
                let seqs = gen::all_seqs(2, if cfg.tiny { 2 } else { cfg.tier.pick(6, 8) });
                let (a, b) = gen::pair_of(seqs, idx);
                full_pair(a, b, out);
            },
        ),
        family(
            "sub_exh",
            "G-SUB: every pair of sequences over {0,1} (quick) / {0,1,2} (thorough) with length <= 4 x every (old_range,new_range) x 3 algorithms x carriers {slice, StrictLookup red zone, StrictLookup based near usize::MAX, IdentifyDistinct offset lookups, constant-hash items, both ranges in ONE shared buffer, lookups whose index space straddles 2^32}; shift-equivalence against the extracted slices",
            true,
            4,
            |cfg| {
                let n = gen::all_seqs(cfg.tier.pick(2, 3), if cfg.tiny { 2 } else { 4 }).len() as u64;
                n * n
            },
            |idx, cfg, out| {
                let seqs = gen::all_seqs(cfg.tier.pick(2, 3), if cfg.tiny { 2 } else { 4 });
                let (a, b) = gen::pair_of(seqs, idx);
                let a: Vec<u32> = a.iter().map(|x| *x as u32).collect();
                let b: Vec<u32> = b.iter().map(|x| *x as u32).collect();
                for or in gen::subranges(a.len()) {
                    for nr in gen::subranges(b.len()) {
                        for alg in ALGS {
                            sub_case(alg, &a, or.clone(), &b, nr.clone(), 0x1ff, out);
                        }
                    }
                }
                out.sample(|| format!("old={:?} new={:?} x all sub-ranges x 3 algorithms x 5 carriers", a, b));
            },
        ),
        family(
            "rnd_sub",
            "G-RND: seeded random pairs (lengths from {0,1,2,3,10,40,150,400}, alphabets {1,2,3,8,50,1e5}, independent or edited copies) with random in-bounds sub-ranges x 3 algorithms x one random carrier + shift-equivalence; also String vs &str items",
            false,
            16,
            |cfg| cfg.n(40_000, 1_000_000),
            |idx, cfg, out| {
                let mut rng = Rng::for_case(cfg.seed, "c01.rnd_sub", idx);
                let (a, b) = gen::rand_pair(&mut rng, if cfg.tiny { 10 } else { 400 });
                let (or, nr) = gen::rand_ranges(&mut rng, a.len(), b.len());
                let alg = ALGS[rng.below(3)];
                let carrier = 1u32 << rng.below(9);
                out.sample(|| format!("alg={} old={} range {:?} new={} range {:?}", alg_name(alg), fmt_seq(&a), or, fmt_seq(&b), nr));
                sub_case(alg, &a, or.clone(), &b, nr.clone(), carrier, out);
                if idx % 8 == 0 && a.len() <= 40 && b.len() <= 40 {
                    hetero_case(alg, &a, or, &b, nr, out);
                }
            },
        ),
        family(
            "tolerance",
            "heterogeneous item types with a NON-TRANSITIVE, coarse cross comparison: old items u32, new items Tol (Tol == u32 iff |a-b| <= 1): every ordered pair over {0..4} with length <= 4 (thorough 5) x all sub-ranges of the short ones x 3 algorithms; plus seeded random pairs up to 40 items over {0..9}",
            true,
            16,
            |cfg| {
                let n = gen::all_seqs(5, if cfg.tiny { 2 } else { cfg.tier.pick(4, 5) }).len() as u64;
                n * n
            },
            |idx, cfg, out| {
                let seqs = gen::all_seqs(5, if cfg.tiny { 2 } else { cfg.tier.pick(4, 5) });
                let (a, b) = gen::pair_of(seqs, idx);
                let a: Vec<u32> = a.iter().map(|x| *x as u32 * 1).collect();
                let b: Vec<u32> = b.iter().map(|x| *x as u32).collect();
                out.sample(|| format!("old={:?} new(Tol)={:?}", a, b));
                tolerance_case(&a, &b, a.len() + b.len() <= 5, out);
                // a longer random pair derived from the index
                if idx % 16 == 0 {
                    let mut rng = Rng::for_case(cfg.seed, "c01.tolerance", idx);
                    let la = rng.below(if cfg.tiny { 5 } else { 40 });
                    let lb = rng.below(if cfg.tiny { 5 } else { 40 });
                    let a: Vec<u32> = (0..la).map(|_| rng.below(10) as u32).collect();
                    let b: Vec<u32> = if rng.chance(1, 2) { (0..lb).map(|_| rng.below(10) as u32).collect() } else { gen::point_edits(&mut rng, &a, 3, 10, 44) };
                    tolerance_case(&a, &b, false, out);
                }
            },
        ),
        family(
            "structured",
            "inputs with special STRUCTURE (all-equal, alternating, palindromes, reversal, prefix, suffix, rotation, doubled, interleaving, halves swapped, ...) up to 60 items x 3 algorithms x 5 carriers with random sub-ranges + shift-equivalence",
            false,
            16,
            |cfg| cfg.n(8_000, 160_000),
            |idx, cfg, out| {
                let mut rng = Rng::for_case(cfg.seed, "c01.structured", idx);
                let (a, b, kind) = gen::structured_pair(&mut rng, if cfg.tiny { 6 } else { 60 });
                let (a, b) = if rng.chance(1, 2) { (a, b) } else { (b, a) };
                let (or, nr) = if rng.chance(1, 2) { (0..a.len(), 0..b.len()) } else { gen::rand_ranges(&mut rng, a.len(), b.len()) };
                let alg = ALGS[rng.below(3)];
                out.sample(|| format!("alg={} structure={} old={} range {:?} new={} range {:?}", alg_name(alg), kind, fmt_seq(&a), or, fmt_seq(&b), nr));
                sub_case(alg, &a, or, &b, nr, 0x1ff, out);
            },
        ),
        family(
            "big",
            "G-BIG: long near-identical pairs (1000..6000 items quick / 30000 thorough; some cross 65536) with <= 8 edits, a block move or a duplicated block x {Myers, Patience} (LCS up to 1500) on random sub-ranges, through slices and red-zone lookups + shift-equivalence",
            false,
            1,
            |cfg| if cfg.tiny { 2 } else { cfg.tier.pick(48, 480) },
            |idx, cfg, out| {
                let mut rng = Rng::for_case(cfg.seed, "c01.big", idx);
                let huge = idx % 20 == 7 && !cfg.tiny;
                let (lo, hi) = if cfg.tiny {
                    (5, 12)
                } else if huge {
                    (65_530, 70_000)
                } else {
                    (1000, cfg.tier.pick(6000, 30_000))
                };
                let (a, b) = gen::big_pair(&mut rng, lo, hi);
                let alg = if a.len().max(b.len()) <= 1500 && rng.chance(1, 3) { Algorithm::Lcs } else if rng.chance(1, 2) { Algorithm::Myers } else { Algorithm::Patience };
                let (or, nr) = if rng.chance(1, 2) {
                    (0..a.len(), 0..b.len())
                } else {
                    // keep the ranges aligned enough to stay near-identical
                    let s = rng.below(a.len().min(b.len()) / 2 + 1);
                    (s..a.len(), s..b.len())
                };
                out.sample(|| format!("alg={} N={} M={} ranges {:?} {:?}", alg_name(alg), a.len(), b.len(), or, nr));
                out.count("big_cases");
                sub_case(alg, &a, or.clone(), &b, nr.clone(), 1 | 2, out);
                // a deadline that is present but never expires must not change the contract
                let eq = |o: usize, n: usize| a[o] == b[n];
                similar::verif_hooks::set_clock(similar::verif_hooks::Clock::Fuel(u64::MAX));
                out.eval();
                let r = traced(Entry::Dispatch, alg, &a[..], or.clone(), &b[..], nr.clone(), &eq, Some(far_deadline()), true);
                similar::verif_hooks::set_clock(similar::verif_hooks::Clock::Off);
                let ctx = || format!("alg={} N={} M={} ranges {:?} {:?} old={} new={} (deadline present, never expires)", alg_name(alg), a.len(), b.len(), or, nr, fmt_seq(&a), fmt_seq(&b));
                report_trace(out, "algorithms::diff_deadline", &ctx, &r);
            },
        ),
        family(
            "far",
            "large edit distances: lopsided replaced blocks (10..6000 old items replaced by 10..6000 unrelated new ones between a common head and tail), mostly unrelated sequences of 2500..5000 items sharing a few landmarks, and LCS on two unrelated sequences of about 4200 x 4100 items; without deadline and with a deadline that never expires",
            false,
            1,
            |cfg| if cfg.tiny { 2 } else { cfg.tier.pick(20, 120) },
            |idx, cfg, out| {
                let mut rng = Rng::for_case(cfg.seed, "c01.far", idx);
                let lcs_huge = idx == 3 && !cfg.tiny;
                let (a, b) = if cfg.tiny {
                    gen::asymmetric_replace(&mut rng, 1, 1, 4, 1)
                } else if lcs_huge {
                    let (n, m) = (rng.range(4100, 4300), rng.range(4100, 4300));
                    gen::landmark_pair(&mut rng, n, m, 3, 0)
                } else if idx % 2 == 0 {
                    let (n, m) = (rng.range(2500, 5000), rng.range(2500, 5000));
                    let k = rng.range(5, 80);
                    let crossing = rng.below(4);
                    gen::landmark_pair(&mut rng, n, m, k, crossing)
                } else {
                    let sizes = [10usize, 100, 1000, 2600, 4200, 6000];
                    let (l1, l2) = (*rng.pick(&sizes), *rng.pick(&sizes));
                    let (head, tail) = (rng.below(300), rng.below(300));
                    gen::asymmetric_replace(&mut rng, head, tail, l1, l2)
                };
                let alg = if lcs_huge { Algorithm::Lcs } else if rng.chance(1, 2) { Algorithm::Myers } else { Algorithm::Patience };
                out.sample(|| format!("alg={} N={} M={}", alg_name(alg), a.len(), b.len()));
                out.count("far_cases");
                if lcs_huge {
                    out.count("lcs_cases_above_4096x4096_unrelated");
                }
                let eq = |o: usize, n: usize| a[o] == b[n];
                for with_deadline in [false, true] {
                    if with_deadline {
                        similar::verif_hooks::set_clock(similar::verif_hooks::Clock::Fuel(u64::MAX));
                    }
                    out.eval();
                    let r = traced(Entry::Dispatch, alg, &a[..], 0..a.len(), &b[..], 0..b.len(), &eq, if with_deadline { Some(far_deadline()) } else { None }, with_deadline);
                    similar::verif_hooks::set_clock(similar::verif_hooks::Clock::Off);
                    let ctx = || format!("alg={} N={} M={} old={} new={} deadline={}", alg_name(alg), a.len(), b.len(), fmt_seq(&a), fmt_seq(&b), if with_deadline { "present, never expires" } else { "none" });
                    report_trace(out, "algorithms::diff(_deadline)", &ctx, &r);
                }
            },
        ),
        family(
            "non_reflexive_aliased",
            "items that are NOT equal to themselves (f64 NaN; myers::diff and lcs::diff only ask for PartialEq) in ONE buffer that is both old and new: every buffer over {1.0, 2.0, NaN} up to length 5 x every pair of sub-ranges (identical, overlapping, disjoint) x {Myers, LCS} x {diff, diff_deadline(None)} + seeded random buffers up to 60 items; the trace monitor judges 'equal' with f64's own ==, so a NaN must never be reported equal to anything, not even to itself at the same address",
            true,
            4,
            |cfg| gen::all_seqs(3, if cfg.tiny { 2 } else { 5 }).len() as u64 + cfg.n(300, 6000),
            |idx, cfg, out| {
                let seqs = gen::all_seqs(3, if cfg.tiny { 2 } else { 5 });
                let vals = [1.0f64, 2.0, f64::NAN];
                let exhaustive = (idx as usize) < seqs.len();
                let buf: Vec<f64> = if exhaustive {
                    seqs[idx as usize].iter().map(|x| vals[*x as usize]).collect()
                } else {
                    let mut rng = Rng::for_case(cfg.seed, "c01.nan", idx);
                    let n = rng.below(if cfg.tiny { 6 } else { 60 });
                    let k = 2 + rng.below(4);
                    (0..n).map(|_| if rng.chance(1, 4) { f64::NAN } else { rng.below(k) as f64 }).collect()
                };
                out.sample(|| format!("one f64 buffer {:?} as old and new x sub-ranges x {{myers, lcs}}", buf));
                let ranges: Vec<(std::ops::Range<usize>, std::ops::Range<usize>)> = if exhaustive {
                    let mut v = Vec::new();
                    for or in gen::subranges(buf.len()) {
                        for nr in gen::subranges(buf.len()) {
                            v.push((or.clone(), nr));
                        }
                    }
                    v
                } else {
                    let mut rng = Rng::for_case(cfg.seed, "c01.nan.r", idx);
                    let (or, nr) = gen::rand_ranges(&mut rng, buf.len(), buf.len());
                    vec![(0..buf.len(), 0..buf.len()), (or.clone(), or.clone()), (or, nr)]
                };
                let eq = |o: usize, n: usize| buf[n] == buf[o];
                for (or, nr) in ranges {
                    for which in 0..4u8 {
                        out.eval();
                        let mut mon = crate::mon::TraceMon::new(&eq, or.clone(), nr.clone());
                        let r = crate::engine::guard(|| match which {
                            0 => similar::algorithms::myers::diff(&mut mon, &buf[..], or.clone(), &buf[..], nr.clone()),
                            1 => similar::algorithms::lcs::diff(&mut mon, &buf[..], or.clone(), &buf[..], nr.clone()),
                            2 => similar::algorithms::myers::diff_deadline(&mut mon, &buf[..], or.clone(), &buf[..], nr.clone(), None),
                            _ => similar::algorithms::lcs::diff_deadline(&mut mon, &buf[..], or.clone(), &buf[..], nr.clone(), None),
                        });
                        let r = match r {
                            Ok(Ok(())) => {
                                mon.finish_check();
                                Ok(mon)
                            }
                            Ok(Err(())) => {
                                mon.failures.push(("trace.spurious_error", "the diff returned Err although the hook never failed".into()));
                                Ok(mon)
                            }
                            Err(p) => Err(p),
                        };
                        let ctx = || format!("{} on ONE f64 buffer {:?} old range {:?} new range {:?}", ["myers::diff", "lcs::diff", "myers::diff_deadline(None)", "lcs::diff_deadline(None)"][which as usize], buf, or, nr);
                        report_trace(out, "diff of non-reflexive items in an aliased buffer", &ctx, &r);
                        out.count("non_reflexive_runs");
                        if buf[or.clone()].iter().any(|x| x.is_nan()) && or == nr {
                            out.nontrivial(&("nan", which, format!("{:?}", buf), or.start, or.end));
                        }
                    }
                }
            },
        ),
        family(
            "reversed_empty_ranges",
            "ranges given with start > end (both ends in bounds): every algorithm treats them as EMPTY ranges positioned at `start` - nothing is consumed on that side, the other side is deleted / inserted as one run whose carried index is that start, no panic; every pair over {0,1} up to length 4 x every reversed range on one or both sides x 3 algorithms x {Dispatch, Module} x {no deadline, never-expiring deadline, deadline expired at check #0}",
            true,
            4,
            |cfg| {
                let n = gen::all_seqs(2, if cfg.tiny { 2 } else { 4 }).len() as u64;
                n * n
            },
            |idx, cfg, out| {
                let seqs = gen::all_seqs(2, if cfg.tiny { 2 } else { 4 });
                let (a, b) = gen::pair_of(seqs, idx);
                let a: Vec<u32> = a.iter().map(|x| *x as u32).collect();
                let b: Vec<u32> = b.iter().map(|x| *x as u32).collect();
                out.sample(|| format!("old={:?} new={:?} x reversed (start > end) ranges x 3 algorithms", a, b));
                let reversed = |len: usize| -> Vec<std::ops::Range<usize>> {
                    let mut v = Vec::new();
                    for s in 1..=len {
                        for e in 0..s {
                            v.push(s..e);
                        }
                    }
                    v
                };
                let mut combos: Vec<(std::ops::Range<usize>, std::ops::Range<usize>)> = Vec::new();
                for or in reversed(a.len()) {
                    for nr in gen::subranges(b.len()) {
                        combos.push((or.clone(), nr));
                    }
                    for nr in reversed(b.len()) {
                        combos.push((or.clone(), nr));
                    }
                }
                for nr in reversed(b.len()) {
                    for or in gen::subranges(a.len()) {
                        combos.push((or, nr.clone()));
                    }
                }
                let eq = |o: usize, n: usize| a[o] == b[n];
                let norm = |r: &std::ops::Range<usize>| if r.start > r.end { r.start..r.start } else { r.clone() };
                for (or, nr) in combos {
                    for alg in ALGS {
                        for entry in [Entry::Dispatch, Entry::Module] {
                            for dl in 0..3u8 {
                                out.eval();
                                out.count("reversed_range_runs");
                                out.nontrivial(&("rev", alg_name(alg), &a, or.start, or.end, &b, nr.start, nr.end));
                                match dl {
                                    1 => similar::verif_hooks::set_clock(similar::verif_hooks::Clock::Fuel(u64::MAX)),
                                    2 => similar::verif_hooks::set_clock(similar::verif_hooks::Clock::Fuel(0)),
                                    _ => {}
                                }
                                let mut mon = crate::mon::TraceMon::new(&eq, norm(&or), norm(&nr));
                                let r = crate::engine::guard(|| run_entry(entry, alg, &mut mon, &a[..], or.clone(), &b[..], nr.clone(), if dl > 0 { Some(far_deadline()) } else { None }, dl > 0));
                                similar::verif_hooks::set_clock(similar::verif_hooks::Clock::Off);
                                let r = match r {
                                    Ok(Ok(())) => {
                                        mon.finish_check();
                                        Ok(mon)
                                    }
                                    Ok(Err(())) => {
                                        mon.failures.push(("trace.spurious_error", "the diff returned Err although the hook never failed".into()));
                                        Ok(mon)
                                    }
                                    Err(p) => Err(p),
                                };
                                let ctx = || format!("alg={} entry={:?} old={:?} range {:?} new={:?} range {:?} (start > end = empty range at start) deadline={}", alg_name(alg), entry, a, or, b, nr, ["none", "never expires", "expired at check #0"][dl as usize]);
                                report_trace(out, "diff with a reversed (empty) range", &ctx, &r);
                            }
                        }
                    }
                }
            },
        ),

        family(
            "deep_nested_anchors",
            "STACK DEPTH: Patience on inputs whose unique items nest linearly (c1 c2 c1 c3 c2 c4 c3 ... on both sides behind one differing first item, 3000..12000 levels), Myers / Patience on two unrelated sequences of 800..1500 items and on 2000..4000 separate small hunks; run with the stack of an ordinary thread in the small-stack stage (an unoptimised build): the call must return a valid script and not exhaust the stack",
            false,
            1,
            |cfg| if cfg.tiny { 1 } else { cfg.tier.pick(9, 27) },
            |idx, cfg, out| {
                let mut rng = Rng::for_case(cfg.seed, "c01.deep", idx);
                let (a, b, alg): (Vec<u32>, Vec<u32>, Algorithm) = match idx % 3 {
                    0 => {
                        let levels = if cfg.tiny { 5 } else { rng.range(3000, 12_000) } as u32;
                        let mut pat: Vec<u32> = vec![1];
                        for k in 2..=levels {
                            pat.push(k);
                            pat.push(k - 1);
                        }
                        let mut a = vec![1_000_000u32];
                        a.extend_from_slice(&pat);
                        let mut b = vec![2_000_000u32];
                        b.extend_from_slice(&pat);
                        if rng.chance(1, 2) {
                            a.push(3_000_000);
                        }
                        (a, b, Algorithm::Patience)
                    }
                    1 => {
                        let (n, m) = if cfg.tiny { (5, 6) } else { (rng.range(800, 1500), rng.range(800, 1500)) };
                        let (a, b) = gen::landmark_pair(&mut rng, n, m, 3, 0);
                        (a, b, if rng.chance(1, 2) { Algorithm::Myers } else { Algorithm::Patience })
                    }
                    _ => {
                        let hunks = if cfg.tiny { 5 } else { rng.range(2000, 4000) };
                        let (a, b, _) = gen::many_hunks_pair(hunks);
                        (a, b, if rng.chance(1, 2) { Algorithm::Myers } else { Algorithm::Patience })
                    }
                };
                out.sample(|| format!("alg={} N={} M={} (shape {})", alg_name(alg), a.len(), b.len(), idx % 3));
                out.nontrivial(&(alg_name(alg), a.len(), b.len(), idx));
                out.count("deep_cases");
                out.eval();
                let eq = |o: usize, n: usize| a[o] == b[n];
                let r = traced(Entry::Dispatch, alg, &a[..], 0..a.len(), &b[..], 0..b.len(), &eq, None, false);
                report_trace(out, "deep input", &|| format!("alg={} N={} M={} old={} new={}", alg_name(alg), a.len(), b.len(), fmt_seq(&a), fmt_seq(&b)), &r);
            },
        ),
    ]
}

fn full_pair(a: &[u8], b: &[u8], out: &mut Local) {
    for alg in ALGS {
        let eq = |o: usize, n: usize| a[o] == b[n];
        let ctx = || format!("alg={} old={:?} new={:?} (full ranges)", alg_name(alg), a, b);
        // algorithms::diff
        out.eval();
        let r1 = traced(Entry::Dispatch, alg, a, 0..a.len(), b, 0..b.len(), &eq, None, false);
        report_trace(out, "algorithms::diff", &ctx, &r1);
        // <alg>::diff
        out.eval();
        let r2 = traced(Entry::Module, alg, a, 0..a.len(), b, 0..b.len(), &eq, None, false);
        report_trace(out, "algorithms::<alg>::diff", &ctx, &r2);
        // diff_slices
        out.eval();
        let mut mon = crate::mon::TraceMon::new(&eq, 0..a.len(), 0..b.len());
        let r3 = crate::engine::guard(|| similar::algorithms::diff_slices(alg, &mut mon, a, b));
        let r3 = match r3 {
            Ok(_) => {
                mon.finish_check();
                Ok(mon)
            }
            Err(p) => Err(p),
        };
        report_trace(out, "algorithms::diff_slices", &ctx, &r3);
        // diff_slices_deadline without a deadline is the same computation
        out.eval();
        let mut mon4 = crate::mon::TraceMon::new(&eq, 0..a.len(), 0..b.len());
        let r4 = crate::engine::guard(|| similar::algorithms::diff_slices_deadline(alg, &mut mon4, a, b, None));
        let r4 = match r4 {
            Ok(_) => {
                mon4.finish_check();
                Ok(mon4)
            }
            Err(p) => Err(p),
        };
        report_trace(out, "algorithms::diff_slices_deadline(None)", &ctx, &r4);
        if let (Ok(m1), Ok(m4)) = (&r1, &r4) {
            if m1.evs != m4.evs {
                out.violation("entry_points_disagree", format!("{}: diff={} diff_slices_deadline(None)={}", ctx(), fmt_evs(&m1.evs), fmt_evs(&m4.evs)));
            }
        }
        if let (Ok(m1), Ok(m2), Ok(m3)) = (&r1, &r2, &r3) {
            out.count_n("callbacks_observed", (m1.evs.len() + m2.evs.len() + m3.evs.len()) as u64);
            if m1.evs != m2.evs || m1.evs != m3.evs {
                out.violation(
                    "entry_points_disagree",
                    format!("{}: diff={} module={} slices={}", ctx(), fmt_evs(&m1.evs), fmt_evs(&m2.evs), fmt_evs(&m3.evs)),
                );
            }
        }
        if !a.is_empty() && !b.is_empty() && a != b {
            out.nontrivial(&(alg_name(alg), a, b));
        }
        // the same contract holds when a deadline cuts the search short (every expiry
        // point is enumerated by C07; here: expiry at deadline check #0 and #1)
        for k in [0u64, 1] {
            out.eval();
            similar::verif_hooks::set_clock(similar::verif_hooks::Clock::Fuel(k));
            let r = traced(Entry::Dispatch, alg, a, 0..a.len(), b, 0..b.len(), &eq, Some(far_deadline()), true);
            similar::verif_hooks::set_clock(similar::verif_hooks::Clock::Off);
            let ck = || format!("{} deadline expires at check #{}", ctx(), k);
            report_trace(out, "algorithms::diff_deadline", &ck, &r);
            out.count("expired_deadline_runs");
        }
    }
    out.sample(|| format!("old={:?} new={:?} x 3 algorithms x 3 entry points", a, b));
}

/// `carriers` is a bit mask: 1 slice(+shift-equivalence), 2 StrictLookup, 4
/// StrictLookup near usize::MAX, 8 IdentifyDistinct, 16 constant-hash items,
/// 32 one shared buffer, 64 lookups straddling 2^32, 128 Vec vs VecDeque, 256 two lookup
/// types viewing one object.
fn sub_case(
    alg: Algorithm,
    a: &[u32],
    or: std::ops::Range<usize>,
    b: &[u32],
    nr: std::ops::Range<usize>,
    carriers: u32,
    out: &mut Local,
) {
    let eq = |o: usize, n: usize| a[o] == b[n];
    let ctx = || format!("alg={} old={} range {:?} new={} range {:?}", alg_name(alg), fmt_seq(a), or, fmt_seq(b), nr);
    let entry = if (or.start + nr.start) % 2 == 0 { Entry::Dispatch } else { Entry::Module };

    // (1) slices with sub-ranges
    out.eval();
    let base = traced(entry, alg, a, or.clone(), b, nr.clone(), &eq, None, false);
    let ok = report_trace(out, "diff on sub-ranges of slices", &ctx, &base);
    let base_evs: Option<Vec<Ev>> = base.as_ref().ok().map(|m| m.evs.clone());
    if let Some(e) = &base_evs {
        out.count_n("callbacks_observed", e.len() as u64);
    }
    let nontrivial = !or.is_empty() && !nr.is_empty() && a[or.clone()] != b[nr.clone()];
    if nontrivial {
        out.nontrivial(&(alg_name(alg), a, or.start, or.end, b, nr.start, nr.end));
    }
    if or.start > 0 || nr.start > 0 {
        out.count("nonzero_range_start_cases");
    }

    // (1b) shift equivalence with the extracted slices
    if carriers & 1 != 0 && ok {
        let xa = &a[or.clone()];
        let xb = &b[nr.clone()];
        let eqx = |o: usize, n: usize| xa[o] == xb[n];
        out.eval();
        let ext = traced(entry, alg, xa, 0..xa.len(), xb, 0..xb.len(), &eqx, None, false);
        if report_trace(out, "diff of the extracted slices", &ctx, &ext) {
            let shifted: Vec<Ev> = ext.as_ref().unwrap().evs.iter().map(|e| e.shifted(or.start, nr.start)).collect();
            if Some(&shifted) != base_evs.as_ref() {
                out.violation(
                    "shift_equivalence",
                    format!(
                        "{}: sub-range diff {} != shifted diff of extracted slices {}",
                        ctx(),
                        fmt_evs(base_evs.as_ref().unwrap()),
                        fmt_evs(&shifted)
                    ),
                );
            }
        }
    }

    // (2) red-zone lookups
    if carriers & 2 != 0 {
        let sa = StrictLookup { data: a, allowed: or.clone(), base: 0 };
        let sb = StrictLookup { data: b, allowed: nr.clone(), base: 0 };
        out.eval();
        let r = traced(entry, alg, &sa, or.clone(), &sb, nr.clone(), &eq, None, false);
        report_trace(out, "diff through StrictLookup (red zone around the requested ranges)", &ctx, &r);
        out.count("strict_lookup_runs");
    }

    // (3) red-zone lookups whose index space sits just below usize::MAX
    if carriers & 4 != 0 && a.len() <= 1000 && b.len() <= 1000 {
        // the old buffer's index space ENDS exactly at usize::MAX (largest valid index MAX - 1)
        let base_o = usize::MAX - a.len();
        let base_n = usize::MAX - 1500;
        let sa = StrictLookup { data: a, allowed: base_o + or.start..base_o + or.end, base: base_o };
        let sb = StrictLookup { data: b, allowed: base_n + nr.start..base_n + nr.end, base: base_n };
        let eqh = |o: usize, n: usize| a[o - base_o] == b[n - base_n];
        out.eval();
        let r = traced(entry, alg, &sa, base_o + or.start..base_o + or.end, &sb, base_n + nr.start..base_n + nr.end, &eqh, None, false);
        if report_trace(out, "diff through StrictLookup based near usize::MAX", &ctx, &r) {
            if let (Some(be), Ok(m)) = (&base_evs, &r) {
                let shifted: Vec<Ev> = be.iter().map(|e| e.shifted(base_o, base_n)).collect();
                if shifted != m.evs {
                    out.violation("shift_equivalence", format!("{}: high-based lookups give {} but slices give {}", ctx(), fmt_evs(&m.evs), fmt_evs(be)));
                }
            }
        }
        out.count("high_base_lookup_runs");
    }

    // (4) the crate's own offset lookups
    if carriers & 8 != 0 {
        let idd = crate::engine::guard(|| IdentifyDistinct::<u32>::new(a, or.clone(), b, nr.clone()));
        match idd {
            Err(p) => out.violation("panic", format!("IdentifyDistinct::new panicked: {} | {}", p, ctx())),
            Ok(idd) => {
                if idd.old_range() != or || idd.new_range() != nr {
                    // ranges are C14's business; here we only need valid ones to diff with
                    out.count("identify_distinct_range_mismatch");
                } else {
                    let ol = idd.old_lookup();
                    let nl = idd.new_lookup();
                    let eqi = |o: usize, n: usize| ol[o] == nl[n];
                    out.eval();
                    let r = traced(entry, alg, ol, or.clone(), nl, nr.clone(), &eqi, None, false);
                    report_trace(out, "diff through IdentifyDistinct offset lookups", &ctx, &r);
                    out.count("offset_lookup_runs");
                }
            }
        }
    }

    // (6) old and new are ONE object: both ranges index the same buffer
    if carriers & 32 != 0 {
        let mut buf: Vec<u32> = a.to_vec();
        buf.extend_from_slice(b);
        let (or2, nr2) = (or.clone(), a.len() + nr.start..a.len() + nr.end);
        let eqs = |o: usize, n: usize| buf[o] == buf[n];
        out.eval();
        let r = traced(entry, alg, &buf[..], or2.clone(), &buf[..], nr2.clone(), &eqs, None, false);
        if report_trace(out, "diff of two ranges of ONE shared buffer", &ctx, &r) {
            if let (Some(be), Ok(m)) = (&base_evs, &r) {
                let shifted: Vec<Ev> = be.iter().map(|e| e.shifted(0, a.len())).collect();
                if shifted != m.evs {
                    out.violation("shift_equivalence", format!("{}: two ranges of one shared buffer give {} but separate slices give {}", ctx(), fmt_evs(&m.evs), fmt_evs(be)));
                }
            }
        }
        out.count("shared_buffer_runs");
    }

    // (7) red-zone lookups whose index space straddles 2^32 (u32::MAX is a valid index)
    if carriers & 64 != 0 && a.len() <= 1000 && b.len() <= 1000 && usize::BITS >= 64 {
        // place the ranges so that index 2^32 - 1 falls inside them when they are non-empty
        let pivot = (1usize << 32) - 1;
        let base_o = pivot - or.start - (or.len().saturating_sub(1)) / 2;
        let base_n = pivot - nr.start - (nr.len().saturating_sub(1)).min(or.len() / 3);
        let sa = StrictLookup { data: a, allowed: base_o + or.start..base_o + or.end, base: base_o };
        let sb = StrictLookup { data: b, allowed: base_n + nr.start..base_n + nr.end, base: base_n };
        let eqh = |o: usize, n: usize| a[o - base_o] == b[n - base_n];
        out.eval();
        let r = traced(entry, alg, &sa, base_o + or.start..base_o + or.end, &sb, base_n + nr.start..base_n + nr.end, &eqh, None, false);
        if report_trace(out, "diff through lookups whose index space straddles 2^32", &ctx, &r) {
            if let (Some(be), Ok(m)) = (&base_evs, &r) {
                let shifted: Vec<Ev> = be.iter().map(|e| e.shifted(base_o, base_n)).collect();
                if shifted != m.evs {
                    out.violation("shift_equivalence", format!("{}: lookups based around 2^32 give {} but slices give {}", ctx(), fmt_evs(&m.evs), fmt_evs(be)));
                }
            }
        }
        out.count("lookups_around_2_pow_32_runs");
    }

    // (8) differently monomorphised containers: old is a &Vec<u32>, new a VecDeque<u32> that
    // wraps around its ring buffer
    if carriers & 128 != 0 {
        let va: Vec<u32> = a.to_vec();
        let mut vd: std::collections::VecDeque<u32> = std::collections::VecDeque::with_capacity(b.len() + 3);
        // rotate the ring buffer so that the contents are not contiguous in memory
        for _ in 0..2 {
            vd.push_back(0);
        }
        for _ in 0..2 {
            vd.pop_front();
        }
        vd.extend(b.iter().copied());
        out.eval();
        let r = traced(entry, alg, &va, or.clone(), &vd, nr.clone(), &eq, None, false);
        if report_trace(out, "diff of a &Vec against a VecDeque", &ctx, &r) {
            if let (Some(be), Ok(m)) = (&base_evs, &r) {
                if *be != m.evs {
                    out.violation("shift_equivalence", format!("{}: Vec / VecDeque containers give {} but slices give {}", ctx(), fmt_evs(&m.evs), fmt_evs(be)));
                }
            }
        }
        out.count("vec_vs_vecdeque_runs");
    }

    // (9) TWO DIFFERENT lookup types at ONE address: both are repr(transparent) views of the same
    // Vec (a ++ reversed b); the old view indexes it forwards, the new view backwards
    if carriers & 256 != 0 {
        let mut buf: Vec<u32> = a.to_vec();
        buf.extend(b.iter().rev().copied());
        let (fw, bw) = (FwdView::of(&buf), BwdView::of(&buf));
        debug_assert!(std::ptr::eq(fw as *const FwdView as *const u8, bw as *const BwdView as *const u8));
        out.eval();
        let r = traced(entry, alg, fw, or.clone(), bw, nr.clone(), &eq, None, false);
        if report_trace(out, "diff of two different lookup types that are views of ONE object (same address)", &ctx, &r) {
            if let (Some(be), Ok(m)) = (&base_evs, &r) {
                if *be != m.evs {
                    out.violation("shift_equivalence", format!("{}: two views of one object give {} but separate slices give {}", ctx(), fmt_evs(&m.evs), fmt_evs(be)));
                }
            }
        }
        out.count("two_views_one_address_runs");
    }

    // (5) constant-hash items
    if carriers & 16 != 0 {
        let ca: Vec<CollidingElem> = a.iter().map(|x| CollidingElem(*x)).collect();
        let cb: Vec<CollidingElem> = b.iter().map(|x| CollidingElem(*x)).collect();
        out.eval();
        let r = traced(entry, alg, &ca[..], or.clone(), &cb[..], nr.clone(), &eq, None, false);
        report_trace(out, "diff of constant-hash items", &ctx, &r);
    }
}

/// forwards view of a Vec (same address as the Vec itself)
#[repr(transparent)]
struct FwdView(Vec<u32>);
/// backwards view of a Vec (same address as the Vec itself): index i is item len-1-i
#[repr(transparent)]
struct BwdView(Vec<u32>);
impl FwdView {
    fn of(v: &Vec<u32>) -> &FwdView {
        // SAFETY: repr(transparent) wrapper
        unsafe { &*(v as *const Vec<u32> as *const FwdView) }
    }
}
impl BwdView {
    fn of(v: &Vec<u32>) -> &BwdView {
        // SAFETY: repr(transparent) wrapper
        unsafe { &*(v as *const Vec<u32> as *const BwdView) }
    }
}
impl std::ops::Index<usize> for FwdView {
    type Output = u32;
    fn index(&self, i: usize) -> &u32 {
        &self.0[i]
    }
}
impl std::ops::Index<usize> for BwdView {
    type Output = u32;
    fn index(&self, i: usize) -> &u32 {
        &self.0[self.0.len() - 1 - i]
    }
}

/// old items are `String`s, new items `&str`s
fn hetero_case(alg: Algorithm, a: &[u32], or: std::ops::Range<usize>, b: &[u32], nr: std::ops::Range<usize>, out: &mut Local) {
    let sa: Vec<String> = a.iter().map(|x| format!("item{}", x)).collect();
    let sb_owned: Vec<String> = b.iter().map(|x| format!("item{}", x)).collect();
    let sb: Vec<&str> = sb_owned.iter().map(|s| s.as_str()).collect();
    let eq = |o: usize, n: usize| a[o] == b[n];
    let ctx = || format!("alg={} old(String)={} range {:?} new(&str)={} range {:?}", alg_name(alg), fmt_seq(a), or, fmt_seq(b), nr);
    out.eval();
    let r = traced(Entry::Dispatch, alg, &sa[..], or.clone(), &sb[..], nr.clone(), &eq, None, false);
    report_trace(out, "diff of [String] against [&str]", &ctx, &r);
    out.count("heterogeneous_runs");
}

#[allow(dead_code)]
pub fn unused(_: &Config) {}

fn tolerance_case(a: &[u32], b: &[u32], all_subranges: bool, out: &mut Local) {
    let tb: Vec<crate::mon::Tol> = b.iter().map(|x| crate::mon::Tol(*x)).collect();
    let eq = |o: usize, n: usize| tb[n] == a[o];
    let ranges: Vec<(std::ops::Range<usize>, std::ops::Range<usize>)> = if all_subranges {
        let mut v = Vec::new();
        for or in gen::subranges(a.len()) {
            for nr in gen::subranges(b.len()) {
                v.push((or.clone(), nr));
            }
        }
        v
    } else {
        vec![(0..a.len(), 0..b.len())]
    };
    for (or, nr) in ranges {
        for alg in ALGS {
            out.eval();
            let ctx = || format!("alg={} old(u32)={} range {:?} new(Tol: equal iff |a-b|<=1)={} range {:?}", alg_name(alg), fmt_seq(a), or, fmt_seq(b), nr);
            let r = traced(Entry::Dispatch, alg, a, or.clone(), &tb[..], nr.clone(), &eq, None, false);
            report_trace(out, "diff with a tolerance cross comparison", &ctx, &r);
            out.count("tolerance_runs");
            if !or.is_empty() && !nr.is_empty() {
                out.nontrivial(&("tol", alg_name(alg), a, or.start, or.end, b, nr.start, nr.end));
            }
        }
    }
}
