//! C04 — text diffs reconstruct both inputs byte-for-byte for every tokenizer.

use similar::{Algorithm, ChangeTag, DiffableStr, TextDiff};

use crate::engine::{family, guard, Family, Local};
use crate::props::common::*;
use crate::rng::Rng;
use crate::text_gen;
use crate::tok_ref::show;

pub const TOKS: [&str; 5] = ["lines", "words", "chars", "unicode_words", "graphemes"];

type Row = (ChangeTag, Option<usize>, Option<usize>, Vec<u8>);

fn collect<'a, T: DiffableStr + ?Sized + 'a>(d: &'a TextDiff<'a, 'a, 'a, T>) -> (Vec<Row>, Vec<Row>) {
    // the other views of a change's value (as_str, to_string_lossy, value_ref) must show the same bytes
    for (k, c) in d.iter_all_changes().enumerate() {
        let bytes = c.value().as_bytes();
        let as_utf8 = std::str::from_utf8(bytes).ok();
        if c.as_str() != as_utf8 || c.to_string_lossy() != String::from_utf8_lossy(bytes) || c.value_ref().as_bytes() != bytes {
            ACCESSOR_FAILS.with(|f| {
                f.borrow_mut().push(format!(
                    "change #{}: value() = {} but as_str() = {:?}, to_string_lossy() = {:?}, value_ref() = {}",
                    k,
                    show(bytes),
                    c.as_str(),
                    c.to_string_lossy(),
                    show(c.value_ref().as_bytes())
                ))
            });
            break;
        }
    }
    // plain next() calls are the reference expansion (a `for` loop); every other way of consuming the
    // iterator must deliver the same changes, also after a prefix of next() calls
    let mut all: Vec<Row> = Vec::new();
    {
        let mut it = d.iter_all_changes();
        #[allow(clippy::while_let_on_iterator)]
        while let Some(c) = it.next() {
            all.push((c.tag(), c.old_index(), c.new_index(), c.value().as_bytes().to_vec()));
        }
    }
    let folded: Vec<Row> = d.iter_all_changes().map(|c| (c.tag(), c.old_index(), c.new_index(), c.value().as_bytes().to_vec())).collect();
    if folded != all {
        ITER_FAILS.with(|f| f.borrow_mut().push(format!("iter_all_changes().map().collect() yields {} changes, a loop of next() calls {}", folded.len(), all.len())));
    }
    let salt = all.iter().fold(all.len() as u64 * 2654435761 + d.ops().len() as u64, |h, r| h.wrapping_mul(31).wrapping_add(r.3.len() as u64 + r.1.unwrap_or(7) as u64));
    if all.len() <= 80 && salt % 16 == 0 {
        let row = |c: similar::Change<&'a T>| format!("{:?} {:?} {:?} {}", c.tag(), c.old_index(), c.new_index(), show(c.value().as_bytes()));
        let fails = iter_battery(&|| d.iter_all_changes(), &row, salt);
        if let Some(f) = fails.into_iter().next() {
            ITER_FAILS.with(|x| x.borrow_mut().push(format!("iter_all_changes(): {}", f)));
        }
        if let Some(op) = d.ops().get(salt as usize % d.ops().len().max(1)) {
            let fails = iter_battery(&|| d.iter_changes(op), &row, salt / 3);
            if let Some(f) = fails.into_iter().next() {
                ITER_FAILS.with(|x| x.borrow_mut().push(format!("iter_changes({:?}): {}", op, f)));
            }
        }
        ITER_BATTERIES.with(|c| c.set(c.get() + 1));
    }
    let per_op: Vec<Row> = d
        .ops()
        .iter()
        .flat_map(|op| d.iter_changes(op))
        .map(|c| (c.tag(), c.old_index(), c.new_index(), c.value().as_bytes().to_vec()))
        .collect();
    (all, per_op)
}

thread_local! {
    /// disagreements between the accessors of one change, picked up by `judge`
    static ACCESSOR_FAILS: std::cell::RefCell<Vec<String>> = std::cell::RefCell::new(Vec::new());
    /// disagreements between ways of consuming the change iterators, picked up by `judge`
    static ITER_FAILS: std::cell::RefCell<Vec<String>> = std::cell::RefCell::new(Vec::new());
    static ITER_BATTERIES: std::cell::Cell<u64> = std::cell::Cell::new(0);
    /// newline_terminated override applied by run_diff (0 none, 1 true, 2 false)
    static NL_OVERRIDE: std::cell::Cell<u8> = std::cell::Cell::new(0);
}

fn run_diff(tok: usize, alg: Algorithm, as_str: bool, a: &[u8], b: &[u8], fuel: Option<u64>) -> (Vec<Row>, Vec<Row>) {
    let mut c = TextDiff::configure();
    c.algorithm(alg);
    match NL_OVERRIDE.with(|x| x.get()) {
        1 => {
            c.newline_terminated(true);
        }
        2 => {
            c.newline_terminated(false);
        }
        _ => {}
    }
    if let Some(k) = fuel {
        // a deadline that the virtual clock lets expire at its k-th check
        c.deadline(far_deadline());
        similar::verif_hooks::set_clock(similar::verif_hooks::Clock::Fuel(k));
    }
    if as_str {
        let sa = std::str::from_utf8(a).unwrap();
        let sb = std::str::from_utf8(b).unwrap();
        match tok {
            0 => collect(&c.diff_lines(sa, sb)),
            1 => collect(&c.diff_words(sa, sb)),
            2 => collect(&c.diff_chars(sa, sb)),
            #[cfg(feature = "unicode")]
            3 => collect(&c.diff_unicode_words(sa, sb)),
            #[cfg(feature = "unicode")]
            4 => collect(&c.diff_graphemes(sa, sb)),
            _ => collect(&c.diff_chars(sa, sb)),
        }
    } else {
        match tok {
            0 => collect(&c.diff_lines(a, b)),
            1 => collect(&c.diff_words(a, b)),
            2 => collect(&c.diff_chars(a, b)),
            #[cfg(feature = "unicode")]
            3 => collect(&c.diff_unicode_words(a, b)),
            #[cfg(feature = "unicode")]
            4 => collect(&c.diff_graphemes(a, b)),
            _ => collect(&c.diff_chars(a, b)),
        }
    }
}

/// the same diff over a user-defined text type (character-indexed, U+2028 also ends a line)
fn run_diff_odd(tok: usize, alg: Algorithm, ta: &str, tb: &str, fuel: Option<u64>) -> (Vec<Row>, Vec<Row>) {
    use crate::odd_str::OddStr;
    let mut c = TextDiff::configure();
    c.algorithm(alg);
    if let Some(k) = fuel {
        c.deadline(far_deadline());
        similar::verif_hooks::set_clock(similar::verif_hooks::Clock::Fuel(k));
    }
    let (a, b) = (OddStr::new(ta), OddStr::new(tb));
    match tok {
        0 => collect(&c.diff_lines(a, b)),
        1 => collect(&c.diff_words(a, b)),
        2 => collect(&c.diff_chars(a, b)),
        #[cfg(feature = "unicode")]
        3 => collect(&c.diff_unicode_words(a, b)),
        #[cfg(feature = "unicode")]
        4 => collect(&c.diff_graphemes(a, b)),
        _ => collect(&c.diff_chars(a, b)),
    }
}

/// Two different 16-byte ASCII lines ("dddddddd" + 7 printable bytes + LF) with the same word-wise
/// 64-bit Fx hash (h = (rotl(h,5) ^ word) * K per 8-byte little-endian word) when hashed the way
/// `str` (bytes, then 0xff) respectively `[u8]` (length prefix, then bytes) feed a `Hasher`.
fn fx_collision(as_str: bool) -> Option<(String, String)> {
    const K: u64 = 0x51_7c_c1_b7_27_22_0a_95;
    let step = |h: u64, w: u64| (h.rotate_left(5) ^ w).wrapping_mul(K);
    let h0: u64 = if as_str { 0 } else { step(0, 16) };
    let w1 = u64::from_le_bytes(*b"00000000");
    let w2 = u64::from_le_bytes(*b"bbbbbbb\n");
    let s1 = step(h0, w1);
    for cand in 1..20_000_000u64 {
        let d = format!("{:08}", cand);
        let w1b = u64::from_le_bytes(d.as_bytes().try_into().ok()?);
        let s1b = step(h0, w1b);
        let w2b = w2 ^ s1.rotate_left(5) ^ s1b.rotate_left(5);
        let bytes = w2b.to_le_bytes();
        if bytes[7] == b'\n' && bytes[..7].iter().all(|c| (0x21..0x7f).contains(c)) {
            debug_assert_eq!(step(s1, w2), step(s1b, w2b));
            let x = "00000000bbbbbbb\n".to_string();
            let y = format!("{}{}", d, String::from_utf8(bytes.to_vec()).ok()?);
            if x != y {
                return Some((x, y));
            }
        }
    }
    None
}

fn judge(what: &str, rows: &[Row], a: &[u8], b: &[u8], ctx: &dyn Fn() -> String, out: &mut Local) {
    for f in ACCESSOR_FAILS.with(|f| std::mem::take(&mut *f.borrow_mut())) {
        out.violation("text.value_accessors", format!("{} | {}", f, ctx()));
    }
    for f in ITER_FAILS.with(|f| std::mem::take(&mut *f.borrow_mut())) {
        out.violation("text.iterator_protocol", format!("{} | {}", f, ctx()));
    }
    out.count_n("iterator_batteries_run", ITER_BATTERIES.with(|c| c.replace(0)));
    let mut old = Vec::new();
    let mut new = Vec::new();
    let (mut oi, mut ni) = (0usize, 0usize);
    for (k, (tag, o, n, v)) in rows.iter().enumerate() {
        match tag {
            ChangeTag::Equal => {
                if *o != Some(oi) || *n != Some(ni) {
                    out.violation("text.indices", format!("{}: change #{} Equal carries indices {:?}/{:?}, expected {}/{} | {}", what, k, o, n, oi, ni, ctx()));
                    return;
                }
                old.extend_from_slice(v);
                new.extend_from_slice(v);
                oi += 1;
                ni += 1;
            }
            ChangeTag::Delete => {
                if *o != Some(oi) || n.is_some() {
                    out.violation("text.indices", format!("{}: change #{} Delete carries indices {:?}/{:?}, expected {}/None | {}", what, k, o, n, oi, ctx()));
                    return;
                }
                old.extend_from_slice(v);
                oi += 1;
            }
            ChangeTag::Insert => {
                if o.is_some() || *n != Some(ni) {
                    out.violation("text.indices", format!("{}: change #{} Insert carries indices {:?}/{:?}, expected None/{} | {}", what, k, o, n, ni, ctx()));
                    return;
                }
                new.extend_from_slice(v);
                ni += 1;
            }
        }
    }
    if old != a {
        out.violation("text.old_not_reconstructed", format!("{}: non-Insert values concatenate to {} | {}", what, show(&old), ctx()));
    }
    if new != b {
        out.violation("text.new_not_reconstructed", format!("{}: non-Delete values concatenate to {} | {}", what, show(&new), ctx()));
    }
}

fn case(a: &[u8], b: &[u8], algs: &[Algorithm], skip_bstr_unicode: bool, out: &mut Local) {
    let valid = std::str::from_utf8(a).is_ok() && std::str::from_utf8(b).is_ok();
    for tok in 0..TOKS.len() {
        #[cfg(not(feature = "unicode"))]
        if tok >= 3 {
            continue;
        }
        for &alg in algs {
            // the LCS table is quadratic: keep it to inputs with few tokens
            if alg == Algorithm::Lcs && ((tok >= 2 && a.len() + b.len() > 400) || a.len() + b.len() > 4000) {
                continue;
            }
            if valid && a.len() + b.len() <= 4000 {
                let (ta, tb) = (crate::odd_str::oddify_same_case(std::str::from_utf8(a).unwrap()), crate::odd_str::oddify_same_case(std::str::from_utf8(b).unwrap()));
                for fuel in [None, Some(1u64)] {
                    let ctx = || format!("tokenizer={} alg={} type=OddStr (user-defined: character-indexed, U+2028 ends a line) deadline={:?} old={} new={}", TOKS[tok], alg_name(alg), fuel, show(ta.as_bytes()), show(tb.as_bytes()));
                    out.eval();
                    let r = guard(|| run_diff_odd(tok, alg, &ta, &tb, fuel));
                    similar::verif_hooks::set_clock(similar::verif_hooks::Clock::Off);
                    match r {
                        Err(p) => out.violation("panic", format!("text diff panicked: {} | {}", p, ctx())),
                        Ok((all, per_op)) => {
                            out.count("user_defined_text_type_diffs");
                            judge("iter_all_changes", &all, ta.as_bytes(), tb.as_bytes(), &ctx, out);
                            if per_op != all {
                                out.violation("text.per_op_differs", format!("per-op iter_changes differs from iter_all_changes | {}", ctx()));
                            }
                        }
                    }
                }
            }
            for as_str in [false, true] {
                if as_str && !valid {
                    continue;
                }
                if !as_str && skip_bstr_unicode && tok >= 3 {
                    continue;
                }
                for fuel in [None, Some(0u64), Some(1), Some(1 + (a.len() as u64 * 7 + b.len() as u64) % 6)] {
                    let ctx = || {
                        format!(
                            "tokenizer={} alg={} type={} deadline={} old={} new={}",
                            TOKS[tok],
                            alg_name(alg),
                            if as_str { "str" } else { "[u8]" },
                            match fuel {
                                None => "none".to_string(),
                                Some(k) => format!("expires at check #{}", k),
                            },
                            show(a),
                            show(b)
                        )
                    };
                    out.eval();
                    let r = guard(|| run_diff(tok, alg, as_str, a, b, fuel));
                    similar::verif_hooks::set_clock(similar::verif_hooks::Clock::Off);
                    match r {
                        Err(p) => out.violation("panic", format!("text diff panicked: {} | {}", p, ctx())),
                        Ok((all, per_op)) => {
                            out.count_n("changes_observed", all.len() as u64);
                            if fuel.is_some() {
                                out.count("diffs_with_expiring_deadline");
                            }
                            judge("iter_all_changes", &all, a, b, &ctx, out);
                            if per_op != all {
                                judge("ops().flat_map(iter_changes)", &per_op, a, b, &ctx, out);
                            }
                        }
                    }
                }
            }
        }
    }
}

pub fn families() -> Vec<Box<dyn Family>> {
    vec![
        family(
            "txt_rnd",
            "G-TXT text pairs (same / independent / line-level and word-level edits; CR, LF, CRLF mixes, missing final newline, every Unicode whitespace, multi-byte, emoji, NUL; every second case with invalid UTF-8 spliced in, [u8] only) x 5 tokenizers x 3 algorithms x {str,[u8]}: iter_all_changes and per-op iter_changes; non-trivial = texts differ and both non-empty",
            false,
            8,
            |cfg| cfg.n(8_000, 160_000),
            |idx, cfg, out| {
                let mut rng = Rng::for_case(cfg.seed, "c04.txt_rnd", idx);
                let (a, b) = text_gen::text_pair(&mut rng, if cfg.tiny { 2 } else { 7 }, idx % 2 == 0);
                out.sample(|| format!("old={} new={}", show(&a), show(&b)));
                if a != b && !a.is_empty() && !b.is_empty() {
                    out.nontrivial(&(&a, &b));
                }
                if std::str::from_utf8(&a).is_err() || std::str::from_utf8(&b).is_err() {
                    out.count("pairs_with_invalid_utf8");
                }
                case(&a, &b, &ALGS, cfg.tiny, out);
            },
        ),
        family(
            "txt100",
            "G-TXT100: texts with 0,1,50,99,100,101,102,150,400 tokens per side (both sides of the > 100 integer-mapping switch), line and word tokenizers (+ chars for the short ones), edits = k random token replacements/deletions/insertions/duplications x 3 algorithms (LCS only up to 150 tokens)",
            false,
            2,
            |cfg| cfg.n(600, 12_000),
            |idx, cfg, out| {
                let mut rng = Rng::for_case(cfg.seed, "c04.txt100", idx);
                let sizes = [0usize, 1, 50, 99, 100, 101, 102, 150, 400];
                let n = if cfg.tiny { 3 } else { *rng.pick(&sizes) };
                let sep = *rng.pick(&["\n", "\r\n", " ", "\r"]);
                let vocab = *rng.pick(&[3usize, 20, 1000]);
                let mut ta: Vec<String> = (0..n).map(|_| format!("w{}", rng.below(vocab))).collect();
                let mut tb = ta.clone();
                for _ in 0..rng.below(6) {
                    match rng.below(4) {
                        0 if !tb.is_empty() => {
                            let i = rng.below(tb.len());
                            tb[i] = format!("x{}", rng.below(vocab));
                        }
                        1 if !tb.is_empty() => {
                            let i = rng.below(tb.len());
                            tb.remove(i);
                        }
                        2 if !tb.is_empty() => {
                            let i = rng.below(tb.len());
                            let t = tb[i].clone();
                            tb.insert(i, t);
                        }
                        _ => {
                            let i = rng.below(tb.len() + 1);
                            tb.insert(i, format!("y{}", rng.below(vocab)));
                        }
                    }
                }
                if rng.chance(1, 4) {
                    std::mem::swap(&mut ta, &mut tb);
                }
                let join = |t: &[String], last: bool| {
                    let mut s = String::new();
                    for (i, w) in t.iter().enumerate() {
                        s.push_str(w);
                        if i + 1 < t.len() || last {
                            s.push_str(sep);
                        }
                    }
                    s
                };
                let a = join(&ta, rng.chance(1, 2));
                let b = join(&tb, rng.chance(1, 2));
                out.sample(|| format!("{} tokens vs {} tokens, separator {:?}", ta.len(), tb.len(), sep));
                if ta.len() > 100 || tb.len() > 100 {
                    out.count("cases_above_100_tokens");
                    out.nontrivial(&(&a, &b));
                }
                let algs: Vec<Algorithm> = if n > 150 { vec![Algorithm::Myers, Algorithm::Patience] } else { ALGS.to_vec() };
                case(a.as_bytes(), b.as_bytes(), &algs, cfg.tiny, out);
            },
        ),
        family(
            "long_texts",
            "long line texts (150..5000 lines; every 12th case above 65536 lines) with <= 12 scattered line edits x {lines, words} x {Myers, Patience} x {str,[u8]} x deadline none / expiring",
            false,
            1,
            |cfg| cfg.n(24, 400),
            |idx, cfg, out| {
                let mut rng = Rng::for_case(cfg.seed, "c04.long_texts", idx);
                let n = if cfg.tiny {
                    5
                } else if idx % 12 == 5 {
                    rng.range(65_537, 67_000)
                } else {
                    *rng.pick(&[150usize, 255, 256, 257, 1000, 5000])
                };
                let (a, b) = text_gen::long_text_pair(&mut rng, n, 12);
                out.sample(|| format!("{} lines; old starts {}", n, show(&a[..a.len().min(60)])));
                out.nontrivial(&(&a, &b));
                long_case(&a, &b, out);
            },
        ),
        family(
            "fingerprint_collisions",
            "line texts above the integer-mapping threshold in which ONE line of old is replaced in new by a different line that COLLIDES with it under a popular fast 64-bit string hash (word-wise Fx hash as used by rustc: two 16-byte ASCII lines constructed per text type so that the hasher state after them is identical; also with the pair swapped and with the colliding lines present on both sides): tokens that merely hash alike must never be treated as equal x 3 algorithms x {str,[u8]}",
            true,
            1,
            |cfg| if cfg.tiny { 1 } else { 6 },
            |idx, cfg, out| {
                let n = if cfg.tiny { 12 } else { [120usize, 101, 400][(idx % 3) as usize] };
                for as_str in [true, false] {
                    let Some((x, y)) = fx_collision(as_str) else {
                        out.count("no_collision_constructed");
                        continue;
                    };
                    let mut la: Vec<String> = (0..n).map(|i| format!("record {:08}\n", i)).collect();
                    let mut lb = la.clone();
                    let at = n / 2;
                    la[at] = x.clone();
                    lb[at] = y.clone();
                    if idx >= 3 {
                        // both lines on both sides, in swapped order
                        la.insert(at + 3, y.clone());
                        lb.insert(at + 3, x.clone());
                    }
                    let (a, b) = (la.concat().into_bytes(), lb.concat().into_bytes());
                    out.sample(|| format!("{} lines; line {} is {:?} in old and {:?} in new (same 64-bit Fx fingerprint as {})", n, at, x, y, if as_str { "str" } else { "[u8]" }));
                    out.nontrivial(&(n, idx, as_str));
                    out.count("fingerprint_collision_cases");
                    for alg in ALGS {
                        let ctx = || format!("tokenizer=lines alg={} type={} deadline=none old line {} = {:?}, new line {} = {:?} (equal 64-bit word-wise Fx hash), {} lines", alg_name(alg), if as_str { "str" } else { "[u8]" }, at, x, at, y, n);
                        out.eval();
                        let r = guard(|| run_diff(0, alg, as_str, &a, &b, None));
                        match r {
                            Err(p) => out.violation("panic", format!("text diff panicked: {} | {}", p, ctx())),
                            Ok((all, _)) => judge("iter_all_changes", &all, &a, &b, &ctx, out),
                        }
                    }
                }
            },
        ),
        family(
            "id_collision_hunt",
            "adaptive: 300 000 DISTINCT line tokens are handed to the crate's public integer mapping (IdentifyDistinct::<u32>); if any two different tokens receive the same id, a line text above the mapping threshold is built in which exactly these two lines replace each other, and the reconstruction is checked x 3 algorithms (on a tree whose mapping is injective nothing is found and the case only records how many tokens were examined)",
            true,
            1,
            |_cfg| 1,
            |_idx, cfg, out| {
                let n = if cfg.tiny { 200 } else { 300_000 };
                let toks: Vec<String> = (0..n).map(|i| format!("item {}\n", i)).collect();
                let refs: Vec<&str> = toks.iter().map(|s| s.as_str()).collect();
                let empty: Vec<&str> = Vec::new();
                out.eval();
                out.sample(|| format!("{} distinct line tokens through IdentifyDistinct::<u32>", n));
                out.nontrivial(&("hunt", n));
                let r = guard(|| {
                    let h = similar::algorithms::IdentifyDistinct::<u32>::new(&refs[..], 0..refs.len(), &empty[..], 0..0);
                    let lk = h.old_lookup();
                    let mut seen: std::collections::HashMap<u32, usize> = std::collections::HashMap::new();
                    let mut pairs: Vec<(usize, usize)> = Vec::new();
                    for i in 0..refs.len() {
                        if let Some(j) = seen.insert(lk[i], i) {
                            pairs.push((j, i));
                            if pairs.len() >= 3 {
                                break;
                            }
                        }
                    }
                    pairs
                });
                match r {
                    Err(p) => out.violation("panic", format!("IdentifyDistinct::new over {} distinct tokens panicked: {}", n, p)),
                    Ok(pairs) => {
                        out.count_n("tokens_checked_for_id_collisions", n as u64);
                        out.count_n("id_collisions_found", pairs.len() as u64);
                        for (i, j) in pairs {
                            let mut la: Vec<String> = (0..120).map(|k| format!("record {:08}\n", k)).collect();
                            let mut lb = la.clone();
                            la[60] = toks[i].clone();
                            lb[60] = toks[j].clone();
                            let (a, b) = (la.concat().into_bytes(), lb.concat().into_bytes());
                            for alg in ALGS {
                                let ctx = || format!("tokenizer=lines alg={} type=str deadline=none; 120 lines, line 60 is {:?} in old and {:?} in new - two DIFFERENT tokens to which IdentifyDistinct::<u32> assigns the same id", alg_name(alg), toks[i], toks[j]);
                                out.eval();
                                match guard(|| run_diff(0, alg, true, &a, &b, None)) {
                                    Err(p) => out.violation("panic", format!("text diff panicked: {} | {}", p, ctx())),
                                    Ok((all, _)) => judge("iter_all_changes", &all, &a, &b, &ctx, out),
                                }
                            }
                        }
                    }
                }
            },
        ),
        family(
            "huge_localized",
            "line texts of 66000..140000 lines (token-count product far above 2^32) whose only edits are 1..3 changed / removed / added lines inside one window of 5 lines (mostly distinct lines, or long runs of one repeated line around the window): cheap for ALL THREE algorithms (LCS strips the common head and tail), no deadline / a deadline that never expires x str",
            false,
            1,
            |cfg| if cfg.tiny { 1 } else { cfg.tier.pick(6, 24) },
            |idx, cfg, out| {
                let mut rng = Rng::for_case(cfg.seed, "c04.huge_localized", idx);
                let n = if cfg.tiny { 12 } else { *rng.pick(&[66_000usize, 70_000, 100_000, 140_000]) };
                let repeated = idx % 3 == 2;
                let mut la: Vec<String> = (0..n).map(|i| if repeated { "same\n".to_string() } else { format!("line {}\n", i) }).collect();
                let at = rng.below(n - 6);
                if repeated {
                    for k in 0..5 {
                        la[at + k] = format!("mark {}\n", k);
                    }
                }
                let mut lb = la.clone();
                for _ in 0..1 + rng.below(3) {
                    let p = at + rng.below(5.min(lb.len() - at));
                    match rng.below(3) {
                        0 => lb[p] = format!("changed {}\n", rng.below(1000)),
                        1 => {
                            lb.remove(p);
                        }
                        _ => lb.insert(p, format!("added {}\n", rng.below(1000))),
                    }
                }
                let (a, b): (String, String) = (la.concat(), lb.concat());
                let (a, b) = (a.into_bytes(), b.into_bytes());
                out.sample(|| format!("{} lines, edits within lines {}..{}", n, at, at + 5));
                out.nontrivial(&(n, at, &lb[at..at + 4]));
                out.count("huge_localized_cases");
                for alg in ALGS {
                    for fuel in [None, Some(u64::MAX)] {
                        let ctx = || format!("tokenizer=lines alg={} type=str deadline={} ({} lines, edits within lines {}..{})", alg_name(alg), if fuel.is_some() { "present, never expires" } else { "none" }, n, at, at + 5);
                        out.eval();
                        let r = guard(|| run_diff(0, alg, true, &a, &b, fuel));
                        similar::verif_hooks::set_clock(similar::verif_hooks::Clock::Off);
                        match r {
                            Err(p) => out.violation("panic", format!("text diff panicked: {} | {}", p, ctx())),
                            Ok((all, _)) => {
                                out.count_n("changes_observed", all.len() as u64);
                                judge("iter_all_changes", &all, &a, &b, &ctx, out);
                            }
                        }
                    }
                }
            },
        ),
        family(
            "distinct_boundary",
            "texts of n DISTINCT lines with n just below 256 / 1000 / 1024 / 2048 / 4096 / 8192 / 32768 / 65536 where the new text swaps a block for fresh lines (distinct tokens on both sides together cross the boundary) x {lines, words} x {Myers, Patience}",
            true,
            1,
            |cfg| if cfg.tiny { 1 } else { cfg.tier.pick(16, 48) },
            |idx, cfg, out| {
                let mut rng = Rng::for_case(cfg.seed, "c04.distinct_boundary", idx);
                let bound = if cfg.tiny { 8 } else { text_gen::BOUNDARIES[(idx % 8) as usize] };
                // both sides have n < bound lines; together they have n + fresh > bound distinct lines
                let n = bound - 1 - rng.below(bound.min(400) / 4 + 1);
                let fresh = (rng.range(bound - n + 1, (bound - n + 1) + bound.min(900))).min(n);
                let (a, b) = text_gen::distinct_lines_pair(&mut rng, n, fresh, fresh);
                out.sample(|| format!("{} distinct old lines, {} fresh new lines (boundary {})", n, fresh, bound));
                out.nontrivial(&(&a, &b));
                long_case(&a, &b, out);
            },
        ),
        family(
            "asymmetric_blocks",
            "a block of 10..6000 lines replaced by 10..6000 unrelated lines between common head and tail (strongly lopsided sizes: the search needs thousands of rounds) x lines tokenizer x {Myers, Patience} x {str,[u8]}",
            false,
            1,
            |cfg| if cfg.tiny { 1 } else { cfg.tier.pick(8, 72) },
            |idx, cfg, out| {
                let mut rng = Rng::for_case(cfg.seed, "c04.asymmetric_blocks", idx);
                let (l1, l2) = if cfg.tiny { (5, 1) } else { (*rng.pick(&text_gen::BLOCK_SIZES), *rng.pick(&text_gen::BLOCK_SIZES)) };
                let (head, tail) = (rng.below(200), rng.below(200));
                let (a, b) = text_gen::asymmetric_lines_pair(&mut rng, head, tail, l1, l2);
                out.sample(|| format!("{} head lines, block of {} lines replaced by {} lines, {} tail lines", head, l1, l2, tail));
                out.nontrivial(&(head, tail, l1, l2));
                out.count("asymmetric_block_cases");
                long_case(&a, &b, out);
            },
        ),
        family(
            "aliased_and_flags",
            "(a) old and new are ALIASING views of one buffer (text vs its own prefix / suffix / trimmed form, cut on character boundaries), (b) G-TXT pairs diffed with the newline_terminated flag overridden to true / false: x 5 tokenizers x 3 algorithms x {str,[u8]}",
            false,
            8,
            |cfg| cfg.n(3_000, 60_000),
            |idx, cfg, out| {
                let mut rng = Rng::for_case(cfg.seed, "c04.aliased_and_flags", idx);
                if idx % 2 == 0 {
                    let (t, _) = text_gen::text_pair(&mut rng, if cfg.tiny { 2 } else { 7 }, false);
                    let s = String::from_utf8(t).unwrap();
                    let cuts: Vec<usize> = s.char_indices().map(|x| x.0).chain(std::iter::once(s.len())).collect();
                    let k = cuts[rng.below(cuts.len())];
                    let (a, b): (&str, &str) = match rng.below(5) {
                        0 => (&s[..], &s[..k]),
                        1 => (&s[..k], &s[..]),
                        2 => (&s[..], &s[k..]),
                        3 => (&s[..], s.trim_end()),
                        // same start, the last token differs only in length
                        _ => (&s[..s.len().saturating_sub(s.chars().last().map_or(0, |c| c.len_utf8()))], &s[..]),
                    };
                    out.sample(|| format!("aliased views: old={:?} new={:?}", a, b));
                    if a != b {
                        out.nontrivial(&(a, b));
                    }
                    out.count("aliased_pairs");
                    case(a.as_bytes(), b.as_bytes(), &ALGS, cfg.tiny, out);
                } else {
                    let (a, b) = text_gen::text_pair(&mut rng, if cfg.tiny { 2 } else { 7 }, idx % 6 == 1);
                    let flag = 1 + (idx / 2 % 2) as u8;
                    out.sample(|| format!("newline_terminated({}) old={} new={}", flag == 1, show(&a), show(&b)));
                    if a != b {
                        out.nontrivial(&(&a, &b, flag));
                    }
                    struct Reset;
                    impl Drop for Reset {
                        fn drop(&mut self) {
                            NL_OVERRIDE.with(|x| x.set(0));
                        }
                    }
                    let _reset = Reset;
                    NL_OVERRIDE.with(|x| x.set(flag));
                    out.count("flag_override_cases");
                    case(&a, &b, &ALGS, cfg.tiny, out);
                }
            },
        ),
        family(
            "constructors",
            "TextDiff::from_lines/from_words/from_chars/from_unicode_words/from_graphemes/from_slices are the default-configured builder: same changes as TextDiff::configure().diff_*; G-TXT pairs x {str,[u8]}",
            false,
            16,
            |cfg| cfg.n(2_000, 40_000),
            |idx, cfg, out| {
                let mut rng = Rng::for_case(cfg.seed, "c04.constructors", idx);
                let (a, b) = text_gen::text_pair(&mut rng, if cfg.tiny { 2 } else { 7 }, idx % 2 == 0);
                out.sample(|| format!("old={} new={}", show(&a), show(&b)));
                if a != b {
                    out.nontrivial(&(&a, &b));
                }
                constructors_case(&a, &b, cfg.tiny, out);
            },
        ),

        family(
            "deep_many_changes",
            "STACK DEPTH: line texts with 1500..3000 separate small hunks (Patience; every 7th hunk is reshaped by the clean-up): iter_all_changes and per-op iter_changes must reconstruct both texts; run with the stack of an ordinary thread in the small-stack stage (an unoptimised build)",
            false,
            1,
            |cfg| if cfg.tiny { 1 } else { cfg.tier.pick(3, 9) },
            |idx, cfg, out| {
                let mut rng = Rng::for_case(cfg.seed, "c04.deep", idx);
                let hunks = if cfg.tiny { 6 } else { rng.range(1500, 3000) };
                let (a, b, _) = crate::gen::many_hunks_pair(hunks);
                let render = |v: &[u32]| -> Vec<u8> {
                    let mut t = Vec::with_capacity(v.len() * 10);
                    for x in v {
                        t.extend_from_slice(format!("l{}\n", x).as_bytes());
                    }
                    t
                };
                let (ta, tb) = (render(&a), render(&b));
                out.sample(|| format!("{} hunks, {} / {} lines", hunks, a.len(), b.len()));
                out.nontrivial(&("deep", hunks, idx));
                out.count("deep_cases");
                for as_str in [true, false] {
                    out.eval();
                    let ctx = || format!("tokenizer=lines alg=patience type={} {} hunks", if as_str { "str" } else { "[u8]" }, hunks);
                    match guard(|| run_diff(0, Algorithm::Patience, as_str, &ta, &tb, None)) {
                        Err(p) => out.violation("panic", format!("text diff panicked: {} | {}", p, ctx())),
                        Ok((all, per_op)) => {
                            judge("iter_all_changes", &all, &ta, &tb, &ctx, out);
                            if all != per_op {
                                out.violation("text.per_op_differs", format!("per-op iter_changes differs from iter_all_changes | {}", ctx()));
                            }
                        }
                    }
                }
            },
        ),
    ]
}

/// lines + words only, Myers + Patience, for long inputs
fn long_case(a: &[u8], b: &[u8], out: &mut Local) {
    let valid = std::str::from_utf8(a).is_ok() && std::str::from_utf8(b).is_ok();
    for tok in [0usize, 1] {
        for alg in [Algorithm::Myers, Algorithm::Patience] {
            for as_str in [false, true] {
                if as_str && !valid {
                    continue;
                }
                for fuel in [None, Some(2u64)] {
                    let ctx = || format!("tokenizer={} alg={} type={} deadline={:?} ({} / {} bytes)", TOKS[tok], alg_name(alg), if as_str { "str" } else { "[u8]" }, fuel, a.len(), b.len());
                    out.eval();
                    let r = guard(|| run_diff(tok, alg, as_str, a, b, fuel));
                    similar::verif_hooks::set_clock(similar::verif_hooks::Clock::Off);
                    match r {
                        Err(p) => out.violation("panic", format!("text diff panicked: {} | {}", p, ctx())),
                        Ok((all, _)) => {
                            out.count_n("changes_observed", all.len() as u64);
                            judge("iter_all_changes", &all, a, b, &ctx, out);
                        }
                    }
                }
            }
        }
    }
}

fn constructors_case(a: &[u8], b: &[u8], skip_bstr_unicode: bool, out: &mut Local) {
    let valid = std::str::from_utf8(a).is_ok() && std::str::from_utf8(b).is_ok();
    for tok in 0..TOKS.len() {
        #[cfg(not(feature = "unicode"))]
        if tok >= 3 {
            continue;
        }
        for as_str in [false, true] {
            if as_str && !valid {
                continue;
            }
            if !as_str && skip_bstr_unicode && tok >= 3 {
                continue;
            }
            out.eval();
            let r = guard(|| {
                if as_str {
                    let (sa, sb) = (std::str::from_utf8(a).unwrap(), std::str::from_utf8(b).unwrap());
                    let d = match tok {
                        0 => collect(&TextDiff::from_lines(sa, sb)),
                        1 => collect(&TextDiff::from_words(sa, sb)),
                        2 => collect(&TextDiff::from_chars(sa, sb)),
                        #[cfg(feature = "unicode")]
                        3 => collect(&TextDiff::from_unicode_words(sa, sb)),
                        #[cfg(feature = "unicode")]
                        4 => collect(&TextDiff::from_graphemes(sa, sb)),
                        _ => collect(&TextDiff::from_chars(sa, sb)),
                    };
                    let ta = sa.tokenize_lines();
                    let tb = sb.tokenize_lines();
                    (d, collect(&TextDiff::from_slices(&ta, &tb)))
                } else {
                    let d = match tok {
                        0 => collect(&TextDiff::from_lines(a, b)),
                        1 => collect(&TextDiff::from_words(a, b)),
                        2 => collect(&TextDiff::from_chars(a, b)),
                        #[cfg(feature = "unicode")]
                        3 => collect(&TextDiff::from_unicode_words(a, b)),
                        #[cfg(feature = "unicode")]
                        4 => collect(&TextDiff::from_graphemes(a, b)),
                        _ => collect(&TextDiff::from_chars(a, b)),
                    };
                    let ta = a.tokenize_lines();
                    let tb = b.tokenize_lines();
                    (d, collect(&TextDiff::from_slices(&ta, &tb)))
                }
            });
            let ctx = || format!("constructor TextDiff::from_{} type={} old={} new={}", TOKS[tok], if as_str { "str" } else { "[u8]" }, show(a), show(b));
            match r {
                Err(p) => out.violation("panic", format!("{} | {}", p, ctx())),
                Ok(((all, _), (sl, _))) => {
                    // the same texts handed over as String / Cow<str> / Vec<u8> (DiffableStrRef)
                    if tok == 0 {
                        let r2 = guard(|| {
                            if as_str {
                                let (sa, sb) = (std::str::from_utf8(a).unwrap().to_string(), std::str::from_utf8(b).unwrap().to_string());
                                let from_string = collect(&TextDiff::from_lines(&sa, &sb)).0;
                                let (ca, cb): (std::borrow::Cow<str>, std::borrow::Cow<str>) = (std::borrow::Cow::Owned(sa.clone()), std::borrow::Cow::Borrowed(&sb));
                                let from_cow = collect(&TextDiff::configure().diff_lines(&ca, &cb)).0;
                                (from_string, from_cow)
                            } else {
                                let (va, vb) = (a.to_vec(), b.to_vec());
                                let from_vec = collect(&TextDiff::from_lines(&va, &vb)).0;
                                let (ca, cb): (std::borrow::Cow<[u8]>, std::borrow::Cow<[u8]>) = (std::borrow::Cow::Borrowed(a), std::borrow::Cow::Owned(vb.clone()));
                                let from_cow = collect(&TextDiff::configure().diff_lines(&ca, &cb)).0;
                                (from_vec, from_cow)
                            }
                        });
                        match r2 {
                            Err(p) => out.violation("panic", format!("String / Cow / Vec<u8> input: {} | {}", p, ctx())),
                            Ok((x, y)) => {
                                if x != all || y != all {
                                    out.violation("text.owned_input_differs", format!("String / Vec<u8> / Cow inputs give different changes than the borrowed text | {}", ctx()));
                                }
                                out.count("owned_input_conversions_checked");
                            }
                        }
                    }
                    judge("from_* constructor", &all, a, b, &ctx, out);
                    judge("from_slices over line tokens", &sl, a, b, &ctx, out);
                    // same as the default-configured builder
                    if let Ok((cfg_all, _)) = guard(|| run_diff(tok, Algorithm::Myers, as_str, a, b, None)) {
                        if cfg_all != all {
                            out.violation("text.constructor_differs_from_builder", format!("from_{} and configure().diff_{} give different changes | {}", TOKS[tok], TOKS[tok], ctx()));
                        }
                    }
                }
            }
        }
    }
}
