//! C07 — deadline expiry at any point still yields a valid diff, promptly;
//! the deadline is plumbed through every entry point.
//!
//! Fault model: hook H2 (virtual clock).  Fuel(k): the k-th deadline check is
//! the first to report "expired".  Time(T): the deadline passes when the
//! virtual time (one tick per element comparison, advanced by the harness'
//! CountingElem) reaches T — so code that stops checking does not freeze time.

use std::ops::Range;
use std::time::{Duration, Instant};

use similar::algorithms::{Capture, Compact, Replace};
use similar::verif_hooks as vh;
use similar::{capture_diff_deadline, capture_diff_slices_deadline, Algorithm, DiffOp, TextDiff};

use crate::engine::{family, guard, Config, Family, Local};
use crate::gen;
use crate::mon::{check_ops, cmp_count, cmp_reset, fmt_evs, fmt_ops, CountingElem, Ev, TraceMon};
use crate::props::common::*;
use crate::rng::Rng;

const BOUND_MUL: u64 = 6;
const BOUND_ADD: u64 = 16;

pub fn families() -> Vec<Box<dyn Family>> {
    vec![
        family(
            "fuel_exh",
            "fault enumeration: every ordered pair over {0,1,2} with N+M <= 10 (thorough: all pairs up to length 6) x 3 algorithms x {algorithms::diff_deadline, <alg>::diff_deadline, diff_slices_deadline} x EVERY k in 0..=P (P = number of deadline checks of the never-expiring run): raw stream under the online trace monitor + captured ops; never-expiring == no deadline; non-trivial = at least one check happened and k < P",
            true,
            32,
            |cfg| {
                let n = gen::all_seqs(3, if cfg.tiny { 2 } else { cfg.tier.pick(5, 6) }).len() as u64;
                n * n
            },
            |idx, cfg, out| {
                let seqs = gen::all_seqs(3, if cfg.tiny { 2 } else { cfg.tier.pick(5, 6) });
                let (a, b) = gen::pair_of(seqs, idx);
                let a: Vec<u32> = a.iter().map(|x| *x as u32).collect();
                let b: Vec<u32> = b.iter().map(|x| *x as u32).collect();
                out.sample(|| format!("old={:?} new={:?} x 3 algorithms x every expiry point", a, b));
                for alg in ALGS {
                    validity_case(cfg, alg, &a, 0..a.len(), &b, 0..b.len(), true, (idx % 3) as u8, out);
                }
            },
        ),
        family(
            "fuel_sub",
            "fault enumeration on sub-ranges: every pair over {0,1} (thorough {0,1,2}) with length <= 4 x every (old_range,new_range) x 3 algorithms x every k",
            true,
            4,
            |cfg| {
                let n = gen::all_seqs(cfg.tier.pick(2, 3), if cfg.tiny { 2 } else { 4 }).len() as u64;
                n * n
            },
            |idx, cfg, out| {
                let seqs = gen::all_seqs(cfg.tier.pick(2, 3), if cfg.tiny { 2 } else { 4 });
                let (a, b) = gen::pair_of(seqs, idx);
                let a: Vec<u32> = a.iter().map(|x| *x as u32).collect();
                let b: Vec<u32> = b.iter().map(|x| *x as u32).collect();
                out.sample(|| format!("old={:?} new={:?} x all sub-ranges x 3 algorithms x every expiry point", a, b));
                for or in gen::subranges(a.len()) {
                    for nr in gen::subranges(b.len()) {
                        for alg in ALGS {
                            validity_case(cfg, alg, &a, or.clone(), &b, nr.clone(), true, 1, out);
                        }
                    }
                }
            },
        ),
        family(
            "fuel_rnd",
            "seeded random pairs up to 400 items (LCS: 150) with random sub-ranges x one algorithm x up to 16 sampled k (always 0, 1, 2, P-1, P)",
            false,
            8,
            |cfg| cfg.n(12_000, 300_000),
            |idx, cfg, out| {
                let mut rng = Rng::for_case(cfg.seed, "c07.fuel_rnd", idx);
                let alg = ALGS[rng.below(3)];
                let (a, b) = gen::rand_pair(&mut rng, if cfg.tiny { 8 } else if alg == Algorithm::Lcs { 150 } else { 400 });
                let (or, nr) = if rng.chance(2, 3) { (0..a.len(), 0..b.len()) } else { gen::rand_ranges(&mut rng, a.len(), b.len()) };
                out.sample(|| format!("alg={} old={} range {:?} new={} range {:?}", alg_name(alg), fmt_seq(&a), or, fmt_seq(&b), nr));
                validity_case(cfg, alg, &a, or, &b, nr, false, rng.below(3) as u8, out);
            },
        ),
        family(
            "fuel_far",
            "large edit distances under a deadline: lopsided replaced blocks (10..1500 old items replaced by 10..1500 unrelated new items between a common head and tail) and mostly unrelated sequences of 400..1500 items sharing a few landmarks x {Myers, Patience} (LCS up to 300 items): deadline present but never expiring == no deadline, plus up to 16 sampled expiry points, raw and captured",
            false,
            1,
            |cfg| cfg.n(60, 1_200),
            |idx, cfg, out| {
                let mut rng = Rng::for_case(cfg.seed, "c07.fuel_far", idx);
                let (a, b) = if cfg.tiny {
                    gen::asymmetric_replace(&mut rng, 1, 1, 4, 1)
                } else if idx % 3 == 0 {
                    let (n, m) = (rng.range(400, 1500), rng.range(400, 1500));
                    let k = rng.range(2, 30);
                    let crossing = rng.below(3);
                    gen::landmark_pair(&mut rng, n, m, k, crossing)
                } else {
                    let sizes = [10usize, 100, 300, 600, 1000, 1500];
                    let (l1, l2) = (*rng.pick(&sizes), *rng.pick(&sizes));
                    let (head, tail) = (rng.below(50), rng.below(50));
                    gen::asymmetric_replace(&mut rng, head, tail, l1, l2)
                };
                let alg = if a.len().max(b.len()) <= 300 && rng.chance(1, 3) { Algorithm::Lcs } else if rng.chance(1, 2) { Algorithm::Myers } else { Algorithm::Patience };
                out.sample(|| format!("alg={} N={} M={}", alg_name(alg), a.len(), b.len()));
                out.count("far_cases");
                validity_case(cfg, alg, &a, 0..a.len(), &b, 0..b.len(), false, rng.below(3) as u8, out);
            },
        ),
        family(
            "never_expiring_far",
            "edit distances above 8192 in ONE box (two mostly unrelated sequences of 4200..5200 items each, thorough up to 9000; lopsided 8500 vs 300) x {Myers, Patience}: a deadline that is present but never expires must give exactly the result of no deadline, raw and captured",
            false,
            1,
            |cfg| if cfg.tiny { 1 } else { cfg.tier.pick(6, 30) },
            |idx, cfg, out| {
                let mut rng = Rng::for_case(cfg.seed, "c07.never_expiring_far", idx);
                let (a, b) = if cfg.tiny {
                    gen::asymmetric_replace(&mut rng, 1, 1, 4, 2)
                } else if idx % 3 == 2 {
                    let (head, tail) = (rng.below(50), rng.below(50));
                    gen::asymmetric_replace(&mut rng, head, tail, 8500, 300)
                } else {
                    let hi = cfg.tier.pick(5200, 9000);
                    let (n, m) = (rng.range(4200, hi), rng.range(4200, hi));
                    let k = rng.range(2, 20);
                    gen::landmark_pair(&mut rng, n, m, k, 0)
                };
                let alg = if idx % 2 == 0 { Algorithm::Myers } else { Algorithm::Patience };
                out.sample(|| format!("alg={} N={} M={}", alg_name(alg), a.len(), b.len()));
                out.nontrivial(&(alg_name(alg), a.len(), b.len(), idx));
                out.count("never_expiring_far_cases");
                let far = far_deadline();
                let eq = |o: usize, n: usize| a[o] == b[n];
                out.evals_add(4);
                vh::set_clock(vh::Clock::Off);
                let base = traced(Entry::Dispatch, alg, &a[..], 0..a.len(), &b[..], 0..b.len(), &eq, None, true);
                let (never, _) = raw_under_clock(0, alg, &a, 0..a.len(), &b, 0..b.len(), &eq, vh::Clock::Fuel(u64::MAX), far);
                let ctx = || format!("alg={} N={} M={} old={} new={}", alg_name(alg), a.len(), b.len(), fmt_seq(&a), fmt_seq(&b));
                report_trace(out, "diff without deadline", &ctx, &base);
                report_trace(out, "diff with a deadline that never expires", &ctx, &never);
                if let (Ok(x), Ok(y)) = (&base, &never) {
                    if x.evs != y.evs {
                        out.violation(
                            "deadline.never_expiring_differs",
                            format!("never-expiring deadline: {} callbacks, cost {}; no deadline: {} callbacks, cost {} | {}", y.evs.len(), y.cost(), x.evs.len(), x.cost(), ctx()),
                        );
                    }
                }
                let c0 = guard(|| similar::capture_diff(alg, &a[..], 0..a.len(), &b[..], 0..b.len()));
                vh::set_clock(vh::Clock::Fuel(u64::MAX));
                let c1 = guard(|| capture_diff_deadline(alg, &a[..], 0..a.len(), &b[..], 0..b.len(), Some(far)));
                vh::set_clock(vh::Clock::Off);
                if let (Ok(x), Ok(y)) = (&c0, &c1) {
                    if x != y {
                        out.violation("deadline.never_expiring_differs", format!("capture_diff_deadline with a never-expiring deadline gives {} ops, capture_diff {} ops | {}", y.len(), x.len(), ctx()));
                    }
                }
            },
        ),
        family(
            "prompt",
            "promptness: items whose PartialEq counts comparisons and advances the virtual clock; families {random pairs, distinct items with <= 3 shared anchors (no snakes), one huge dissimilar gap in front of / behind a unique common item, periodic}; sizes up to 300 (quick) / 1200 (thorough); fuel mode: every k (sampled when P > 24) -> comparisons after the first expired check; time mode: T in {0, the time of every check (sampled), random T in 0..=W} -> comparisons after T; bound 6*(N+M)+16",
            false,
            4,
            |cfg| cfg.n(2_500, 40_000),
            |idx, cfg, out| {
                let mut rng = Rng::for_case(cfg.seed, "c07.prompt", idx);
                let alg = ALGS[rng.below(3)];
                let max = if cfg.tiny { 8 } else if alg == Algorithm::Lcs { 120 } else { cfg.tier.pick(300, 1200) };
                let (a, b, fam) = prompt_input(&mut rng, max);
                out.sample(|| format!("alg={} family={} old={} new={}", alg_name(alg), fam, fmt_seq(&a), fmt_seq(&b)));
                prompt_case(cfg, alg, &a, &b, fam, &mut rng, out);
            },
        ),
        family(
            "plumbing",
            "plumbing: under the same virtual clock (fuel k sampled incl. 0 and never), capture_diff_deadline, capture_diff_slices_deadline, TextDiff::configure().deadline(t) / .timeout(d) with <= 100 and > 100 tokens must return exactly the ops of algorithms::diff_deadline behind Compact+Replace, must consult the deadline whenever that reference run did, and the Instant that reaches the deadline check must be the configured one (timeout: diff start + d)",
            false,
            4,
            |cfg| cfg.n(3_000, 60_000),
            |idx, cfg, out| {
                let mut rng = Rng::for_case(cfg.seed, "c07.plumbing", idx);
                plumbing_case(cfg, idx, &mut rng, out);
            },
        ),
    ]
}

// ---------------------------------------------------------------------------
// validity at every expiry point

fn raw_under_clock<'e>(
    entry: u8,
    alg: Algorithm,
    a: &[u32],
    or: Range<usize>,
    b: &[u32],
    nr: Range<usize>,
    eq: &'e dyn Fn(usize, usize) -> bool,
    clock: vh::Clock,
    far: Instant,
) -> (Result<TraceMon<'e>, String>, u64) {
    vh::set_clock(clock);
    let full = or == (0..a.len()) && nr == (0..b.len());
    let r = if entry == 2 && full {
        let mut mon = TraceMon::new(eq, or.clone(), nr.clone());
        match guard(|| similar::algorithms::diff_slices_deadline(alg, &mut mon, a, b, Some(far))) {
            Ok(Ok(())) => {
                mon.finish_check();
                Ok(mon)
            }
            Ok(Err(())) => {
                mon.failures.push(("trace.spurious_error", "diff returned Err".into()));
                Ok(mon)
            }
            Err(p) => Err(p),
        }
    } else {
        traced(if entry == 0 { Entry::Dispatch } else { Entry::Module }, alg, a, or, b, nr, eq, Some(far), true)
    };
    let probes = vh::probes().0;
    vh::set_clock(vh::Clock::Off);
    (r, probes)
}

#[allow(clippy::too_many_arguments)]
fn validity_case(cfg: &Config, alg: Algorithm, a: &[u32], or: Range<usize>, b: &[u32], nr: Range<usize>, all_k: bool, entry: u8, out: &mut Local) {
    // dummy Instant (the virtual clock decides): far future or past, by case
    let far = dummy_deadline(a.len() + b.len() + or.len());
    let eq = |o: usize, n: usize| a[o] == b[n];
    let ctx = |k: Option<u64>| {
        format!(
            "alg={} entry={} old={} range {:?} new={} range {:?} deadline {}",
            alg_name(alg),
            ["algorithms::diff_deadline", "<alg>::diff_deadline", "diff_slices_deadline"][entry as usize],
            fmt_seq(a),
            or,
            fmt_seq(b),
            nr,
            match k {
                None => "absent".to_string(),
                Some(u64::MAX) => "present, never expires".to_string(),
                Some(k) => format!("expires at check #{}", k),
            }
        )
    };
    // reference: no deadline at all (deadline fn with None)
    out.eval();
    vh::set_clock(vh::Clock::Off);
    let base = traced(if entry == 0 { Entry::Dispatch } else { Entry::Module }, alg, a, or.clone(), b, nr.clone(), &eq, None, true);
    let c0 = || ctx(None);
    report_trace(out, "diff with deadline None", &c0, &base);
    // never expiring
    out.eval();
    let (never, p) = raw_under_clock(entry, alg, a, or.clone(), b, nr.clone(), &eq, vh::Clock::Fuel(u64::MAX), far);
    let c1 = || ctx(Some(u64::MAX));
    report_trace(out, "diff with a deadline that never expires", &c1, &never);
    if let (Ok(x), Ok(y)) = (&base, &never) {
        if x.evs != y.evs {
            out.violation(
                "deadline.never_expiring_differs",
                format!("{}: never-expiring deadline gives {} but no deadline gives {}", ctx(Some(u64::MAX)), fmt_evs(&y.evs), fmt_evs(&x.evs)),
            );
        }
    }
    out.max("deadline_checks_per_run", p as f64);
    if p > 0 {
        out.count("runs_with_deadline_checks");
    }
    let ks: Vec<u64> = if all_k && p <= 64 {
        (0..=p).collect()
    } else {
        let mut rng = Rng::for_case(cfg.seed, "c07.ks", p ^ ((a.len() as u64) << 20) ^ ((b.len() as u64) << 40));
        let mut ks = vec![0, 1, 2, 3, p.saturating_sub(1), p];
        for _ in 0..10 {
            ks.push(rng.below(p as usize + 1) as u64);
        }
        ks.sort();
        ks.dedup();
        ks.retain(|k| *k <= p);
        ks
    };
    for k in ks {
        out.eval();
        out.count("expiry_points_run");
        let (r, _) = raw_under_clock(entry, alg, a, or.clone(), b, nr.clone(), &eq, vh::Clock::Fuel(k), far);
        let ck = || ctx(Some(k));
        let ok = report_trace(out, "diff whose deadline expires", &ck, &r);
        if k < p {
            out.nontrivial(&(alg_name(alg), a, or.start, or.end, b, nr.start, nr.end, k));
            if ok {
                if let (Ok(x), Ok(y)) = (&base, &r) {
                    if x.evs != y.evs {
                        out.count("expired_runs_with_degraded_script");
                    }
                }
            }
        }
        // captured under the same expiry point
        out.eval();
        vh::set_clock(vh::Clock::Fuel(k));
        let cap = guard(|| capture_diff_deadline(alg, a, or.clone(), b, nr.clone(), Some(far)));
        vh::set_clock(vh::Clock::Off);
        match cap {
            Err(pn) => out.violation("panic", format!("capture_diff_deadline panicked: {} | {}", pn, ctx(Some(k)))),
            Ok(ops) => {
                let v = check_ops(&ops, &eq, or.clone(), nr.clone());
                for (code, msg) in &v.script {
                    out.violation(code, format!("captured: {} | {} | ops={}", msg, ctx(Some(k)), fmt_ops(&ops)));
                }
            }
        }
    }
}

// ---------------------------------------------------------------------------
// promptness

fn prompt_input(rng: &mut Rng, max: usize) -> (Vec<u32>, Vec<u32>, &'static str) {
    let sz = |rng: &mut Rng| if max <= 10 { rng.range(0, max) } else { rng.range(max / 10, max) };
    match rng.below(6) {
        0 | 1 => {
            let (a, b) = gen::rand_pair(rng, max);
            (a, b, "random")
        }
        2 => {
            // all items distinct except <= 3 shared anchors: no snakes, D ~ N+M
            let n = sz(rng);
            let m = sz(rng);
            let mut a: Vec<u32> = (0..n as u32).map(|i| 1_000_000 + i).collect();
            let mut b: Vec<u32> = (0..m as u32).map(|i| 2_000_000 + i).collect();
            let k = rng.below(4);
            for j in 0..k {
                if !a.is_empty() && !b.is_empty() {
                    let pa = (a.len() * (j + 1)) / (k + 1);
                    let pb = (b.len() * (j + 1)) / (k + 1);
                    let (ia, ib) = (pa.min(a.len() - 1), pb.min(b.len() - 1));
                    a[ia] = 5_000_000 + j as u32;
                    b[ib] = 5_000_000 + j as u32;
                }
            }
            (a, b, "distinct_with_anchors")
        }
        3 => {
            // one huge dissimilar gap in front of / behind a unique common item
            let n = sz(rng);
            let m = sz(rng);
            let mut a: Vec<u32> = (0..n as u32).map(|i| 1_000_000 + i).collect();
            let mut b: Vec<u32> = (0..m as u32).map(|i| 2_000_000 + i).collect();
            match rng.below(3) {
                0 => {
                    a.push(42);
                    b.push(42);
                }
                1 => {
                    a.insert(0, 42);
                    b.insert(0, 42);
                    a.push(43);
                    b.push(43);
                }
                _ => {
                    let pa = rng.below(a.len() + 1);
                    let pb = rng.below(b.len() + 1);
                    a.insert(pa, 42);
                    b.insert(pb, 42);
                }
            }
            (a, b, "gap_before_unique_anchor")
        }
        4 => {
            // periodic with phase shift and a few edits
            let n = sz(rng);
            let period = 2 + rng.below(5) as u32;
            let a: Vec<u32> = (0..n as u32).map(|i| i % period).collect();
            let shift = rng.below(period as usize) as u32;
            let mut b: Vec<u32> = (0..n as u32).map(|i| (i + shift) % period).collect();
            let k = rng.below(4);
            b = gen::point_edits(rng, &b, k, period + 1, max.max(4));
            (a, b, "periodic")
        }
        _ => {
            // repeated small alphabet vs distinct
            let n = sz(rng);
            let m = sz(rng);
            let a: Vec<u32> = (0..n).map(|_| rng.below(3) as u32).collect();
            let b: Vec<u32> = (0..m as u32).map(|i| if rng.chance(1, 4) { rng.below(3) as u32 } else { 3_000_000 + i }).collect();
            (a, b, "small_alphabet_vs_distinct")
        }
    }
}

fn prompt_case(cfg: &Config, alg: Algorithm, a: &[u32], b: &[u32], fam: &'static str, rng: &mut Rng, out: &mut Local) {
    let far = far_deadline();
    let ca: Vec<CountingElem> = a.iter().map(|x| CountingElem(*x)).collect();
    let cb: Vec<CountingElem> = b.iter().map(|x| CountingElem(*x)).collect();
    let (n, m) = (a.len() as u64, b.len() as u64);
    let bound = BOUND_MUL * (n + m) + BOUND_ADD;
    let eq = |o: usize, nn: usize| a[o] == b[nn];
    let ctx = |mode: &str| format!("alg={} family={} N={} M={} {} | old={} new={}", alg_name(alg), fam, n, m, mode, fmt_seq(a), fmt_seq(b));

    // one run under a clock; returns (comparisons total, first expired (probe idx, time), probes, probe times)
    let mut run = |clock: vh::Clock, record: bool, out: &mut Local| -> Option<(u64, Option<(u64, u64)>, u64, Vec<u64>)> {
        vh::record_probe_times(record);
        vh::set_clock(clock);
        cmp_reset();
        let mut mon = TraceMon::new(&eq, 0..a.len(), 0..b.len());
        let r = guard(|| similar::algorithms::diff_deadline(alg, &mut mon, &ca[..], 0..ca.len(), &cb[..], 0..cb.len(), Some(far)));
        let total = cmp_count();
        let first = vh::first_expired();
        let probes = vh::probes().0;
        let times = vh::probe_times();
        vh::set_clock(vh::Clock::Off);
        vh::record_probe_times(false);
        out.eval();
        match r {
            Err(p) => {
                out.violation("panic", format!("diff_deadline panicked: {} | {}", p, ctx(&format!("{:?}", clock))));
                None
            }
            Ok(_) => {
                mon.finish_check();
                for (code, msg) in &mon.failures {
                    out.violation(code, format!("{} | {}", msg, ctx(&format!("{:?}", clock))));
                }
                Some((total, first, probes, times))
            }
        }
    };

    // learn P, W and the time of every check
    let (w, _, p, times) = match run(vh::Clock::Time(u64::MAX), true, out) {
        Some(x) => x,
        None => return,
    };
    out.max("comparisons_without_expiry_per_item", w as f64 / (n + m + 1) as f64);
    if p > 0 && w > bound {
        // only such inputs can possibly violate the bound
        out.nontrivial(&(alg_name(alg), a, b));
    }

    // fuel mode
    let ks: Vec<u64> = if p <= 24 {
        (0..=p).collect()
    } else {
        let mut ks = vec![0, 1, 2, 3, p / 2, p - 1, p];
        for _ in 0..cfg.tier.pick(10, 24) {
            ks.push(rng.below(p as usize + 1) as u64);
        }
        ks.sort();
        ks.dedup();
        ks
    };
    for k in ks {
        if let Some((total, first, _, _)) = run(vh::Clock::Fuel(k), false, out) {
            out.count("fuel_mode_runs");
            if let Some((_, t_exp)) = first {
                let after = total - t_exp;
                out.max(&format!("fuel_mode_comparisons_after_expiry_per_item.{}", alg_name(alg)), after as f64 / (n + m).max(1) as f64);
                if after > bound {
                    out.violation(
                        "prompt.fuel_mode",
                        format!("{} comparisons after the deadline check #{} reported expiry; bound {}*(N+M)+{} = {} | {}", after, k, BOUND_MUL, BOUND_ADD, bound, ctx("fuel mode")),
                    );
                }
            }
        }
    }
    // time mode
    let mut ts: Vec<u64> = vec![0, 1, w / 2, w.saturating_sub(1), w];
    let mut tsample = times.clone();
    tsample.dedup();
    if tsample.len() > 12 {
        let step = tsample.len() / 12;
        tsample = tsample.into_iter().step_by(step.max(1)).collect();
    }
    for t in tsample {
        ts.push(t);
        ts.push(t + 1);
    }
    for _ in 0..cfg.tier.pick(6, 16) {
        ts.push(rng.below(w as usize + 1) as u64);
    }
    ts.sort();
    ts.dedup();
    for t in ts {
        if let Some((total, _, probes, _)) = run(vh::Clock::Time(t), false, out) {
            out.count("time_mode_runs");
            let after = total.saturating_sub(t);
            out.max(&format!("time_mode_comparisons_after_deadline_per_item.{}", alg_name(alg)), after as f64 / (n + m).max(1) as f64);
            if after > bound {
                out.violation(
                    "prompt.time_mode",
                    format!(
                        "{} comparisons after the deadline passed at virtual time {} ({} deadline checks were made); bound {}*(N+M)+{} = {} | {}",
                        after, t, probes, BOUND_MUL, BOUND_ADD, bound, ctx("time mode")
                    ),
                );
            }
        }
    }
}

// ---------------------------------------------------------------------------
// plumbing

fn reference_ops(alg: Algorithm, a: &[&str], b: &[&str], clock: vh::Clock, far: Instant) -> Result<(Vec<DiffOp>, u64), String> {
    vh::set_clock(clock);
    let r = guard(|| {
        let mut d = Compact::new(Replace::new(Capture::new()), a, b);
        similar::algorithms::diff_deadline(alg, &mut d, a, 0..a.len(), b, 0..b.len(), Some(far)).unwrap();
        d.into_inner().into_inner().into_ops()
    });
    let probes = vh::probes().0;
    vh::set_clock(vh::Clock::Off);
    r.map(|ops| (ops, probes))
}

fn plumbing_case(cfg: &Config, idx: u64, rng: &mut Rng, out: &mut Local) {
    let alg = ALGS[rng.below(3)];
    // token counts on both sides of the > 100 switch
    let size_class = rng.below(4);
    let max = if cfg.tiny { 6 } else { [12, 100, 140, 260][size_class] };
    let max = if alg == Algorithm::Lcs { max.min(140) } else { max };
    let (a, b) = loop {
        let (a, b) = gen::rand_pair(rng, max);
        if size_class < 2 || a.len() > 100 || b.len() > 100 || cfg.tiny {
            break (a, b);
        }
        // stretch to cross the threshold
        let mut a2 = a.clone();
        while a2.len() <= 100 {
            a2.extend_from_slice(&[7, 8, 9, 7]);
            a2.extend_from_slice(&a);
        }
        break (a2, b);
    };
    let sa: Vec<String> = a.iter().map(|x| format!("w{}\n", x)).collect();
    let sb: Vec<String> = b.iter().map(|x| format!("w{}\n", x)).collect();
    let ta: Vec<&str> = sa.iter().map(|s| s.as_str()).collect();
    let tb: Vec<&str> = sb.iter().map(|s| s.as_str()).collect();
    let text_a: String = sa.concat();
    let text_b: String = sb.concat();
    let far = far_deadline();
    if a.len() > 100 || b.len() > 100 {
        out.count("cases_above_100_tokens");
    } else {
        out.count("cases_up_to_100_tokens");
    }
    out.sample(|| format!("alg={} old tokens={} new tokens={}", alg_name(alg), fmt_seq(&a), fmt_seq(&b)));

    // learn P on the reference
    let (_, p) = match reference_ops(alg, &ta, &tb, vh::Clock::Fuel(u64::MAX), far) {
        Ok(x) => x,
        Err(e) => {
            out.violation("panic", format!("reference pipeline panicked: {}", e));
            return;
        }
    };
    let mut ks = vec![0u64, u64::MAX];
    if p > 0 {
        ks.push(rng.below(p as usize + 1) as u64);
        ks.push(rng.below(p as usize + 1) as u64);
        ks.push(1.min(p));
    }
    ks.sort();
    ks.dedup();
    for k in ks {
        let clock = vh::Clock::Fuel(k);
        let (ref_ops, ref_probes) = match reference_ops(alg, &ta, &tb, clock, far) {
            Ok(x) => x,
            Err(e) => {
                out.violation("panic", format!("reference pipeline panicked: {}", e));
                return;
            }
        };
        out.eval();
        if ref_probes > 0 && k != u64::MAX {
            out.nontrivial(&(alg_name(alg), &a, &b, k));
        }
        let kd = if k == u64::MAX { "never".to_string() } else { format!("at check #{}", k) };
        let ctx = |what: &str| format!("{} | alg={} deadline expires {} | old tokens={} new tokens={}", what, alg_name(alg), kd, fmt_seq(&a), fmt_seq(&b));
        let mut compare = |what: &str, got: Result<(Vec<DiffOp>, u64, Option<Instant>), String>, expect_instant: Option<(Instant, Instant)>, out: &mut Local| {
            out.eval();
            match got {
                Err(e) => out.violation("panic", format!("{} panicked: {}", ctx(what), e)),
                Ok((ops, probes, seen)) => {
                    if ops != ref_ops {
                        out.violation(
                            "plumbing.ops_differ",
                            format!("{}: got {} but diff_deadline behind Compact+Replace under the same clock gives {}", ctx(what), fmt_ops(&ops), fmt_ops(&ref_ops)),
                        );
                    }
                    if ref_probes > 0 && probes == 0 {
                        out.violation(
                            "plumbing.deadline_not_consulted",
                            format!("{}: no deadline-carrying check happened although the reference run made {}", ctx(what), ref_probes),
                        );
                    }
                    if let (Some((lo, hi)), true) = (expect_instant, probes > 0) {
                        match seen {
                            None => out.violation("plumbing.deadline_instant", format!("{}: no deadline instant reached the check", ctx(what))),
                            Some(s) => {
                                if s < lo || s > hi {
                                    out.violation(
                                        "plumbing.deadline_instant",
                                        format!(
                                            "{}: the instant that reached the deadline check is off by {:?} from the configured one",
                                            ctx(what),
                                            if s < lo { lo - s } else { s - hi }
                                        ),
                                    );
                                } else {
                                    out.count("deadline_instants_verified");
                                }
                            }
                        }
                    }
                }
            }
        };
        let under = |f: &mut dyn FnMut() -> Vec<DiffOp>| -> Result<(Vec<DiffOp>, u64, Option<Instant>), String> {
            vh::set_clock(clock);
            let r = guard(|| f());
            let probes = vh::probes().0;
            let seen = vh::last_deadline();
            vh::set_clock(vh::Clock::Off);
            r.map(|ops| (ops, probes, seen))
        };
        // a distinctive absolute deadline
        let t_abs = far + Duration::from_nanos(1 + (idx % 1000) * 7919);
        let g = under(&mut || capture_diff_deadline(alg, &ta[..], 0..ta.len(), &tb[..], 0..tb.len(), Some(t_abs)));
        compare("capture_diff_deadline", g, Some((t_abs, t_abs)), out);
        let g = under(&mut || capture_diff_slices_deadline(alg, &ta, &tb, Some(t_abs)));
        compare("capture_diff_slices_deadline", g, Some((t_abs, t_abs)), out);
        let g = under(&mut || TextDiff::configure().algorithm(alg).deadline(t_abs).diff_slices(&ta, &tb).ops().to_vec());
        compare("TextDiff::configure().deadline(t).diff_slices", g, Some((t_abs, t_abs)), out);
        let g = under(&mut || TextDiff::configure().algorithm(alg).deadline(t_abs).diff_lines(&text_a, &text_b).ops().to_vec());
        compare("TextDiff::configure().deadline(t).diff_lines", g, Some((t_abs, t_abs)), out);
        // timeout: relative to the start of the diff, not to the configuration
        let d = Duration::from_secs(3600 * 24 * 30) + Duration::from_millis(idx % 977);
        let mut config = TextDiff::configure();
        config.algorithm(alg).timeout(d);
        if idx % 16 == 0 {
            // make "configured earlier, used later" observable
            std::thread::sleep(Duration::from_millis(3));
            out.count("timeout_configs_used_later");
        }
        let t0 = Instant::now();
        let g = under(&mut || config.diff_lines(&text_a, &text_b).ops().to_vec());
        let t1 = Instant::now();
        compare("TextDiff::configure().timeout(d).diff_lines", g, Some((t0 + d, t1 + d)), out);
        let t0 = Instant::now();
        let g = under(&mut || config.diff_slices(&ta, &tb).ops().to_vec());
        let t1 = Instant::now();
        compare("TextDiff::configure().timeout(d).diff_slices (config reused)", g, Some((t0 + d, t1 + d)), out);
    }
    // builder call order: other setters after deadline/timeout must not drop it; with both a
    // deadline and a timeout configured (either order) one of the two must reach the algorithm
    {
        let clock = vh::Clock::Fuel(u64::MAX);
        let t_abs = far + Duration::from_nanos(12_345);
        let d = Duration::from_secs(3600 * 24 * 40);
        let mut run = |what: &str, config: &similar::TextDiffConfig, allowed_abs: bool, allowed_rel: bool, out: &mut Local| {
            vh::set_clock(clock);
            let t0 = Instant::now();
            let r = guard(|| config.diff_slices(&ta, &tb).ops().to_vec());
            let t1 = Instant::now();
            let probes = vh::probes().0;
            let seen = vh::last_deadline();
            vh::set_clock(vh::Clock::Off);
            out.eval();
            if r.is_err() {
                return;
            }
            if p > 0 {
                let ok = match seen {
                    None => false,
                    Some(s) => (allowed_abs && s == t_abs) || (allowed_rel && s >= t0 + d && s <= t1 + d),
                };
                if probes == 0 || !ok {
                    out.violation(
                        "plumbing.builder_order",
                        format!("{}: alg={} the configured deadline did not reach the algorithm ({} deadline-carrying checks, instant seen matches a configured one: {})", what, alg_name(alg), probes, ok),
                    );
                } else {
                    out.count("builder_order_sequences_verified");
                }
            }
        };
        let mut c = TextDiff::configure();
        c.deadline(t_abs).algorithm(alg).newline_terminated(true);
        run("deadline(t).algorithm(a).newline_terminated(true)", &c, true, false, out);
        let mut c = TextDiff::configure();
        c.timeout(d).newline_terminated(false).algorithm(alg);
        run("timeout(d).newline_terminated(false).algorithm(a)", &c, false, true, out);
        // every setter overwrites: the one configured last is the one that must reach the algorithm
        let mut c = TextDiff::configure();
        c.algorithm(alg).deadline(t_abs).timeout(d);
        run("deadline(t).timeout(d)", &c, false, true, out);
        let mut c = TextDiff::configure();
        c.algorithm(alg).timeout(d).deadline(t_abs);
        run("timeout(d).deadline(t)", &c, true, false, out);
        let mut c = TextDiff::configure();
        c.algorithm(alg).deadline(t_abs + Duration::from_secs(5)).deadline(t_abs);
        run("deadline(t').deadline(t)", &c, true, false, out);
        // timeouts too large to be added to `now` mean "no deadline": no panic, same result
        for d_huge in [Duration::MAX, Duration::from_secs(u64::MAX), Duration::from_secs(u64::MAX / 2)] {
            vh::set_clock(vh::Clock::Off);
            let none = guard(|| TextDiff::configure().algorithm(alg).diff_slices(&ta, &tb).ops().to_vec());
            let huge = guard(|| TextDiff::configure().algorithm(alg).timeout(d_huge).diff_slices(&ta, &tb).ops().to_vec());
            out.evals_add(2);
            match (none, huge) {
                (Ok(x), Ok(y)) => {
                    if x != y {
                        out.violation("deadline.never_expiring_differs", format!("timeout({:?}) gives {} but no deadline gives {} | alg={}", d_huge, fmt_ops(&y), fmt_ops(&x), alg_name(alg)));
                    } else {
                        out.count("huge_timeouts_verified");
                    }
                }
                (_, Err(p)) => out.violation("panic", format!("TextDiff::configure().timeout({:?}) panicked: {} | alg={}", d_huge, p, alg_name(alg))),
                _ => {}
            }
        }
        // a cloned config keeps its deadline / timeout (and a clone of a clone)
        let mut c = TextDiff::configure();
        c.algorithm(alg).deadline(t_abs);
        let c2 = c.clone();
        run("configure().deadline(t).clone()", &c2, true, false, out);
        let mut c = TextDiff::configure();
        c.algorithm(alg).timeout(d);
        let c3 = c.clone().clone();
        run("configure().timeout(d).clone().clone()", &c3, false, true, out);
        // a ZERO timeout is a deadline too (it expires at once): it must reach the algorithm like any other
        {
            let mut c = TextDiff::configure();
            c.algorithm(alg).timeout(Duration::ZERO);
            vh::set_clock(clock);
            let t0 = Instant::now();
            let r = guard(|| c.diff_slices(&ta, &tb).ops().to_vec());
            let t1 = Instant::now();
            let probes = vh::probes().0;
            let seen = vh::last_deadline();
            vh::set_clock(vh::Clock::Off);
            out.eval();
            if r.is_ok() && p > 0 {
                let ok = matches!(seen, Some(s) if s >= t0 && s <= t1);
                if probes == 0 || !ok {
                    out.violation(
                        "plumbing.builder_order",
                        format!("timeout(Duration::ZERO): alg={} the configured (immediately expiring) deadline did not reach the algorithm ({} deadline-carrying checks, instant seen lies within the call: {})", alg_name(alg), probes, ok),
                    );
                } else {
                    out.count("zero_timeouts_verified");
                }
            }
        }
    }
    // REAL clock (no virtual clock installed): a diff whose deadline really lies in the past,
    // followed on the same thread by diffs whose deadline lies a year ahead.  The first must
    // still be a valid script, the later ones must equal the no-deadline result exactly.
    {
        vh::set_clock(vh::Clock::Off);
        let past = Instant::now().checked_sub(Duration::from_secs(2)).unwrap_or_else(Instant::now);
        let eq = |o: usize, n: usize| ta[o] == tb[n];
        let none = guard(|| similar::capture_diff_slices(alg, &ta, &tb));
        let expired = guard(|| capture_diff_slices_deadline(alg, &ta, &tb, Some(past)));
        let later = guard(|| capture_diff_slices_deadline(alg, &ta, &tb, Some(far)));
        let later_text = guard(|| TextDiff::configure().algorithm(alg).timeout(Duration::from_secs(3600)).diff_slices(&ta, &tb).ops().to_vec());
        let later_raw = {
            let mut mon = TraceMon::new(&eq, 0..ta.len(), 0..tb.len());
            let r = guard(|| similar::algorithms::diff_deadline(alg, &mut mon, &ta[..], 0..ta.len(), &tb[..], 0..tb.len(), Some(far)));
            mon.finish_check();
            r.map(|_| mon)
        };
        out.evals_add(5);
        out.count("real_clock_sequences");
        let c = || format!("alg={} old tokens={} new tokens={}", alg_name(alg), fmt_seq(&a), fmt_seq(&b));
        match (&none, &expired) {
            (Ok(_), Ok(e)) => {
                let v = check_ops(e, &eq, 0..ta.len(), 0..tb.len());
                for (code, msg) in &v.script {
                    out.violation(code, format!("real clock, deadline in the past: {} | {} | ops={}", msg, c(), fmt_ops(e)));
                }
            }
            (_, Err(p)) => out.violation("panic", format!("real clock, deadline in the past: {} | {}", p, c())),
            _ => {}
        }
        if let Ok(n0) = &none {
            for (what, r) in [("capture_diff_slices_deadline(far)", &later), ("TextDiff timeout(1h)", &later_text)] {
                match r {
                    Ok(l) => {
                        if l != n0 {
                            out.violation(
                                "deadline.never_expiring_differs",
                                format!("real clock: after a diff whose deadline had passed, {} with a deadline far in the future gives {} but no deadline gives {} | {}", what, fmt_ops(l), fmt_ops(n0), c()),
                            );
                        }
                    }
                    Err(p) => out.violation("panic", format!("{}: {} | {}", what, p, c())),
                }
            }
            if let Ok(mon) = &later_raw {
                let cost: usize = n0.iter().map(|op| if matches!(op, DiffOp::Equal { .. }) { 0 } else { op.old_range().len() + op.new_range().len() }).sum();
                if mon.failures.is_empty() && mon.cost() != cost && alg != Algorithm::Patience {
                    out.violation(
                        "deadline.never_expiring_differs",
                        format!("real clock: raw diff with a deadline far in the future after an expired one costs {} but the no-deadline diff costs {} | {}", mon.cost(), cost, c()),
                    );
                }
            }
        }
    }
    // no deadline configured => no deadline-carrying check at all
    vh::set_clock(vh::Clock::Fuel(0));
    let r = guard(|| TextDiff::configure().algorithm(alg).diff_slices(&ta, &tb).ops().to_vec());
    let probes = vh::probes();
    vh::set_clock(vh::Clock::Off);
    out.eval();
    if let Ok(_) = r {
        if probes.0 > 0 {
            out.violation("plumbing.phantom_deadline", format!("a diff configured without deadline made {} deadline-carrying checks | alg={}", probes.0, alg_name(alg)));
        }
    }
    let _ = Ev::Fin;
}
