//! G-TXT: text generators (valid UTF-8, optionally with invalid bytes spliced
//! in for the byte-string variants).

use crate::rng::Rng;

pub const WORD_ATOMS: [&str; 30] = [
    "\u{fffd}", "a", "b", "ab", "foo", "bar", "é", "日本", "x1", "e\u{301}", "👨\u{200d}👩\u{200d}👧", "🇩🇪", "\0", "\u{18}", ".", ",", "-", "\u{200b}", "\u{180e}",
    "\u{feff}", "\u{1c}", "\u{1f}", "ß",
    // grapheme clusters of more than four bytes that share their first four bytes with another cluster
    "🇩🇰", "👍🏻", "👍🏿", "e\u{301}\u{302}", "e\u{301}\u{303}", "👨\u{200d}👩\u{200d}👦", "क्ष",
];

/// every char with the Unicode White_Space property except CR / LF (those are line terminators)
pub const WS_ATOMS: [&str; 18] = [
    " ", "  ", "\t", "\u{0b}", "\u{0c}", "\u{85}", "\u{a0}", "\u{1680}", "\u{2000}", "\u{2003}", "\u{200a}", "\u{2028}", "\u{2029}", "\u{202f}", "\u{205f}",
    "\u{3000}", " \t ", "\u{a0}\u{2003}",
];

pub const TERMINATORS: [&str; 7] = ["\n", "\n", "\n", "\r\n", "\r\n", "\r", "\n\n"];

pub const INVALID: [&[u8]; 9] = [b"\xff", b"\xc3", b"\xe2\x82", b"\x80", b"\xf0\x9f", b"\xed\xa0\x80", b"\xc0\xaf", b"\xf4\x90\x80\x80", b"\xe9"];

/// line bodies whose CONTENT has a shape of its own: numbers, very long tokens, tokens that are prefixes of
/// one another, whitespace-only lines, lines that look like unified-diff syntax
const VALUEISH: [&str; 24] = [
    "10", "9", "010", "-1", "1e3", "0x1f", "1 2 3", "1 2 3 4", "a", "ab", "abc", "abcd", "   ", "\t", "", " x", "-x", "+x", "@@ -1 +1 @@", "--- a", "+++ b", "\\ No newline at end of file",
    "x ", "-- ",
];

pub fn line_body(rng: &mut Rng) -> String {
    if rng.chance(1, 6) {
        if rng.chance(1, 5) {
            // one very long token (or two words sharing a very long prefix)
            let n = *rng.pick(&[70usize, 130, 300]); // (longer ones only in dedicated families: character-level LCS tables grow with the square)
            let mut s = "x".repeat(n);
            match rng.below(3) {
                0 => s.push('y'),
                1 => s.push_str(" x"),
                _ => {}
            }
            return s;
        }
        return (*rng.pick(&VALUEISH)).to_string();
    }
    let mut s = String::new();
    let n = rng.below(6);
    let mut ws = rng.chance(1, 5);
    for _ in 0..n {
        if ws {
            s.push_str(*rng.pick(&WS_ATOMS));
        } else {
            s.push_str(*rng.pick(&WORD_ATOMS));
        }
        // mostly alternate, sometimes repeat the class
        if rng.chance(4, 5) {
            ws = !ws;
        }
    }
    s
}

fn render(lines: &[(String, &'static str)], last_unterminated: bool) -> Vec<u8> {
    let mut out = Vec::new();
    for (i, (body, term)) in lines.iter().enumerate() {
        out.extend_from_slice(body.as_bytes());
        if !(last_unterminated && i + 1 == lines.len()) {
            out.extend_from_slice(term.as_bytes());
        }
    }
    out
}

/// A character whose UTF-8 encoding has the same length as that of `c` and differs from it in exactly ONE
/// byte (the lead byte or one of the continuation bytes): the two encodings share a byte prefix and / or
/// a byte suffix although the characters differ.  Falls back to another character of the same length.
pub fn sibling_char(rng: &mut Rng, c: char) -> char {
    let mut buf = [0u8; 4];
    let len = c.encode_utf8(&mut buf).len();
    for _ in 0..16 {
        let mut b = buf;
        let j = rng.below(len);
        let delta = 1 + rng.below(3) as u8;
        b[j] = if rng.chance(1, 2) { b[j].wrapping_add(delta) } else { b[j].wrapping_sub(delta) };
        if let Ok(t) = std::str::from_utf8(&b[..len]) {
            let d = t.chars().next().unwrap();
            if d != c && d.len_utf8() == len && d != '\n' && d != '\r' && !d.is_ascii_uppercase() {
                return d;
            }
        }
    }
    match len {
        1 => if c == 'x' { 'y' } else { 'x' },
        2 => if c == 'é' { 'è' } else { 'é' },
        3 => if c == '日' { '本' } else { '日' },
        _ => if c == '😀' { '😃' } else { '😀' },
    }
}

/// a scalar value drawn from the whole range of Unicode blocks (not from a fixed palette)
pub fn any_char(rng: &mut Rng) -> char {
    loop {
        let v = match rng.below(6) {
            0 => 0x20 + rng.below(0x5f) as u32,
            1 => 0xa0 + rng.below(0x760) as u32,
            2 => 0x800 + rng.below(0xf800) as u32,
            3 => 0x1_0000 + rng.below(0x1_0000) as u32,
            4 => 0x1_f300 + rng.below(0x400) as u32,
            _ => rng.below(0x11_0000) as u32,
        };
        if let Some(c) = char::from_u32(v) {
            // (no ASCII upper case: the generated texts never contain two tokens that differ in letter case only,
            // which the checks over the case-insensitive user-defined text type rely on)
            if c != '\n' && c != '\r' && !c.is_ascii_uppercase() {
                return c;
            }
        }
    }
}

fn edit_words(rng: &mut Rng, body: &str) -> String {
    // word-level edit inside a line: replace / drop / insert one atom, or substitute ONE character
    let chars: Vec<char> = body.chars().collect();
    if chars.is_empty() {
        return (*rng.pick(&WORD_ATOMS)).to_string();
    }
    let at = rng.below(chars.len() + 1);
    let mut s: String = chars[..at].iter().collect();
    match rng.below(5) {
        3 | 4 if at < chars.len() && chars[at] != '\n' && chars[at] != '\r' => {
            // one character replaced by a sibling (encodings share a byte prefix / suffix) or by any scalar value
            s.push(if rng.chance(2, 3) { sibling_char(rng, chars[at]) } else { any_char(rng) });
            s.extend(chars[at + 1..].iter());
        }
        0 => {
            s.push_str(*rng.pick(&WORD_ATOMS));
            s.extend(chars[at..].iter());
        }
        1 => {
            s.push_str(*rng.pick(&WS_ATOMS));
            s.push_str(*rng.pick(&WORD_ATOMS));
            s.extend(chars[at..].iter());
        }
        _ => {
            let skip = (1 + rng.below(3)).min(chars.len() - at.min(chars.len()));
            s.extend(chars[(at + skip).min(chars.len())..].iter());
        }
    }
    s
}

/// A pair of texts made of lines drawn from a small pool (so lines repeat),
/// with random terminators, the last line possibly unterminated.  The second
/// text is the same / independent / a line-level or word-level edit of the
/// first.  With `invalid`, invalid UTF-8 fragments are spliced into both.
pub fn text_pair(rng: &mut Rng, max_lines: usize, invalid: bool) -> (Vec<u8>, Vec<u8>) {
    let pool_size = 1 + rng.below(5);
    let pool: Vec<String> = (0..pool_size).map(|_| line_body(rng)).collect();
    let mk = |rng: &mut Rng, n: usize| -> Vec<(String, &'static str)> { (0..n).map(|_| (rng.pick(&pool).clone(), *rng.pick(&TERMINATORS))).collect() };
    let na = rng.below(max_lines + 1);
    let la = mk(rng, na);
    let lb: Vec<(String, &'static str)> = match rng.below(10) {
        0 => la.clone(),
        1 | 2 => {
            let nb = rng.below(max_lines + 1);
            mk(rng, nb)
        }
        _ => {
            let mut lb = la.clone();
            let edits = 1 + rng.below(4);
            for _ in 0..edits {
                match rng.below(7) {
                    0 if !lb.is_empty() => {
                        let i = rng.below(lb.len());
                        lb.remove(i);
                    }
                    1 => {
                        let i = rng.below(lb.len() + 1);
                        lb.insert(i, (rng.pick(&pool).clone(), *rng.pick(&TERMINATORS)));
                    }
                    2 if !lb.is_empty() => {
                        let i = rng.below(lb.len());
                        lb[i].0 = line_body(rng);
                    }
                    3 if !lb.is_empty() => {
                        let i = rng.below(lb.len());
                        lb[i].1 = *rng.pick(&TERMINATORS);
                    }
                    4 if !lb.is_empty() => {
                        // duplicate a line next to itself (repeat next to an edit)
                        let i = rng.below(lb.len());
                        let l = lb[i].clone();
                        lb.insert(i, l);
                    }
                    _ if !lb.is_empty() => {
                        let i = rng.below(lb.len());
                        lb[i].0 = edit_words(rng, &lb[i].0.clone());
                    }
                    _ => {}
                }
            }
            lb
        }
    };
    let a_unterminated = rng.chance(1, 3);
    let b_unterminated = if rng.chance(2, 3) { a_unterminated } else { rng.chance(1, 2) };
    let mut a = render(&la, a_unterminated);
    let mut b = render(&lb, b_unterminated);
    if invalid {
        for t in [&mut a, &mut b] {
            let k = rng.below(4);
            for _ in 0..k {
                let frag = rng.pick(&INVALID);
                let at = rng.below(t.len() + 1);
                for (i, x) in frag.iter().enumerate() {
                    t.insert(at + i, *x);
                }
            }
        }
        if rng.chance(1, 4) {
            // the same invalid fragment at the same place on both sides (stays "equal")
            let frag = rng.pick(&INVALID);
            for t in [&mut a, &mut b] {
                let at = t.len() / 2;
                for (i, x) in frag.iter().enumerate() {
                    t.insert(at + i, *x);
                }
            }
        }
    }
    (a, b)
}

/// Pairs of line texts whose differing lines mostly differ by a word-level
/// edit (so that the inline second-level diff is triggered).
pub fn inline_pair(rng: &mut Rng, max_lines: usize) -> (String, String) {
    let n = 1 + rng.below(max_lines);
    let mut la: Vec<(String, &'static str)> = Vec::new();
    for _ in 0..n {
        let words = 2 + rng.below(6);
        let mut s = String::new();
        for w in 0..words {
            if w > 0 {
                s.push_str(if rng.chance(5, 6) { " " } else { *rng.pick(&WS_ATOMS) });
            }
            s.push_str(*rng.pick(&["alpha", "beta", "gamma", "delta", "é", "日本", "x", "foo_bar", "e\u{301}", "🇩🇪", "1", "22", "kelime:", "baş", "größe", "naïve", "日本語", "😀😃", "čaj"]));
        }
        la.push((s, *rng.pick(&TERMINATORS)));
    }
    let mut lb = la.clone();
    let edits = 1 + rng.below(3);
    for _ in 0..edits {
        let i = rng.below(lb.len());
        match rng.below(8) {
            0 => {
                lb.remove(i);
                if lb.is_empty() {
                    lb.push(("z".into(), "\n"));
                }
            }
            1 => lb.insert(i, (line_body(rng), *rng.pick(&TERMINATORS))),
            2 => lb[i].1 = *rng.pick(&TERMINATORS),
            3 => {
                // split one line into two (terminator inside the changed region)
                let body = lb[i].0.clone();
                let cut = body.char_indices().map(|x| x.0).nth(rng.below(body.chars().count().max(1))).unwrap_or(0);
                let term = lb[i].1;
                lb[i] = (body[..cut].to_string(), *rng.pick(&TERMINATORS));
                lb.insert(i + 1, (body[cut..].to_string(), term));
            }
            _ => lb[i].0 = edit_words(rng, &lb[i].0.clone()),
        }
    }
    let ua = rng.chance(1, 3);
    let ub = if rng.chance(2, 3) { ua } else { rng.chance(1, 2) };
    (String::from_utf8(render(&la, ua)).unwrap(), String::from_utf8(render(&lb, ub)).unwrap())
}

/// Exhaustive strings over a small atom alphabet (index -> string), used by
/// the tokenizer property.
pub const TOK_ATOMS: [&[u8]; 12] = [b"a", b" ", b"\n", b"\r", "é".as_bytes(), "\u{a0}".as_bytes(), "\u{2028}".as_bytes(), b"\x0b", b"\xff", b"\xe2\x82", "\u{85}".as_bytes(), b"\t"];

pub fn exh_string(mut idx: u64, alphabet: usize, max_len: usize) -> Vec<u8> {
    // enumerate by length
    let mut len = 0;
    let mut count = 1u64;
    loop {
        if idx < count {
            break;
        }
        idx -= count;
        len += 1;
        count *= alphabet as u64;
        if len > max_len {
            return Vec::new();
        }
    }
    let mut out = Vec::new();
    for _ in 0..len {
        out.extend_from_slice(TOK_ATOMS[(idx % alphabet as u64) as usize]);
        idx /= alphabet as u64;
    }
    out
}

pub fn exh_count(alphabet: usize, max_len: usize) -> u64 {
    let mut total = 0u64;
    let mut c = 1u64;
    for _ in 0..=max_len {
        total += c;
        c *= alphabet as u64;
    }
    total
}

/// Long line texts: `n` lines drawn from a vocabulary (so lines repeat when the vocabulary is
/// small), one terminator style per text (sometimes mixed), k scattered line edits.
pub fn long_text_pair(rng: &mut Rng, n: usize, max_edits: usize) -> (Vec<u8>, Vec<u8>) {
    // vocabulary 0 = every line distinct
    let vocab = if n > 60_000 && rng.chance(2, 3) { 0 } else { *rng.pick(&[3usize, 40, 100_000, 0]) };
    let term: &str = *rng.pick(&["\n", "\n", "\r\n", "\r"]);
    let mixed = rng.chance(1, 6);
    let counter = std::cell::Cell::new(0usize);
    let mk_line = |rng: &mut Rng| -> String {
        let w = if vocab == 0 {
            counter.set(counter.get() + 1);
            counter.get()
        } else {
            rng.below(vocab)
        };
        let t = if mixed { *rng.pick(&["\n", "\r\n", "\r"]) } else { term };
        format!("line {}{}", w, t)
    };
    let la: Vec<String> = (0..n).map(|_| mk_line(rng)).collect();
    let mut lb = la.clone();
    let k = rng.below(max_edits + 1);
    for _ in 0..k {
        match rng.below(5) {
            0 if !lb.is_empty() => {
                let i = rng.below(lb.len());
                let l = (1 + rng.below(4)).min(lb.len() - i);
                lb.drain(i..i + l);
            }
            1 => {
                let i = rng.below(lb.len() + 1);
                for _ in 0..1 + rng.below(4) {
                    let l = mk_line(rng);
                    lb.insert(i, l);
                }
            }
            2 if !lb.is_empty() => {
                let i = rng.below(lb.len());
                let l = lb[i].clone();
                lb.insert(i, l);
            }
            3 if lb.len() >= 2 => {
                let i = rng.below(lb.len() - 1);
                lb.swap(i, i + 1);
            }
            _ if !lb.is_empty() => {
                let i = rng.below(lb.len());
                lb[i] = format!("changed {}{}", rng.below(1000), term);
            }
            _ => {}
        }
    }
    let mut a: Vec<u8> = la.concat().into_bytes();
    let mut b: Vec<u8> = lb.concat().into_bytes();
    // missing final newline on either side
    for t in [&mut a, &mut b] {
        if rng.chance(1, 3) {
            while matches!(t.last(), Some(b'\n') | Some(b'\r')) {
                t.pop();
            }
        }
    }
    if rng.chance(1, 2) {
        (a, b)
    } else {
        (b, a)
    }
}

/// Texts of `n` DISTINCT lines where the new text replaces a block of `drop` lines by `fresh`
/// fresh lines: with n just below a power-of-two boundary the total number of distinct tokens
/// crosses it although each side stays below.
pub fn distinct_lines_pair(rng: &mut Rng, n: usize, drop: usize, fresh: usize) -> (Vec<u8>, Vec<u8>) {
    let term = *rng.pick(&["\n", "\r\n"]);
    let la: Vec<String> = (0..n).map(|i| format!("old line {}{}", i, term)).collect();
    let at = if n > drop { rng.below(n - drop + 1) } else { 0 };
    let mut lb: Vec<String> = la[..at].to_vec();
    lb.extend((0..fresh).map(|i| format!("new line {}{}", i, term)));
    lb.extend_from_slice(&la[(at + drop).min(n)..]);
    (la.concat().into_bytes(), lb.concat().into_bytes())
}

pub const BOUNDARIES: [usize; 8] = [256, 1000, 1024, 2048, 4096, 8192, 32768, 65536];

/// A long, boring text (tens of kilobytes of one terminator style and ASCII words) into which
/// a few RARE features are injected at late positions: a lone CR, a CRLF, every Unicode blank,
/// a multi-byte char, an invalid byte (when `invalid`).
pub fn long_boring_text(rng: &mut Rng, bytes: usize, invalid: bool) -> Vec<u8> {
    let term: &[u8] = *rng.pick(&[&b"\n"[..], b"\n", b"\r\n", b"\r"]);
    let mut t: Vec<u8> = Vec::with_capacity(bytes + 64);
    while t.len() < bytes {
        let words = 1 + rng.below(8);
        for w in 0..words {
            if w > 0 {
                t.push(b' ');
            }
            t.extend_from_slice(rng.pick(&["alpha", "beta", "x", "lorem", "ipsum", "42"]).as_bytes());
        }
        t.extend_from_slice(term);
    }
    let rare: Vec<&[u8]> = {
        let mut v: Vec<&[u8]> = vec![b"\r", b"\n", b"\r\n", b"\x0b", b"\x0c", "\u{85}".as_bytes(), "\u{a0}".as_bytes(), "\u{1680}".as_bytes(), "\u{2003}".as_bytes(), "\u{2028}".as_bytes(), "\u{3000}".as_bytes(), "\u{e9}".as_bytes(), "\u{fffd}".as_bytes(), "\u{1f1e9}\u{1f1ea}".as_bytes()];
        if invalid {
            v.extend_from_slice(&INVALID);
        }
        v
    };
    let k = 1 + rng.below(4);
    for _ in 0..k {
        // late positions: in the last two thirds
        let at = t.len() / 3 + rng.below(t.len() - t.len() / 3 + 1);
        // do not split a CRLF of the base text: insert at a word character
        let mut at = at.min(t.len());
        while at > 0 && at < t.len() && !t[at].is_ascii_alphanumeric() {
            at += 1;
        }
        let frag = *rng.pick(&rare);
        let at = at.min(t.len());
        t.splice(at..at, frag.iter().copied());
    }
    if rng.chance(1, 3) {
        while matches!(t.last(), Some(b'\n') | Some(b'\r')) {
            t.pop();
        }
    }
    t
}

/// `head` + `tail` common distinct lines around a block of `l1` old lines that is replaced by
/// `l2` unrelated new lines (strongly asymmetric sizes included).
pub fn asymmetric_lines_pair(rng: &mut Rng, head: usize, tail: usize, l1: usize, l2: usize) -> (Vec<u8>, Vec<u8>) {
    let term = *rng.pick(&["\n", "\r\n"]);
    let mut a = String::new();
    let mut b = String::new();
    for i in 0..head {
        let l = format!("head {}{}", i, term);
        a.push_str(&l);
        b.push_str(&l);
    }
    for i in 0..l1 {
        a.push_str(&format!("old block {}{}", i, term));
    }
    for i in 0..l2 {
        b.push_str(&format!("new block {}{}", i, term));
    }
    for i in 0..tail {
        let l = format!("tail {}{}", i, term);
        a.push_str(&l);
        b.push_str(&l);
    }
    (a.into_bytes(), b.into_bytes())
}

pub const BLOCK_SIZES: [usize; 5] = [10, 100, 1000, 2600, 4200];

/// The same words wrapped at different widths (a "reflowed paragraph"): word-level ops of the
/// inline diff span several lines.  A few words are changed as well.
pub fn reflow_pair(rng: &mut Rng, max_words: usize) -> (String, String) {
    let n = 4 + rng.below(max_words);
    let words: Vec<String> = (0..n).map(|i| if rng.chance(1, 3) { format!("w{}", rng.below(6)) } else { format!("word{}", i) }).collect();
    let mut words2 = words.clone();
    for _ in 0..rng.below(3) {
        let i = rng.below(words2.len());
        match rng.below(3) {
            0 => words2[i] = format!("changed{}", rng.below(10)),
            1 => {
                words2.remove(i);
                if words2.is_empty() {
                    words2.push("x".into());
                }
            }
            _ => words2.insert(i, "extra".into()),
        }
    }
    let wrap = |rng: &mut Rng, ws: &[String], width: usize, term: &str| -> String {
        let mut s = String::new();
        let mut on_line = 0;
        for (i, w) in ws.iter().enumerate() {
            if on_line > 0 && (on_line >= width || rng.chance(1, 12)) {
                s.push_str(term);
                on_line = 0;
            } else if i > 0 {
                s.push(' ');
            }
            s.push_str(w);
            on_line += 1;
        }
        s
    };
    let t1 = *rng.pick(&["\n", "\n", "\r\n", "\r"]);
    let t2 = if rng.chance(3, 4) { t1 } else { *rng.pick(&["\n", "\r\n", "\r"]) };
    let (w1, w2) = (1 + rng.below(5), 1 + rng.below(5));
    let mut a = wrap(rng, &words, w1, t1);
    let mut b = wrap(rng, &words2, w2, t2);
    if rng.chance(2, 3) {
        a.push_str(t1);
    }
    if rng.chance(2, 3) {
        b.push_str(t2);
    }
    let head = if rng.chance(1, 2) { format!("unchanged first line{}", t1) } else { String::new() };
    let tail = if rng.chance(1, 2) && a.ends_with(t1) && b.ends_with(t2) { format!("unchanged last line{}", t1) } else { String::new() };
    (format!("{}{}{}", head, a, tail), format!("{}{}{}", head, b, tail))
}
