//! R-TOK: reference tokenizers written over raw bytes, independent of
//! `char_indices` / bstr.  Decoding uses std's `utf8_chunks` only to tell
//! valid scalar values from invalid sequences.

use std::ops::Range;

/// (start, end, Some(char) for a valid scalar value / None for one invalid sequence)
pub fn decode(bytes: &[u8]) -> Vec<(usize, usize, Option<char>)> {
    let mut out = Vec::new();
    let mut pos = 0;
    for chunk in bytes.utf8_chunks() {
        for c in chunk.valid().chars() {
            out.push((pos, pos + c.len_utf8(), Some(c)));
            pos += c.len_utf8();
        }
        let inv = chunk.invalid();
        if !inv.is_empty() {
            out.push((pos, pos + inv.len(), None));
            pos += inv.len();
        }
    }
    out
}

/// Unicode White_Space (own table, not `char::is_whitespace`)
pub fn is_ws(c: char) -> bool {
    matches!(
        c as u32,
        0x09..=0x0d | 0x20 | 0x85 | 0xa0 | 0x1680 | 0x2000..=0x200a | 0x2028 | 0x2029 | 0x202f | 0x205f | 0x3000
    )
}

pub fn ref_lines(b: &[u8]) -> Vec<Range<usize>> {
    let mut v = Vec::new();
    let mut start = 0;
    let mut i = 0;
    while i < b.len() {
        if b[i] == b'\n' {
            v.push(start..i + 1);
            start = i + 1;
            i += 1;
        } else if b[i] == b'\r' {
            if i + 1 < b.len() && b[i + 1] == b'\n' {
                v.push(start..i + 2);
                start = i + 2;
                i += 2;
            } else {
                v.push(start..i + 1);
                start = i + 1;
                i += 1;
            }
        } else {
            i += 1;
        }
    }
    if start < b.len() {
        v.push(start..b.len());
    }
    v
}

pub fn ref_lines_and_newlines(b: &[u8]) -> Vec<Range<usize>> {
    let mut v: Vec<Range<usize>> = Vec::new();
    let mut start = 0;
    for i in 0..b.len() {
        let nl = b[i] == b'\n' || b[i] == b'\r';
        if i > 0 {
            let prev = b[i - 1] == b'\n' || b[i - 1] == b'\r';
            if prev != nl {
                v.push(start..i);
                start = i;
            }
        }
    }
    if start < b.len() {
        v.push(start..b.len());
    }
    v
}

pub fn ref_words(b: &[u8]) -> Vec<Range<usize>> {
    let units = decode(b);
    let mut v: Vec<Range<usize>> = Vec::new();
    let mut cur: Option<(usize, bool)> = None;
    let mut end = 0;
    for (s, e, c) in units {
        let ws = c.map_or(false, is_ws);
        match cur {
            Some((_, w)) if w == ws => {}
            Some((st, _)) => {
                v.push(st..s);
                cur = Some((s, ws));
            }
            None => cur = Some((s, ws)),
        }
        end = e;
    }
    if let Some((st, _)) = cur {
        v.push(st..end);
    }
    v
}

pub fn ref_chars(b: &[u8]) -> Vec<Range<usize>> {
    decode(b).into_iter().map(|(s, e, _)| s..e).collect()
}

/// token byte ranges from a token list that is supposed to partition `input`;
/// Err when a token is empty or the concatenation is not the input
pub fn ranges_of(input: &[u8], tokens: &[&[u8]]) -> Result<Vec<Range<usize>>, String> {
    let mut pos = 0;
    let mut v = Vec::with_capacity(tokens.len());
    for (i, t) in tokens.iter().enumerate() {
        if t.is_empty() {
            return Err(format!("token #{} is empty", i));
        }
        if pos + t.len() > input.len() || &input[pos..pos + t.len()] != *t {
            return Err(format!(
                "token #{} {:?} is not the next {} bytes of the input (at byte {})",
                i,
                String::from_utf8_lossy(t),
                t.len(),
                pos
            ));
        }
        v.push(pos..pos + t.len());
        pos += t.len();
    }
    if pos != input.len() {
        return Err(format!("tokens cover {} of {} bytes", pos, input.len()));
    }
    Ok(v)
}

pub fn show(b: &[u8]) -> String {
    let mut s = String::from("b\"");
    for &x in b.iter().take(200) {
        match x {
            b'\n' => s.push_str("\\n"),
            b'\r' => s.push_str("\\r"),
            b'\t' => s.push_str("\\t"),
            b'"' => s.push_str("\\\""),
            b'\\' => s.push_str("\\\\"),
            0x20..=0x7e => s.push(x as char),
            _ => s.push_str(&format!("\\x{:02x}", x)),
        }
    }
    if b.len() > 200 {
        s.push_str(&format!("…(len {})", b.len()));
    }
    s.push('"');
    s
}
