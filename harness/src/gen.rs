//! Workload generators for item sequences, edit scripts and op lists.

use std::collections::HashMap;
use std::ops::Range;
use std::sync::{Mutex, OnceLock};

use similar::DiffOp;

use crate::rng::Rng;

/// G-EXH: all sequences over {0..alpha-1} of length <= maxlen, shortest first.
pub fn all_seqs(alpha: u8, maxlen: usize) -> &'static Vec<Vec<u8>> {
    static CACHE: OnceLock<Mutex<HashMap<(u8, usize), &'static Vec<Vec<u8>>>>> = OnceLock::new();
    let cache = CACHE.get_or_init(|| Mutex::new(HashMap::new()));
    let mut guard = cache.lock().unwrap();
    if let Some(v) = guard.get(&(alpha, maxlen)) {
        return v;
    }
    let mut out: Vec<Vec<u8>> = vec![vec![]];
    let mut frontier: Vec<Vec<u8>> = vec![vec![]];
    for _ in 0..maxlen {
        let mut next = Vec::with_capacity(frontier.len() * alpha as usize);
        for s in &frontier {
            for c in 0..alpha {
                let mut t = s.clone();
                t.push(c);
                next.push(t);
            }
        }
        out.extend(next.iter().cloned());
        frontier = next;
    }
    let leaked: &'static Vec<Vec<u8>> = Box::leak(Box::new(out));
    guard.insert((alpha, maxlen), leaked);
    leaked
}

pub fn pair_of(seqs: &'static [Vec<u8>], idx: u64) -> (&'static [u8], &'static [u8]) {
    let n = seqs.len() as u64;
    (&seqs[(idx / n) as usize], &seqs[(idx % n) as usize])
}

/// all (start..end) sub-ranges of 0..n, including empty ones at every position
pub fn subranges(n: usize) -> Vec<Range<usize>> {
    let mut v = Vec::new();
    for s in 0..=n {
        for e in s..=n {
            v.push(s..e);
        }
    }
    v
}

pub const LENS: [usize; 8] = [0, 1, 2, 3, 10, 40, 150, 400];
pub const ALPHAS: [u32; 6] = [1, 2, 3, 8, 50, 100_000];

/// G-RND: a random pair; the second sequence is independent of the first or an
/// edit of it, so repeats next to edits are common.
pub fn rand_pair(rng: &mut Rng, max_len: usize) -> (Vec<u32>, Vec<u32>) {
    let lens: Vec<usize> = LENS.iter().copied().filter(|l| *l <= max_len).collect();
    let alpha = *rng.pick(&ALPHAS);
    let la = {
        let base = *rng.pick(&lens);
        if base >= 10 {
            rng.range(base / 2, base)
        } else {
            base
        }
    };
    let a: Vec<u32> = (0..la).map(|_| rng.below(alpha as usize) as u32).collect();
    let b = match rng.below(8) {
        0 | 1 => {
            let lb = {
                let base = *rng.pick(&lens);
                if base >= 10 {
                    rng.range(base / 2, base)
                } else {
                    base
                }
            };
            (0..lb).map(|_| rng.below(alpha as usize) as u32).collect()
        }
        2 | 3 | 4 => {
            let k = 1 + rng.below(6);
            point_edits(rng, &a, k, alpha, max_len)
        }
        5 => block_move(rng, &a),
        6 => {
            // rotation / truncation
            let mut b = a.clone();
            if !b.is_empty() {
                if rng.chance(1, 2) {
                    let r = rng.below(b.len());
                    b.rotate_left(r);
                } else {
                    let keep = rng.below(b.len() + 1);
                    if rng.chance(1, 2) {
                        b.truncate(keep);
                    } else {
                        b.drain(..b.len() - keep);
                    }
                }
            }
            b
        }
        _ => {
            // duplication of a block + a few edits
            let mut b = a.clone();
            if !b.is_empty() && b.len() * 2 <= max_len.max(2) {
                let s = rng.below(b.len());
                let e = rng.range(s, b.len() - 1) + 1;
                let blk: Vec<u32> = b[s..e].to_vec();
                let at = rng.below(b.len() + 1);
                for (i, x) in blk.into_iter().enumerate() {
                    b.insert(at + i, x);
                }
            }
            let k = rng.below(3);
            point_edits(rng, &b, k, alpha, max_len)
        }
    };
    if rng.chance(1, 2) {
        (a, b)
    } else {
        (b, a)
    }
}

pub fn point_edits(rng: &mut Rng, a: &[u32], k: usize, alpha: u32, max_len: usize) -> Vec<u32> {
    let mut b = a.to_vec();
    for _ in 0..k {
        match rng.below(3) {
            0 if !b.is_empty() => {
                let i = rng.below(b.len());
                b[i] = rng.below(alpha as usize) as u32;
            }
            1 if !b.is_empty() => {
                let i = rng.below(b.len());
                let l = (1 + rng.below(3)).min(b.len() - i);
                b.drain(i..i + l);
            }
            _ => {
                let i = rng.below(b.len() + 1);
                let l = 1 + rng.below(3);
                for j in 0..l {
                    if b.len() < max_len.max(4) {
                        // insert either a fresh item or a copy of a neighbour (repeat next to an edit)
                        let x = if rng.chance(1, 2) && !b.is_empty() {
                            b[(i + j).min(b.len() - 1)]
                        } else {
                            rng.below(alpha as usize) as u32
                        };
                        b.insert((i + j).min(b.len()), x);
                    }
                }
            }
        }
    }
    b
}

pub fn block_move(rng: &mut Rng, a: &[u32]) -> Vec<u32> {
    let mut b = a.to_vec();
    if b.len() >= 2 {
        let s = rng.below(b.len());
        let e = rng.range(s, b.len() - 1) + 1;
        let blk: Vec<u32> = b.drain(s..e).collect();
        let at = rng.below(b.len() + 1);
        for (i, x) in blk.into_iter().enumerate() {
            b.insert(at + i, x);
        }
    }
    b
}

/// a random pair of in-bounds sub-ranges, biased to non-zero starts
pub fn rand_ranges(rng: &mut Rng, la: usize, lb: usize) -> (Range<usize>, Range<usize>) {
    fn one(rng: &mut Rng, l: usize) -> Range<usize> {
        match rng.below(5) {
            0 => 0..l,
            1 => {
                let s = rng.below(l + 1);
                s..l
            }
            2 => {
                let e = rng.below(l + 1);
                0..e
            }
            _ => {
                let s = rng.below(l + 1);
                let e = rng.range(s, l);
                s..e
            }
        }
    }
    (one(rng, la), one(rng, lb))
}

// ---------------------------------------------------------------------------
// G-SCRIPT: valid edit scripts over a pair

#[derive(Clone, Copy, PartialEq, Eq, Debug, Hash)]
pub enum Step {
    Eq(usize, usize, usize),
    Del(usize, usize, usize),
    Ins(usize, usize, usize),
}

impl Step {
    pub fn to_op(self) -> DiffOp {
        match self {
            Step::Eq(o, n, l) => DiffOp::Equal {
                old_index: o,
                new_index: n,
                len: l,
            },
            Step::Del(o, l, n) => DiffOp::Delete {
                old_index: o,
                old_len: l,
                new_index: n,
            },
            Step::Ins(o, n, l) => DiffOp::Insert {
                old_index: o,
                new_index: n,
                new_len: l,
            },
        }
    }
}

/// Enumerates every valid edit script for (a, b): at (i, j) one may emit an
/// equal run of any length 1..=matching run, a delete run of any length, or
/// an insert run of any length; consecutive same-kind steps are allowed (so a
/// run may be split) and deletes and inserts may interleave in any order.
/// Carried indices are exact (current position).  Calls `f` for each script.
pub fn for_each_script(a: &[u8], b: &[u8], f: &mut dyn FnMut(&[Step])) {
    fn rec(a: &[u8], b: &[u8], i: usize, j: usize, cur: &mut Vec<Step>, f: &mut dyn FnMut(&[Step])) {
        if i == a.len() && j == b.len() {
            f(cur);
            return;
        }
        // equal runs
        let mut l = 0;
        while i + l < a.len() && j + l < b.len() && a[i + l] == b[j + l] {
            l += 1;
            cur.push(Step::Eq(i, j, l));
            rec(a, b, i + l, j + l, cur, f);
            cur.pop();
        }
        for l in 1..=(a.len() - i) {
            cur.push(Step::Del(i, l, j));
            rec(a, b, i + l, j, cur, f);
            cur.pop();
        }
        for l in 1..=(b.len() - j) {
            cur.push(Step::Ins(i, j, l));
            rec(a, b, i, j + l, cur, f);
            cur.pop();
        }
    }
    let mut cur = Vec::new();
    rec(a, b, 0, 0, &mut cur, f);
}

/// A random valid edit script (random walk in the edit graph).
pub fn rand_script<T: PartialEq>(rng: &mut Rng, a: &[T], b: &[T]) -> Vec<Step> {
    let (mut i, mut j) = (0, 0);
    let mut steps = Vec::new();
    // bias: probability of taking an available equal step
    let eq_bias = rng.range(1, 9);
    while i < a.len() || j < b.len() {
        let mut run = 0;
        while i + run < a.len() && j + run < b.len() && a[i + run] == b[j + run] {
            run += 1;
        }
        if run > 0 && rng.below(10) < eq_bias {
            let l = if rng.chance(1, 2) { run } else { 1 + rng.below(run) };
            steps.push(Step::Eq(i, j, l));
            i += l;
            j += l;
        } else if i < a.len() && (j >= b.len() || rng.chance(1, 2)) {
            let l = 1 + rng.below((a.len() - i).min(3));
            steps.push(Step::Del(i, l, j));
            i += l;
        } else if j < b.len() {
            let l = 1 + rng.below((b.len() - j).min(3));
            steps.push(Step::Ins(i, j, l));
            j += l;
        }
    }
    steps
}

// ---------------------------------------------------------------------------
// G-OPS: valid alternating op lists (for grouping)

pub const RUNS: [usize; 9] = [1, 2, 3, 4, 5, 6, 7, 9, 13];

pub fn rand_oplist(rng: &mut Rng) -> Vec<DiffOp> {
    rand_oplist_with(rng, false)
}

/// `adjacent_changes`: a change may be followed directly by another change (op lists that did not go
/// through the Replace / Compact stages, e.g. what a bare `Capture` records: Insert next to Delete)
pub fn rand_oplist_with(rng: &mut Rng, adjacent_changes: bool) -> Vec<DiffOp> {
    let nops = rng.below(10);
    let mut ops = Vec::new();
    let (mut o, mut n) = (rng.below(4), rng.below(4));
    let mut eq = rng.chance(1, 2);
    for _ in 0..nops {
        if eq {
            let l = *rng.pick(&RUNS);
            ops.push(DiffOp::Equal {
                old_index: o,
                new_index: n,
                len: l,
            });
            o += l;
            n += l;
        } else {
            match rng.below(3) {
                0 => {
                    let l = 1 + rng.below(3);
                    ops.push(DiffOp::Delete {
                        old_index: o,
                        old_len: l,
                        new_index: n,
                    });
                    o += l;
                }
                1 => {
                    let l = 1 + rng.below(3);
                    ops.push(DiffOp::Insert {
                        old_index: o,
                        new_index: n,
                        new_len: l,
                    });
                    n += l;
                }
                _ => {
                    let l1 = 1 + rng.below(3);
                    let l2 = 1 + rng.below(3);
                    ops.push(DiffOp::Replace {
                        old_index: o,
                        old_len: l1,
                        new_index: n,
                        new_len: l2,
                    });
                    o += l1;
                    n += l2;
                }
            }
        }
        eq = if !eq && adjacent_changes && rng.chance(1, 3) { false } else { !eq };
    }
    ops
}

/// G-BIG (validity flavour): long near-identical pairs — few edits, a block move or a
/// duplicated block on top of a distinct or small-alphabet base with long equal runs.
pub fn big_pair(rng: &mut Rng, min: usize, max: usize) -> (Vec<u32>, Vec<u32>) {
    let n = rng.range(min, max);
    let alpha: u32 = *rng.pick(&[2, 50, 1_000_000, 1_000_000]);
    let a: Vec<u32> = if alpha == 1_000_000 {
        (0..n as u32).collect()
    } else if rng.chance(1, 2) {
        (0..n).map(|_| rng.below(alpha as usize) as u32).collect()
    } else {
        // long runs of equal items
        let mut v = Vec::with_capacity(n);
        while v.len() < n {
            let x = rng.below(alpha as usize) as u32;
            let run = 1 + rng.below(300);
            for _ in 0..run.min(n - v.len()) {
                v.push(x);
            }
        }
        v
    };
    let mut b = match rng.below(4) {
        // (a moved block costs D = 2 * block length: keep it affordable on the huge inputs)
        0 if n <= 8000 => block_move(rng, &a),
        1 => {
            let mut b = a.clone();
            let s = rng.below(b.len());
            let e = (s + 1 + rng.below(400)).min(b.len());
            let blk: Vec<u32> = b[s..e].to_vec();
            let at = rng.below(b.len() + 1);
            b.splice(at..at, blk);
            b
        }
        _ => a.clone(),
    };
    let k = rng.below(9);
    b = point_edits(rng, &b, k, alpha, usize::MAX / 2);
    if rng.chance(1, 2) {
        (a, b)
    } else {
        (b, a)
    }
}

/// Two long, mostly unrelated sequences (fillers are distinct and one-sided) that share `k`
/// landmark items, `crossing` of which appear in a different relative order.  The edit
/// distance is about n + m: this drives the search through thousands of rounds.
pub fn landmark_pair(rng: &mut Rng, n: usize, m: usize, k: usize, crossing: usize) -> (Vec<u32>, Vec<u32>) {
    let mut a: Vec<u32> = (0..n as u32).map(|i| 10_000_000 + i).collect();
    let mut b: Vec<u32> = (0..m as u32).map(|i| 20_000_000 + i).collect();
    let k = k.min(n).min(m);
    let mut pa: Vec<usize> = (0..k).map(|_| rng.below(n.max(1))).collect();
    let mut pb: Vec<usize> = (0..k).map(|_| rng.below(m.max(1))).collect();
    pa.sort();
    pa.dedup();
    pb.sort();
    pb.dedup();
    let k = pa.len().min(pb.len());
    for j in 0..k {
        a[pa[j]] = 30_000_000 + j as u32;
        b[pb[j]] = 30_000_000 + j as u32;
    }
    // a few landmarks in crossing order
    for c in 0..crossing.min(k / 2) {
        let (x, y) = (2 * c, 2 * c + 1);
        b.swap(pb[x], pb[y]);
    }
    (a, b)
}

/// Common head and tail around a replaced block: `l1` old items are replaced by `l2` unrelated
/// new items (strongly asymmetric sizes included).
pub fn asymmetric_replace(rng: &mut Rng, head: usize, tail: usize, l1: usize, l2: usize) -> (Vec<u32>, Vec<u32>) {
    let alpha = *rng.pick(&[0u32, 0, 30]);
    let common = |rng: &mut Rng, n: usize, base: u32| -> Vec<u32> {
        if alpha == 0 {
            (0..n as u32).map(|i| base + i).collect()
        } else {
            (0..n).map(|_| rng.below(alpha as usize) as u32).collect()
        }
    };
    let h = common(rng, head, 1_000_000);
    let t = common(rng, tail, 2_000_000);
    let mut a = h.clone();
    a.extend((0..l1 as u32).map(|i| 10_000_000 + i));
    a.extend_from_slice(&t);
    let mut b = h;
    b.extend((0..l2 as u32).map(|i| 20_000_000 + i));
    b.extend_from_slice(&t);
    (a, b)
}

/// `n` items (distinct or from a small alphabet) with all edits confined to a window of at
/// most `window` items: cheap for every algorithm (LCS strips the common prefix and suffix).
pub fn windowed_edit_pair(rng: &mut Rng, n: usize, window: usize) -> (Vec<u32>, Vec<u32>) {
    let alpha = *rng.pick(&[0u32, 0, 5, 40]);
    let a: Vec<u32> = if alpha == 0 { (0..n as u32).collect() } else { (0..n).map(|_| rng.below(alpha as usize) as u32).collect() };
    let w = window.min(n);
    let start = if n > w { rng.below(n - w + 1) } else { 0 };
    let mid: Vec<u32> = a[start..start + w].to_vec();
    let k = 1 + rng.below(5);
    let mut mid2 = point_edits(rng, &mid, k, if alpha == 0 { 1_000_000 } else { alpha }, w + 20);
    if rng.chance(1, 3) && mid2.len() >= 2 {
        let i = rng.below(mid2.len() - 1);
        mid2.swap(i, i + 1);
    }
    let mut b = a[..start].to_vec();
    b.extend_from_slice(&mid2);
    b.extend_from_slice(&a[start + w..]);
    (a, b)
}

pub const SIZES_NEAR_BOUNDARIES: [usize; 18] = [255, 256, 257, 1000, 1023, 1024, 1025, 2047, 2048, 2049, 4095, 4096, 4097, 4200, 8191, 8192, 8193, 9000];

/// Long runs of one repeated item next to a pure insertion / deletion / replacement, so that
/// compaction has to slide an edit across thousands of identical items.
pub fn long_run_pair(rng: &mut Rng, run: usize) -> (Vec<u32>, Vec<u32>) {
    let x = 7u32;
    let before = rng.below(run / 4 + 2);
    let mut a: Vec<u32> = vec![x; before];
    let marker = if rng.chance(1, 2) { vec![9u32] } else { vec![9u32, x, 9] };
    a.extend_from_slice(&marker);
    a.extend(std::iter::repeat(x).take(run));
    if rng.chance(1, 3) {
        a.push(11);
    }
    let b: Vec<u32> = match rng.below(4) {
        // the marker disappears and the run is longer / shorter: an insertion of x's that can sit anywhere
        0 => {
            let mut b = vec![x; before + run + 1 + rng.below(3)];
            if a.last() == Some(&11) {
                b.push(11);
            }
            b
        }
        // one more x somewhere in the run
        1 => {
            let mut b = a.clone();
            let at = before + marker.len() + rng.below(run + 1);
            b.insert(at, x);
            b
        }
        // a block of the run removed
        2 => {
            let mut b = a.clone();
            let at = before + marker.len() + rng.below(run / 2 + 1);
            let l = (1 + rng.below(5)).min(b.len() - at);
            b.drain(at..at + l);
            b
        }
        _ => {
            let mut b = a.clone();
            let at = rng.below(b.len() + 1);
            b.insert(at, 13);
            let at2 = rng.below(b.len() + 1);
            b.insert(at2, x);
            b
        }
    };
    if rng.chance(1, 2) {
        (a, b)
    } else {
        (b, a)
    }
}

/// like `asymmetric_replace` but every item is distinct (no randomness): head / tail common,
/// `l1` old items replaced by `l2` fresh ones
pub fn asymmetric_replace_distinct(head: usize, tail: usize, l1: usize, l2: usize) -> (Vec<u32>, Vec<u32>) {
    let h: Vec<u32> = (0..head as u32).map(|i| 1_000_000 + i).collect();
    let t: Vec<u32> = (0..tail as u32).map(|i| 2_000_000 + i).collect();
    let mut a = h.clone();
    a.extend((0..l1 as u32).map(|i| 10_000_000 + i));
    a.extend_from_slice(&t);
    let mut b = h;
    b.extend((0..l2 as u32).map(|i| 20_000_000 + i));
    b.extend_from_slice(&t);
    (a, b)
}

/// `for_each_script` for an arbitrary "equal" relation between old index i and new index j
pub fn for_each_script_by(la: usize, lb: usize, eq: &dyn Fn(usize, usize) -> bool, f: &mut dyn FnMut(&[Step])) {
    fn rec(la: usize, lb: usize, eq: &dyn Fn(usize, usize) -> bool, i: usize, j: usize, cur: &mut Vec<Step>, f: &mut dyn FnMut(&[Step])) {
        if i == la && j == lb {
            f(cur);
            return;
        }
        let mut l = 0;
        while i + l < la && j + l < lb && eq(i + l, j + l) {
            l += 1;
            cur.push(Step::Eq(i, j, l));
            rec(la, lb, eq, i + l, j + l, cur, f);
            cur.pop();
        }
        for l in 1..=(la - i) {
            cur.push(Step::Del(i, l, j));
            rec(la, lb, eq, i + l, j, cur, f);
            cur.pop();
        }
        for l in 1..=(lb - j) {
            cur.push(Step::Ins(i, j, l));
            rec(la, lb, eq, i, j + l, cur, f);
            cur.pop();
        }
    }
    let mut cur = Vec::new();
    rec(la, lb, eq, 0, 0, &mut cur, f);
}

/// `rand_script` for an arbitrary "equal" relation
pub fn rand_script_by(rng: &mut Rng, la: usize, lb: usize, eq: &dyn Fn(usize, usize) -> bool) -> Vec<Step> {
    let (mut i, mut j) = (0, 0);
    let mut steps = Vec::new();
    let eq_bias = rng.range(1, 9);
    while i < la || j < lb {
        let mut run = 0;
        while i + run < la && j + run < lb && eq(i + run, j + run) {
            run += 1;
        }
        if run > 0 && rng.below(10) < eq_bias {
            let l = if rng.chance(1, 2) { run } else { 1 + rng.below(run) };
            steps.push(Step::Eq(i, j, l));
            i += l;
            j += l;
        } else if i < la && (j >= lb || rng.chance(1, 2)) {
            let l = 1 + rng.below((la - i).min(3));
            steps.push(Step::Del(i, l, j));
            i += l;
        } else if j < lb {
            let l = 1 + rng.below((lb - j).min(3));
            steps.push(Step::Ins(i, j, l));
            j += l;
        }
    }
    steps
}

/// Inputs with special STRUCTURE rather than size: all-equal, strictly alternating, palindromes,
/// one side a prefix / suffix / rotation / reversal of the other, duplicated halves, interleavings.
pub fn structured_pair(rng: &mut Rng, max: usize) -> (Vec<u32>, Vec<u32>, &'static str) {
    let n = rng.below(max + 1);
    let alpha = 1 + rng.below(4) as u32;
    let base: Vec<u32> = match rng.below(5) {
        0 => vec![1; n],
        1 => (0..n as u32).map(|i| i % 2).collect(),
        2 => (0..n as u32).map(|i| i % 3).collect(),
        3 => (0..n as u32).collect(),
        _ => (0..n).map(|_| rng.below(alpha as usize) as u32).collect(),
    };
    let pal = |v: &[u32]| -> Vec<u32> {
        let mut p = v.to_vec();
        p.extend(v.iter().rev());
        p
    };
    match rng.below(12) {
        0 => (base.clone(), base.iter().rev().copied().collect(), "reversal"),
        1 => {
            let k = rng.below(base.len() + 1);
            (base.clone(), base[..k].to_vec(), "prefix")
        }
        2 => {
            let k = rng.below(base.len() + 1);
            (base.clone(), base[k..].to_vec(), "suffix")
        }
        3 => {
            let mut b = base.clone();
            if !b.is_empty() {
                let r = rng.below(b.len());
                b.rotate_left(r);
            }
            (base, b, "rotation")
        }
        4 => {
            let mut b = base.clone();
            b.extend_from_slice(&base);
            (base, b, "doubled")
        }
        5 => (pal(&base), base, "palindrome_vs_half"),
        6 => {
            let p = pal(&base);
            let mut q = p.clone();
            if !q.is_empty() {
                let i = q.len() / 2;
                q.insert(i, 99);
            }
            (p, q, "palindrome_with_centre")
        }
        7 => {
            // interleaving: a0 b0 a1 b1 ... vs a0 a1 ... b0 b1 ...
            let half = base.len() / 2;
            let (x, y) = base.split_at(half);
            let mut inter = Vec::new();
            for i in 0..half.max(y.len()) {
                if i < x.len() {
                    inter.push(x[i]);
                }
                if i < y.len() {
                    inter.push(y[i]);
                }
            }
            (base.clone(), inter, "interleaving")
        }
        8 => {
            let a = vec![1u32; n];
            let b = vec![1u32; rng.below(max + 1)];
            (a, b, "all_equal_different_lengths")
        }
        9 => {
            let a: Vec<u32> = (0..n as u32).map(|i| i % 2).collect();
            let b: Vec<u32> = (0..n as u32).map(|i| (i + 1) % 2).collect();
            (a, b, "alternating_phase_shift")
        }
        10 => {
            // every item doubled
            let b: Vec<u32> = base.iter().flat_map(|x| [*x, *x]).collect();
            (base, b, "each_item_doubled")
        }
        _ => {
            // swap the two halves
            let half = base.len() / 2;
            let mut b = base[half..].to_vec();
            b.extend_from_slice(&base[..half]);
            (base, b, "halves_swapped")
        }
    }
}

/// All items unique per side.  Ordered common items come in `runs` runs of 2..max_run items, separated by
/// one-sided noise (old-only / new-only items); a contiguous block of `block` common items sits at
/// different places of the two sides (it is MOVED across some or all of the runs).  The longest in-order
/// set of common items is known: max(sum of the runs the block does not have to cross + block, sum of runs)
/// — callers use their own LIS oracle; returned: (old, new).
pub fn moved_block_pair(rng: &mut Rng, runs: usize, max_run: usize, block: usize, max_noise: usize) -> (Vec<u32>, Vec<u32>) {
    let mut next_common = 30_000_000u32;
    let mut next_old = 10_000_000u32;
    let mut next_new = 20_000_000u32;
    let blk: Vec<u32> = (0..block as u32).map(|i| 40_000_000 + i).collect();
    let mut a: Vec<Vec<u32>> = Vec::new();
    let mut b: Vec<Vec<u32>> = Vec::new();
    for _ in 0..runs {
        let len = 2 + rng.below(max_run.saturating_sub(1).max(1));
        let run: Vec<u32> = (0..len as u32).map(|i| next_common + i).collect();
        next_common += len as u32;
        let (no, nn) = (rng.below(max_noise + 1), rng.below(max_noise + 1));
        let mut sa = run.clone();
        sa.extend((0..no as u32).map(|i| next_old + i));
        next_old += no as u32;
        let mut sb = run;
        sb.extend((0..nn as u32).map(|i| next_new + i));
        next_new += nn as u32;
        a.push(sa);
        b.push(sb);
    }
    let (pa, pb) = match rng.below(4) {
        0 => (runs, 0),
        1 => (0, runs),
        _ => (rng.below(runs + 1), rng.below(runs + 1)),
    };
    a.insert(pa, blk.clone());
    b.insert(pb, blk);
    (a.concat(), b.concat())
}

/// `hunks` separate small changes in a long sequence of otherwise distinct items: the raw edit script has
/// more than 2 * hunks edits and the captured list about 2 * hunks ops.  Every 7th hunk is one whose
/// clean-up matters (`q s t` -> `s i s t`: the insertion can slide), every 5th a pure insertion, every
/// 11th a pure deletion, the rest 1:1 replacements.
pub fn many_hunks_pair(hunks: usize) -> (Vec<u32>, Vec<u32>, usize) {
    let mut a = Vec::with_capacity(hunks * 4);
    let mut b = Vec::with_capacity(hunks * 4);
    let mut opt = 0usize;
    for h in 0..hunks as u32 {
        let c = 1_000_000 + 4 * h;
        a.push(c);
        b.push(c);
        if h % 7 == 3 {
            let (q, s, t, i) = (50_000_000 + h, 60_000_000 + h, 70_000_000 + h, 80_000_000 + h);
            a.extend_from_slice(&[q, s, t]);
            b.extend_from_slice(&[s, i, s, t]);
            opt += 3;
        } else if h % 5 == 1 {
            b.push(20_000_000 + h);
            opt += 1;
        } else if h % 11 == 2 {
            a.push(10_000_000 + h);
            opt += 1;
        } else {
            a.push(10_000_000 + h);
            b.push(20_000_000 + h);
            opt += 2;
        }
        if h % 3 == 0 {
            a.push(c + 1);
            b.push(c + 1);
        }
    }
    (a, b, opt)
}
