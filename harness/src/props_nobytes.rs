//! Module tree of the build WITHOUT the `bytes` feature (`--no-default-features --features
//! unicode`): `[u8]` is no text type there and `str` uses its fallback code paths.  Only the
//! str half of C06 (tokenizers against the byte-level reference) is compiled into this build.

#[path = "props/c06.rs"]
pub mod c06;

use crate::engine::Family;

pub fn families_of(property: &str) -> Option<Vec<Box<dyn Family>>> {
    match property {
        "C06" => Some(c06::families()),
        _ => None,
    }
}
