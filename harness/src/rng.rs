//! Small deterministic PRNG (splitmix64 seeding + xorshift64*).  Every case of
//! every family derives its own generator from (seed, family, index), so a
//! single case can be replayed without re-running the cases before it.

#[derive(Clone)]
pub struct Rng(u64);

pub fn splitmix(mut z: u64) -> u64 {
    z = z.wrapping_add(0x9e37_79b9_7f4a_7c15);
    z = (z ^ (z >> 30)).wrapping_mul(0xbf58_476d_1ce4_e5b9);
    z = (z ^ (z >> 27)).wrapping_mul(0x94d0_49bb_1331_11eb);
    z ^ (z >> 31)
}

pub fn fnv(s: &str) -> u64 {
    let mut h = 0xcbf2_9ce4_8422_2325u64;
    for b in s.bytes() {
        h = (h ^ b as u64).wrapping_mul(0x0000_0100_0000_01b3);
    }
    h
}

impl Rng {
    pub fn new(seed: u64) -> Rng {
        let s = splitmix(seed);
        Rng(if s == 0 { 0x1234_5678_9abc_def1 } else { s })
    }

    pub fn for_case(seed: u64, family: &str, idx: u64) -> Rng {
        Rng::new(splitmix(seed ^ fnv(family)) ^ splitmix(idx.wrapping_mul(0x2545_f491_4f6c_dd1d) ^ 0xabcd))
    }

    pub fn next(&mut self) -> u64 {
        let mut x = self.0;
        x ^= x >> 12;
        x ^= x << 25;
        x ^= x >> 27;
        self.0 = x;
        x.wrapping_mul(0x2545_f491_4f6c_dd1d)
    }

    /// uniform in 0..n (n > 0)
    pub fn below(&mut self, n: usize) -> usize {
        debug_assert!(n > 0);
        ((self.next() >> 11) % n as u64) as usize
    }

    /// uniform in lo..=hi
    pub fn range(&mut self, lo: usize, hi: usize) -> usize {
        lo + self.below(hi - lo + 1)
    }

    pub fn chance(&mut self, num: usize, den: usize) -> bool {
        self.below(den) < num
    }

    pub fn pick<'a, T>(&mut self, xs: &'a [T]) -> &'a T {
        &xs[self.below(xs.len())]
    }
}
