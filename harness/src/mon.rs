//! Monitors that sit at the client boundary of `similar` and the small
//! reference models they compare against.

use std::cell::Cell;
use std::hash::{Hash, Hasher};
use std::ops::{Index, Range};

use similar::algorithms::DiffHook;
use similar::DiffableStr as _;
use similar::{DiffOp, DiffTag};

// ---------------------------------------------------------------------------
// events

#[derive(Debug, Clone, Copy, PartialEq, Eq, Hash)]
pub enum Ev {
    Eq(usize, usize, usize),
    Del(usize, usize, usize),
    Ins(usize, usize, usize),
    Rep(usize, usize, usize, usize),
    Fin,
}

impl Ev {
    pub fn shifted(self, os: usize, ns: usize) -> Ev {
        match self {
            Ev::Eq(o, n, l) => Ev::Eq(o + os, n + ns, l),
            Ev::Del(o, l, n) => Ev::Del(o + os, l, n + ns),
            Ev::Ins(o, n, l) => Ev::Ins(o + os, n + ns, l),
            Ev::Rep(o, ol, n, nl) => Ev::Rep(o + os, ol, n + ns, nl),
            Ev::Fin => Ev::Fin,
        }
    }
}

pub fn fmt_evs(evs: &[Ev]) -> String {
    let mut s = String::from("[");
    for (i, e) in evs.iter().enumerate() {
        if i > 0 {
            s.push_str(", ");
        }
        if i >= 60 {
            s.push_str(&format!("… {} more", evs.len() - i));
            break;
        }
        match e {
            Ev::Eq(o, n, l) => s.push_str(&format!("equal({},{},{})", o, n, l)),
            Ev::Del(o, l, n) => s.push_str(&format!("delete({},{},{})", o, l, n)),
            Ev::Ins(o, n, l) => s.push_str(&format!("insert({},{},{})", o, n, l)),
            Ev::Rep(o, ol, n, nl) => s.push_str(&format!("replace({},{},{},{})", o, ol, n, nl)),
            Ev::Fin => s.push_str("finish"),
        }
    }
    s.push(']');
    s
}

pub fn fmt_ops(ops: &[DiffOp]) -> String {
    let mut s = String::from("[");
    for (i, op) in ops.iter().enumerate() {
        if i > 0 {
            s.push_str(", ");
        }
        if i >= 60 {
            s.push_str(&format!("… {} more", ops.len() - i));
            break;
        }
        match *op {
            DiffOp::Equal {
                old_index,
                new_index,
                len,
            } => s.push_str(&format!("Equal(o{},n{},len{})", old_index, new_index, len)),
            DiffOp::Delete {
                old_index,
                old_len,
                new_index,
            } => s.push_str(&format!("Delete(o{},len{},n{})", old_index, old_len, new_index)),
            DiffOp::Insert {
                old_index,
                new_index,
                new_len,
            } => s.push_str(&format!("Insert(o{},n{},len{})", old_index, new_index, new_len)),
            DiffOp::Replace {
                old_index,
                old_len,
                new_index,
                new_len,
            } => s.push_str(&format!(
                "Replace(o{},len{},n{},len{})",
                old_index, old_len, new_index, new_len
            )),
        }
    }
    s.push(']');
    s
}

/// A plain recording hook (with `replace` override).
#[derive(Default)]
pub struct Rec(pub Vec<Ev>);

impl DiffHook for Rec {
    type Error = ();
    fn equal(&mut self, o: usize, n: usize, l: usize) -> Result<(), ()> {
        self.0.push(Ev::Eq(o, n, l));
        Ok(())
    }
    fn delete(&mut self, o: usize, l: usize, n: usize) -> Result<(), ()> {
        self.0.push(Ev::Del(o, l, n));
        Ok(())
    }
    fn insert(&mut self, o: usize, n: usize, l: usize) -> Result<(), ()> {
        self.0.push(Ev::Ins(o, n, l));
        Ok(())
    }
    fn replace(&mut self, o: usize, ol: usize, n: usize, nl: usize) -> Result<(), ()> {
        self.0.push(Ev::Rep(o, ol, n, nl));
        Ok(())
    }
    fn finish(&mut self) -> Result<(), ()> {
        self.0.push(Ev::Fin);
        Ok(())
    }
}

// ---------------------------------------------------------------------------
// M-TRACE: online checker of the DiffHook protocol

/// Online trace monitor.  It sits exactly where a user's hook sits and checks
/// every callback as it arrives.  `eq(o, n)` compares old[o] with new[n]
/// through the same lookups the algorithm was given.
pub struct TraceMon<'a> {
    eq: &'a dyn Fn(usize, usize) -> bool,
    old_range: Range<usize>,
    new_range: Range<usize>,
    o: usize,
    n: usize,
    in_run: bool,
    run_o: usize,
    run_n: usize,
    /// carried indices of the current run, checked against the run's extent when it closes
    pending_carried: Vec<(bool, usize, usize)>, // (is_delete, carried, event index)
    finished: u32,
    pub evs: Vec<Ev>,
    pub deleted: usize,
    pub inserted: usize,
    pub equal_len: usize,
    pub failures: Vec<(&'static str, String)>,
}

impl<'a> TraceMon<'a> {
    pub fn new(eq: &'a dyn Fn(usize, usize) -> bool, old_range: Range<usize>, new_range: Range<usize>) -> Self {
        TraceMon {
            eq,
            o: old_range.start,
            n: new_range.start,
            old_range,
            new_range,
            in_run: false,
            run_o: 0,
            run_n: 0,
            pending_carried: Vec::new(),
            finished: 0,
            evs: Vec::new(),
            deleted: 0,
            inserted: 0,
            equal_len: 0,
            failures: Vec::new(),
        }
    }

    fn fail(&mut self, code: &'static str, msg: String) {
        if self.failures.len() < 8 {
            self.failures.push((code, msg));
        }
    }

    fn pre(&mut self, what: &str) {
        if self.finished > 0 {
            let i = self.evs.len();
            self.fail("trace.call_after_finish", format!("{} (event #{}) arrived after finish", what, i));
        }
    }

    fn open_run(&mut self) {
        if !self.in_run {
            self.in_run = true;
            self.run_o = self.o;
            self.run_n = self.n;
        }
    }

    fn close_run(&mut self) {
        if self.in_run {
            let (ro, rn, o, n) = (self.run_o, self.run_n, self.o, self.n);
            let pend = std::mem::take(&mut self.pending_carried);
            for (is_del, carried, at) in pend {
                if is_del {
                    if carried < rn || carried > n {
                        self.fail(
                            "trace.carried_new_outside_run",
                            format!("delete (event #{}) carries new index {} outside its change run (new side {}..={})", at, carried, rn, n),
                        );
                    }
                } else if carried < ro || carried > o {
                    self.fail(
                        "trace.carried_old_outside_run",
                        format!("insert (event #{}) carries old index {} outside its change run (old side {}..={})", at, carried, ro, o),
                    );
                }
            }
            self.in_run = false;
        }
    }

    fn consume_old(&mut self, what: &'static str, idx: usize, len: usize) -> bool {
        let at = self.evs.len();
        if len == 0 {
            self.fail("trace.empty_segment", format!("{} (event #{}) has length 0", what, at));
        }
        if idx != self.o {
            self.fail(
                "trace.old_index_gap",
                format!("{} (event #{}) starts at old index {} but the previous callback stopped at {}", what, at, idx, self.o),
            );
        }
        let end = idx.checked_add(len);
        match end {
            Some(e) if idx >= self.old_range.start && e <= self.old_range.end => {
                self.o = e;
                true
            }
            _ => {
                self.fail(
                    "trace.old_out_of_range",
                    format!("{} (event #{}) covers old {}+{} outside the requested range {:?}", what, at, idx, len, self.old_range),
                );
                self.o = end.unwrap_or(idx).max(self.o);
                false
            }
        }
    }

    fn consume_new(&mut self, what: &'static str, idx: usize, len: usize) -> bool {
        let at = self.evs.len();
        if len == 0 {
            self.fail("trace.empty_segment", format!("{} (event #{}) has length 0", what, at));
        }
        if idx != self.n {
            self.fail(
                "trace.new_index_gap",
                format!("{} (event #{}) starts at new index {} but the previous callback stopped at {}", what, at, idx, self.n),
            );
        }
        let end = idx.checked_add(len);
        match end {
            Some(e) if idx >= self.new_range.start && e <= self.new_range.end => {
                self.n = e;
                true
            }
            _ => {
                self.fail(
                    "trace.new_out_of_range",
                    format!("{} (event #{}) covers new {}+{} outside the requested range {:?}", what, at, idx, len, self.new_range),
                );
                self.n = end.unwrap_or(idx).max(self.n);
                false
            }
        }
    }

    /// final verdict; call after the diff returned Ok
    pub fn finish_check(&mut self) {
        if self.finished != 1 {
            self.fail("trace.finish_count", format!("finish was called {} times", self.finished));
        }
        self.close_run();
        if self.o != self.old_range.end || self.n != self.new_range.end {
            self.fail(
                "trace.not_covering",
                format!(
                    "callbacks stop at old {} / new {} but the requested ranges end at {} / {}",
                    self.o, self.n, self.old_range.end, self.new_range.end
                ),
            );
        }
    }

    pub fn cost(&self) -> usize {
        self.deleted + self.inserted
    }
}

impl<'a> DiffHook for TraceMon<'a> {
    type Error = ();

    fn equal(&mut self, o: usize, n: usize, l: usize) -> Result<(), ()> {
        self.pre("equal");
        self.close_run();
        let ok_o = self.consume_old("equal", o, l);
        let ok_n = self.consume_new("equal", n, l);
        if ok_o && ok_n {
            for k in 0..l {
                if !(self.eq)(o + k, n + k) {
                    let at = self.evs.len();
                    self.fail(
                        "trace.equal_not_equal",
                        format!("equal (event #{}) pairs old[{}] with new[{}] which differ", at, o + k, n + k),
                    );
                    break;
                }
            }
        }
        self.equal_len += l;
        self.evs.push(Ev::Eq(o, n, l));
        Ok(())
    }

    fn delete(&mut self, o: usize, l: usize, n: usize) -> Result<(), ()> {
        self.pre("delete");
        self.open_run();
        self.consume_old("delete", o, l);
        let at = self.evs.len();
        if n < self.run_n {
            self.fail(
                "trace.carried_new_outside_run",
                format!("delete (event #{}) carries new index {} before the start {} of its change run", at, n, self.run_n),
            );
        } else {
            self.pending_carried.push((true, n, at));
        }
        self.deleted += l;
        self.evs.push(Ev::Del(o, l, n));
        Ok(())
    }

    fn insert(&mut self, o: usize, n: usize, l: usize) -> Result<(), ()> {
        self.pre("insert");
        self.open_run();
        self.consume_new("insert", n, l);
        let at = self.evs.len();
        if o < self.run_o {
            self.fail(
                "trace.carried_old_outside_run",
                format!("insert (event #{}) carries old index {} before the start {} of its change run", at, o, self.run_o),
            );
        } else {
            self.pending_carried.push((false, o, at));
        }
        self.inserted += l;
        self.evs.push(Ev::Ins(o, n, l));
        Ok(())
    }

    fn replace(&mut self, o: usize, ol: usize, n: usize, nl: usize) -> Result<(), ()> {
        self.pre("replace");
        self.open_run();
        self.consume_old("replace", o, ol);
        self.consume_new("replace", n, nl);
        self.deleted += ol;
        self.inserted += nl;
        self.evs.push(Ev::Rep(o, ol, n, nl));
        Ok(())
    }

    fn finish(&mut self) -> Result<(), ()> {
        self.pre("finish");
        self.finished += 1;
        self.evs.push(Ev::Fin);
        Ok(())
    }
}

// ---------------------------------------------------------------------------
// M-OPS: offline checker over captured op lists

#[derive(Default, Debug)]
pub struct OpsVerdict {
    /// C02: not a valid edit script old->new
    pub script: Vec<(&'static str, String)>,
    /// C09: not in normal form
    pub normal: Vec<(&'static str, String)>,
    /// C11: carried index not exact
    pub carried: Vec<(&'static str, String)>,
    pub deleted: usize,
    pub inserted: usize,
    pub equal_len: usize,
    pub n_ops: usize,
}

/// Walks a captured op list.  `eq(o, n)` compares old[o] with new[n].
pub fn check_ops(
    ops: &[DiffOp],
    eq: &dyn Fn(usize, usize) -> bool,
    old_range: Range<usize>,
    new_range: Range<usize>,
) -> OpsVerdict {
    let mut v = OpsVerdict::default();
    v.n_ops = ops.len();
    let mut o = old_range.start;
    let mut n = new_range.start;
    let mut prev_equal: Option<bool> = None;
    for (i, op) in ops.iter().enumerate() {
        let (tag, orr, nrr) = op.as_tag_tuple();
        let is_eq = tag == DiffTag::Equal;
        // --- normal form
        if prev_equal == Some(is_eq) {
            v.normal.push((
                "ops.not_alternating",
                format!("ops #{} and #{} are both {}", i - 1, i, if is_eq { "Equal" } else { "non-Equal" }),
            ));
        }
        prev_equal = Some(is_eq);
        let old_len = orr.end.saturating_sub(orr.start);
        let new_len = nrr.end.saturating_sub(nrr.start);
        let empty = match tag {
            DiffTag::Equal => old_len == 0,
            DiffTag::Delete => old_len == 0,
            DiffTag::Insert => new_len == 0,
            DiffTag::Replace => old_len == 0 || new_len == 0,
        };
        if empty {
            v.normal.push(("ops.empty_op", format!("op #{} {:?} is empty (or a Replace with an empty side)", i, op)));
        }
        // --- script validity + carried indices
        match tag {
            DiffTag::Equal => {
                if orr.start != o || nrr.start != n {
                    v.script.push((
                        "ops.equal_position",
                        format!("op #{} {:?} is not at the next unconsumed items (old {}, new {})", i, op, o, n),
                    ));
                }
                if old_len != new_len {
                    v.script.push(("ops.equal_length", format!("op #{} {:?} has different lengths", i, op)));
                }
                if orr.end > old_range.end || nrr.end > new_range.end || orr.start < old_range.start || nrr.start < new_range.start {
                    v.script.push(("ops.out_of_range", format!("op #{} {:?} leaves the sequences", i, op)));
                } else {
                    for k in 0..old_len.min(new_len) {
                        if !eq(orr.start + k, nrr.start + k) {
                            v.script.push((
                                "ops.equal_not_equal",
                                format!("op #{} {:?} pairs old[{}] with new[{}] which differ", i, op, orr.start + k, nrr.start + k),
                            ));
                            break;
                        }
                    }
                }
                v.equal_len += old_len;
                o = orr.end;
                n = nrr.end;
            }
            DiffTag::Delete => {
                if orr.start != o {
                    v.script.push((
                        "ops.delete_position",
                        format!("op #{} {:?} does not start at the next unconsumed old item {}", i, op, o),
                    ));
                }
                if orr.end > old_range.end || orr.start < old_range.start {
                    v.script.push(("ops.out_of_range", format!("op #{} {:?} leaves the old sequence", i, op)));
                }
                if nrr.start != n {
                    v.carried.push((
                        "ops.delete_carried_new_index",
                        format!("op #{} {:?} carries new index {} but {} new items were consumed before it", i, op, nrr.start, n),
                    ));
                }
                v.deleted += old_len;
                o = orr.end;
            }
            DiffTag::Insert => {
                if nrr.start != n {
                    v.script.push((
                        "ops.insert_position",
                        format!("op #{} {:?} does not start at the next unconsumed new item {}", i, op, n),
                    ));
                }
                if nrr.end > new_range.end || nrr.start < new_range.start {
                    v.script.push(("ops.out_of_range", format!("op #{} {:?} leaves the new sequence", i, op)));
                }
                if orr.start != o {
                    v.carried.push((
                        "ops.insert_carried_old_index",
                        format!("op #{} {:?} carries old index {} but {} old items were consumed before it", i, op, orr.start, o),
                    ));
                }
                // latest position: first inserted item differs from first equal item after it
                if let Some(next) = ops.get(i + 1) {
                    if next.tag() == DiffTag::Equal && new_len > 0 {
                        let ne = next.old_range();
                        if ne.start < old_range.end
                            && ne.start >= old_range.start
                            && ne.end > ne.start
                            && nrr.start < new_range.end
                            && nrr.start >= new_range.start
                            && eq(ne.start, nrr.start)
                        {
                            v.normal.push((
                                "ops.insert_not_latest",
                                format!(
                                    "op #{} {:?} could slide down: its first item new[{}] equals the first equal item old[{}] after it",
                                    i, op, nrr.start, ne.start
                                ),
                            ));
                        }
                    }
                }
                v.inserted += new_len;
                n = nrr.end;
            }
            DiffTag::Replace => {
                if orr.start != o || nrr.start != n {
                    v.script.push((
                        "ops.replace_position",
                        format!("op #{} {:?} is not at the next unconsumed items (old {}, new {})", i, op, o, n),
                    ));
                }
                if orr.end > old_range.end || nrr.end > new_range.end || orr.start < old_range.start || nrr.start < new_range.start {
                    v.script.push(("ops.out_of_range", format!("op #{} {:?} leaves the sequences", i, op)));
                }
                v.deleted += old_len;
                v.inserted += new_len;
                o = orr.end;
                n = nrr.end;
            }
        }
        if v.script.len() > 6 {
            break;
        }
    }
    if v.script.is_empty() && (o != old_range.end || n != new_range.end) {
        v.script.push((
            "ops.not_covering",
            format!(
                "the walk ends at old {} / new {} but the sequences end at {} / {}",
                o, n, old_range.end, new_range.end
            ),
        ));
    }
    v
}

/// Second, independent formulation of C02: actually apply the ops to the old
/// items to build new, and inverted to build old from new.
pub fn apply_ops<T: Clone + PartialEq>(ops: &[DiffOp], old: &[T], new: &[T]) -> Result<(), String> {
    let mut built_new: Vec<T> = Vec::with_capacity(new.len());
    let mut built_old: Vec<T> = Vec::with_capacity(old.len());
    for op in ops {
        let (tag, orr, nrr) = op.as_tag_tuple();
        let get_old = |r: Range<usize>| old.get(r.clone()).ok_or_else(|| format!("{:?} reads old {:?} out of bounds", op, r));
        let get_new = |r: Range<usize>| new.get(r.clone()).ok_or_else(|| format!("{:?} reads new {:?} out of bounds", op, r));
        match tag {
            DiffTag::Equal => {
                // forward: copy from old; inverse: copy from new
                built_new.extend_from_slice(get_old(orr.clone())?);
                built_old.extend_from_slice(get_new(nrr.clone())?);
            }
            DiffTag::Delete => built_old.extend_from_slice(get_old(orr.clone())?),
            DiffTag::Insert => built_new.extend_from_slice(get_new(nrr.clone())?),
            DiffTag::Replace => {
                built_old.extend_from_slice(get_old(orr.clone())?);
                built_new.extend_from_slice(get_new(nrr.clone())?);
            }
        }
    }
    if built_new != new {
        return Err("applying the ops to old does not yield new".into());
    }
    if built_old != old {
        return Err("applying the inverted ops to new does not yield old".into());
    }
    Ok(())
}

// ---------------------------------------------------------------------------
// R-LCS

/// O(NM) dynamic program for the LCS length (two rolling rows).
pub fn lcs_len<A, B>(a: &[A], b: &[B]) -> usize
where
    B: PartialEq<A>,
{
    let mut prev = vec![0u32; b.len() + 1];
    let mut cur = vec![0u32; b.len() + 1];
    for x in a {
        for (j, y) in b.iter().enumerate() {
            cur[j + 1] = if *y == *x { prev[j] + 1 } else { prev[j + 1].max(cur[j]) };
        }
        std::mem::swap(&mut prev, &mut cur);
    }
    prev[b.len()] as usize
}

// ---------------------------------------------------------------------------
// hostile carriers

/// An `Index` that panics outside the range the caller asked the diff to look
/// at: a red zone around the requested range (the same contract as the crate's
/// own offset lookups).  `base` shifts the index space.
pub struct StrictLookup<'a, T> {
    pub data: &'a [T],
    pub allowed: Range<usize>,
    pub base: usize,
}

impl<'a, T> Index<usize> for StrictLookup<'a, T> {
    type Output = T;
    fn index(&self, index: usize) -> &T {
        if index < self.allowed.start || index >= self.allowed.end {
            panic!("StrictLookup: index {} outside the requested range {:?}", index, self.allowed);
        }
        &self.data[index - self.base]
    }
}

thread_local! {
    pub static CMP_COUNT: Cell<u64> = Cell::new(0);
}

pub fn cmp_reset() {
    CMP_COUNT.with(|c| c.set(0));
}
pub fn cmp_count() -> u64 {
    CMP_COUNT.with(|c| c.get())
}

/// Element whose `PartialEq` AND `Ord` / `PartialOrd` count calls and advance the virtual clock
/// (an ordering comparison is an element comparison too).
#[derive(Debug, Clone, Copy, Eq)]
pub struct CountingElem(pub u32);

impl PartialOrd for CountingElem {
    #[inline]
    fn partial_cmp(&self, other: &Self) -> Option<std::cmp::Ordering> {
        Some(self.cmp(other))
    }
}

impl Ord for CountingElem {
    #[inline]
    fn cmp(&self, other: &Self) -> std::cmp::Ordering {
        CMP_COUNT.with(|c| c.set(c.get() + 1));
        similar::verif_hooks::advance(1);
        self.0.cmp(&other.0)
    }
}

impl PartialEq for CountingElem {
    #[inline]
    fn eq(&self, other: &Self) -> bool {
        CMP_COUNT.with(|c| c.set(c.get() + 1));
        similar::verif_hooks::advance(1);
        self.0 == other.0
    }
}

impl Hash for CountingElem {
    fn hash<H: Hasher>(&self, state: &mut H) {
        self.0.hash(state)
    }
}

/// Element with a constant hash (every item collides).
#[derive(Debug, Clone, Copy, PartialEq, Eq, PartialOrd, Ord)]
pub struct CollidingElem(pub u32);

impl Hash for CollidingElem {
    fn hash<H: Hasher>(&self, state: &mut H) {
        7u8.hash(state)
    }
}

/// A new-side item type that differs from the old-side type (`u32`): it compares by value
/// with `u32`, but hashes differently (legal: no cross-type hashing contract is documented for
/// the diff algorithms; each side is hashed on its own).
#[derive(Debug, Clone, Copy, PartialEq, Eq, PartialOrd, Ord)]
pub struct WideId(pub u64);

impl Hash for WideId {
    fn hash<H: Hasher>(&self, state: &mut H) {
        (self.0 ^ 0xdead_beef_0000_0001).hash(state);
        0x5au8.hash(state);
    }
}

impl PartialEq<u32> for WideId {
    fn eq(&self, other: &u32) -> bool {
        self.0 == *other as u64
    }
}

/// A new-side item type whose comparison with the old-side `u32` items is a TOLERANCE
/// (|a - b| <= 1): coarser than each side's own `Eq` and not transitive.  Legal for every
/// entry point: only `New::Output: PartialEq<Old::Output>` is required of the cross comparison.
#[derive(Debug, Clone, Copy, PartialEq, Eq, PartialOrd, Ord, Hash)]
pub struct Tol(pub u32);

impl PartialEq<u32> for Tol {
    #[inline]
    fn eq(&self, other: &u32) -> bool {
        (self.0 as i64 - *other as i64).abs() <= 1
    }
}

/// Generic counting item: `PartialEq` counts calls (and advances the virtual clock); `Hash`,
/// `Ord` delegate to the wrapped value, so the hashing behaviour is that of the plain type.
#[derive(Debug, Clone, Eq)]
pub struct CountingKey<T>(pub T);

impl<T: Ord> PartialOrd for CountingKey<T> {
    #[inline]
    fn partial_cmp(&self, other: &Self) -> Option<std::cmp::Ordering> {
        Some(self.cmp(other))
    }
}

impl<T: Ord> Ord for CountingKey<T> {
    #[inline]
    fn cmp(&self, other: &Self) -> std::cmp::Ordering {
        CMP_COUNT.with(|c| c.set(c.get() + 1));
        self.0.cmp(&other.0)
    }
}

impl<T: PartialEq> PartialEq for CountingKey<T> {
    #[inline]
    fn eq(&self, other: &Self) -> bool {
        CMP_COUNT.with(|c| c.set(c.get() + 1));
        self.0 == other.0
    }
}

impl<T: Hash> Hash for CountingKey<T> {
    fn hash<H: Hasher>(&self, state: &mut H) {
        self.0.hash(state)
    }
}

// ---------------------------------------------------------------------------
// a user-defined text type with a weak (but legal) hash

/// `str` newtype whose `Hash` only feeds the LENGTH: equal strings hash equally (legal), but
/// all strings of one length collide.  Implements `DiffableStr` by delegating to `str`.
#[repr(transparent)]
#[derive(PartialEq, Eq, PartialOrd, Ord, Debug)]
pub struct WeakStr(str);

impl WeakStr {
    pub fn new(s: &str) -> &WeakStr {
        // SAFETY: WeakStr is a repr(transparent) wrapper around str
        unsafe { &*(s as *const str as *const WeakStr) }
    }
    pub fn as_inner(&self) -> &str {
        &self.0
    }
}

impl Hash for WeakStr {
    fn hash<H: Hasher>(&self, state: &mut H) {
        self.0.len().hash(state)
    }
}

#[derive(Debug, Clone)]
pub struct WeakString(String);

impl std::borrow::Borrow<WeakStr> for WeakString {
    fn borrow(&self) -> &WeakStr {
        WeakStr::new(&self.0)
    }
}

impl ToOwned for WeakStr {
    type Owned = WeakString;
    fn to_owned(&self) -> WeakString {
        WeakString(self.0.to_string())
    }
}

impl similar::DiffableStr for WeakStr {
    fn tokenize_lines(&self) -> Vec<&Self> {
        self.0.tokenize_lines().into_iter().map(WeakStr::new).collect()
    }
    fn tokenize_lines_and_newlines(&self) -> Vec<&Self> {
        self.0.tokenize_lines_and_newlines().into_iter().map(WeakStr::new).collect()
    }
    fn tokenize_words(&self) -> Vec<&Self> {
        self.0.tokenize_words().into_iter().map(WeakStr::new).collect()
    }
    fn tokenize_chars(&self) -> Vec<&Self> {
        self.0.tokenize_chars().into_iter().map(WeakStr::new).collect()
    }
    #[cfg(feature = "unicode")]
    fn tokenize_unicode_words(&self) -> Vec<&Self> {
        self.0.tokenize_unicode_words().into_iter().map(WeakStr::new).collect()
    }
    #[cfg(feature = "unicode")]
    fn tokenize_graphemes(&self) -> Vec<&Self> {
        self.0.tokenize_graphemes().into_iter().map(WeakStr::new).collect()
    }
    fn as_str(&self) -> Option<&str> {
        Some(&self.0)
    }
    fn to_string_lossy(&self) -> std::borrow::Cow<'_, str> {
        std::borrow::Cow::Borrowed(&self.0)
    }
    fn ends_with_newline(&self) -> bool {
        self.0.ends_with(&['\r', '\n'][..])
    }
    fn len(&self) -> usize {
        self.0.len()
    }
    fn slice(&self, rng: Range<usize>) -> &Self {
        WeakStr::new(&self.0[rng])
    }
    fn as_bytes(&self) -> &[u8] {
        self.0.as_bytes()
    }
}

/// Counting item with a COARSE (but legal) `Hash`: only `value % 3` is fed to the hasher, so equal items
/// hash equally and almost all unequal ones collide.  An algorithm that never hashes (Myers: only
/// `PartialEq` is needed) must not care.
#[derive(Debug, Clone, Copy, Eq)]
pub struct CoarseHashElem(pub u64);

impl PartialEq for CoarseHashElem {
    #[inline]
    fn eq(&self, other: &Self) -> bool {
        CMP_COUNT.with(|c| c.set(c.get() + 1));
        self.0 == other.0
    }
}

impl PartialOrd for CoarseHashElem {
    #[inline]
    fn partial_cmp(&self, other: &Self) -> Option<std::cmp::Ordering> {
        Some(self.cmp(other))
    }
}

impl Ord for CoarseHashElem {
    #[inline]
    fn cmp(&self, other: &Self) -> std::cmp::Ordering {
        CMP_COUNT.with(|c| c.set(c.get() + 1));
        self.0.cmp(&other.0)
    }
}

impl Hash for CoarseHashElem {
    fn hash<H: Hasher>(&self, state: &mut H) {
        (self.0 % 3).hash(state)
    }
}

/// ONE-BYTE counting item (`size_of::<CountingByte>() == 1`): `PartialEq` / `Ord` count calls.
#[derive(Debug, Clone, Copy, Eq, Hash)]
pub struct CountingByte(pub u8);

impl PartialEq for CountingByte {
    #[inline]
    fn eq(&self, other: &Self) -> bool {
        CMP_COUNT.with(|c| c.set(c.get() + 1));
        self.0 == other.0
    }
}

impl PartialOrd for CountingByte {
    #[inline]
    fn partial_cmp(&self, other: &Self) -> Option<std::cmp::Ordering> {
        Some(self.cmp(other))
    }
}

impl Ord for CountingByte {
    #[inline]
    fn cmp(&self, other: &Self) -> std::cmp::Ordering {
        CMP_COUNT.with(|c| c.set(c.get() + 1));
        self.0.cmp(&other.0)
    }
}
