//! R-PATCH: strict unified-diff parser / applier over the rendered BYTES.

use crate::tok_ref::{ref_lines, show};

pub const MARKER: &[u8] = b"\\ No newline at end of file\n";

#[derive(Debug, Clone)]
pub struct BodyLine {
    pub tag: u8,
    /// the line's bytes as they must appear in the old / new text
    pub content: Vec<u8>,
    pub marked_no_newline: bool,
}

#[derive(Debug, Clone)]
pub struct Hunk {
    pub header_line: Vec<u8>,
    pub old_start_1: usize,
    pub old_count: usize,
    pub new_start_1: usize,
    pub new_count: usize,
    pub body: Vec<BodyLine>,
}

/// physical lines: a line ends at LF, CRLF or a lone CR (every rendered line
/// starts with a tag byte, never with LF, so CR LF is always one terminator)
pub fn physical_lines(b: &[u8]) -> Vec<&[u8]> {
    ref_lines(b).into_iter().map(|r| &b[r]).collect()
}

fn parse_range(s: &[u8]) -> Option<(usize, usize)> {
    let s = std::str::from_utf8(s).ok()?;
    match s.split_once(',') {
        Some((a, b)) => Some((a.parse().ok()?, b.parse().ok()?)),
        None => Some((s.parse().ok()?, 1)),
    }
}

fn parse_header(line: &[u8]) -> Option<(usize, usize, usize, usize)> {
    // "@@ -a[,b] +c[,d] @@\n"
    let line = line.strip_suffix(b"\n")?;
    let rest = line.strip_prefix(b"@@ -")?;
    let rest = rest.strip_suffix(b" @@")?;
    let sp = rest.iter().position(|x| *x == b' ')?;
    let (l, r) = rest.split_at(sp);
    let r = r.strip_prefix(b" +")?;
    let (a, b) = parse_range(l)?;
    let (c, d) = parse_range(r)?;
    Some((a, b, c, d))
}

pub struct Parsed {
    pub hunks: Vec<Hunk>,
    pub had_file_header: bool,
}

/// Parses the rendered diff.  `header` is the configured file header.
/// `hint` tells whether the missing-newline hint is enabled.
pub fn parse(rendered: &[u8], header: Option<(&str, &str)>, hint: bool) -> Result<Parsed, (&'static str, String)> {
    let mut lines = physical_lines(rendered);
    let mut had_file_header = false;
    if rendered.is_empty() {
        return Ok(Parsed { hunks: vec![], had_file_header });
    }
    if let Some((a, b)) = header {
        let l1 = format!("--- {}\n", a).into_bytes();
        let l2 = format!("+++ {}\n", b).into_bytes();
        if lines.len() >= 2 && lines[0] == &l1[..] && lines[1] == &l2[..] {
            had_file_header = true;
            lines.drain(..2);
        } else {
            return Err(("patch.file_header_missing", format!("output does not start with the configured file header: {}", show(&rendered[..rendered.len().min(80)]))));
        }
        if lines.is_empty() {
            return Err(("patch.file_header_without_hunk", "file header printed but no hunk follows".into()));
        }
    }
    let mut hunks: Vec<Hunk> = Vec::new();
    let mut i = 0;
    while i < lines.len() {
        let l = lines[i];
        if l.starts_with(b"@") {
            match parse_header(l) {
                Some((a, b, c, d)) => hunks.push(Hunk {
                    header_line: l.to_vec(),
                    old_start_1: a,
                    old_count: b,
                    new_start_1: c,
                    new_count: d,
                    body: vec![],
                }),
                None => return Err(("patch.malformed_hunk_header", format!("cannot parse hunk header {}", show(l)))),
            }
            i += 1;
            continue;
        }
        let h = match hunks.last_mut() {
            Some(h) => h,
            None => return Err(("patch.body_before_header", format!("line {} appears before any hunk header", show(l)))),
        };
        match l[0] {
            b' ' | b'-' | b'+' => {
                let mut content = l[1..].to_vec();
                let mut marked = false;
                if hint && i + 1 < lines.len() && lines[i + 1] == MARKER {
                    marked = true;
                    // the LF before the marker is virtual
                    if content.last() == Some(&b'\n') {
                        content.pop();
                        // a CR in front of the virtual LF would have been a terminator of its own:
                        // then the line did not lack a newline
                    } else {
                        return Err(("patch.marker_without_virtual_newline", format!("marker follows {} which does not end in LF", show(l))));
                    }
                    i += 1;
                }
                h.body.push(BodyLine {
                    tag: l[0],
                    content,
                    marked_no_newline: marked,
                });
            }
            b'\\' => return Err(("patch.stray_marker", format!("'\\' line {} does not follow a body line", show(l)))),
            _ => return Err(("patch.unknown_line", format!("line {} starts with none of ' ', '-', '+', '\\\\', '@'", show(l)))),
        }
        i += 1;
    }
    if hunks.is_empty() {
        return Err(("patch.no_hunk", "non-empty output without a hunk".into()));
    }
    Ok(Parsed { hunks, had_file_header })
}

fn has_terminator(l: &[u8]) -> bool {
    matches!(l.last(), Some(b'\n') | Some(b'\r'))
}

/// Strict application.  Returns the list of failed assertions (code, text).
pub fn apply_strict(old: &[u8], new: &[u8], parsed: &Parsed, radius: usize, hint: bool) -> Vec<(&'static str, String)> {
    let old_lines: Vec<&[u8]> = ref_lines(old).into_iter().map(|r| &old[r]).collect();
    apply_strict_lines(&old_lines, new, parsed, radius, hint)
}

/// Strict application to an old side given as ITEMS (the caller's own "lines": interior items may lack a
/// terminator); `new` is the concatenation of the new items.
pub fn apply_strict_lines(old_lines: &[&[u8]], new: &[u8], parsed: &Parsed, radius: usize, hint: bool) -> Vec<(&'static str, String)> {
    let mut f: Vec<(&'static str, String)> = Vec::new();
    let mut result: Vec<u8> = Vec::new();
    let mut emitted_new_lines = 0usize;
    let mut ocur = 0usize;
    for (hi, h) in parsed.hunks.iter().enumerate() {
        let olds = h.body.iter().filter(|l| l.tag != b'+').count();
        let news = h.body.iter().filter(|l| l.tag != b'-').count();
        if olds != h.old_count {
            f.push(("patch.header_old_count", format!("hunk #{} {} states {} old lines but its body has {}", hi, show(&h.header_line), h.old_count, olds)));
        }
        if news != h.new_count {
            f.push(("patch.header_new_count", format!("hunk #{} {} states {} new lines but its body has {}", hi, show(&h.header_line), h.new_count, news)));
        }
        // stated starts (0-based): an empty range is stated as the line before it
        let ostart = if h.old_count == 0 { h.old_start_1 } else { h.old_start_1.wrapping_sub(1) };
        let nstart = if h.new_count == 0 { h.new_start_1 } else { h.new_start_1.wrapping_sub(1) };
        if ostart < ocur || ostart > old_lines.len() {
            f.push((
                "patch.header_old_start",
                format!("hunk #{} {} starts at old line {} but the previous hunk ended at {} (old text has {} lines)", hi, show(&h.header_line), ostart, ocur, old_lines.len()),
            ));
            return f;
        }
        // copy untouched lines
        while ocur < ostart {
            result.extend_from_slice(old_lines[ocur]);
            ocur += 1;
            emitted_new_lines += 1;
        }
        if emitted_new_lines != nstart {
            f.push((
                "patch.header_new_start",
                format!("hunk #{} {} states new start {} but {} new lines precede it", hi, show(&h.header_line), nstart, emitted_new_lines),
            ));
        }
        // body
        let changes = h.body.iter().filter(|l| l.tag != b' ').count();
        if changes == 0 {
            f.push(("patch.hunk_without_change", format!("hunk #{} contains no change", hi)));
        }
        let lead = h.body.iter().take_while(|l| l.tag == b' ').count();
        let trail = h.body.iter().rev().take_while(|l| l.tag == b' ').count();
        if changes > 0 && (lead > radius || trail > radius) {
            f.push(("patch.context_exceeds_radius", format!("hunk #{} has {} leading / {} trailing context lines, radius {}", hi, lead, trail, radius)));
        }
        let mut seen_plus_in_run = false;
        for (li, l) in h.body.iter().enumerate() {
            match l.tag {
                b' ' => seen_plus_in_run = false,
                b'+' => seen_plus_in_run = true,
                _ => {
                    if seen_plus_in_run {
                        f.push(("patch.delete_after_insert", format!("hunk #{} line #{}: a '-' line follows a '+' line within one run of changes", hi, li)));
                    }
                }
            }
            if hint {
                if l.marked_no_newline && has_terminator(&l.content) {
                    f.push(("patch.marker_on_terminated_line", format!("hunk #{} line #{} {} is followed by the no-newline marker but has a terminator", hi, li, show(&l.content))));
                }
                if !l.marked_no_newline && !has_terminator(&l.content) {
                    f.push(("patch.marker_missing", format!("hunk #{} line #{} {} lacks a terminator but is not followed by the no-newline marker", hi, li, show(&l.content))));
                }
            }
            if l.tag != b'+' {
                match old_lines.get(ocur) {
                    None => {
                        f.push(("patch.old_line_past_end", format!("hunk #{} line #{} refers to old line {} but the old text has {} lines", hi, li, ocur, old_lines.len())));
                        return f;
                    }
                    Some(ol) => {
                        let same = if hint {
                            *ol == &l.content[..]
                        } else {
                            // without the hint a line lacking its newline is rendered with a virtual one
                            *ol == &l.content[..] || (!has_terminator(ol) && [ol, &b"\n"[..]].concat() == l.content)
                        };
                        if !same {
                            f.push((
                                "patch.line_mismatch",
                                format!("hunk #{} line #{}: '{}' line {} does not match old line {} = {}", hi, li, l.tag as char, show(&l.content), ocur, show(ol)),
                            ));
                            return f;
                        }
                    }
                }
                ocur += 1;
            }
            if l.tag != b'-' {
                result.extend_from_slice(&l.content);
                emitted_new_lines += 1;
            }
        }
    }
    while ocur < old_lines.len() {
        result.extend_from_slice(old_lines[ocur]);
        ocur += 1;
    }
    let ok = if hint {
        result == new
    } else {
        result == new || (!has_terminator(new) && result == [new, &b"\n"[..]].concat())
    };
    if !ok {
        f.push(("patch.result_differs", format!("applying the hunks to the old text gives {} instead of the new text {}", show(&result), show(new))));
    }
    f
}
